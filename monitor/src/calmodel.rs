//! R-CAL: day-indexed boolean calendar model with its own civil-date arithmetic, the roll /
//! count oracles, the probing proxy calendar and the "calendar zoo" generators.
//!
//! The oracle side never uses chrono for arithmetic: dates are day numbers (days since
//! 1970-01-01), converted with Howard Hinnant's civil-date algorithms. chrono is used only to
//! build / read the `NaiveDateTime` values of rateslib's API.

use crate::rng::Rng;
use chrono::{Datelike, NaiveDate, NaiveDateTime};
use rateslib::calendars::{Cal, DateRoll, Modifier, NamedCal, UnionCal};
use std::cell::{Cell, RefCell};

// ------------------------------------------------------------------ civil arithmetic (own)

pub fn days_from_civil(y: i64, m: i64, d: i64) -> i64 {
    let y = if m <= 2 { y - 1 } else { y };
    let era = if y >= 0 { y } else { y - 399 } / 400;
    let yoe = y - era * 400;
    let mp = (m + 9) % 12;
    let doy = (153 * mp + 2) / 5 + d - 1;
    let doe = yoe * 365 + yoe / 4 - yoe / 100 + doy;
    era * 146097 + doe - 719468
}

pub fn civil_from_days(z: i64) -> (i64, i64, i64) {
    let z = z + 719468;
    let era = if z >= 0 { z } else { z - 146096 } / 146097;
    let doe = z - era * 146097;
    let yoe = (doe - doe / 1460 + doe / 36524 - doe / 146096) / 365;
    let y = yoe + era * 400;
    let doy = doe - (365 * yoe + yoe / 4 - yoe / 100);
    let mp = (5 * doy + 2) / 153;
    let d = doy - (153 * mp + 2) / 5 + 1;
    let m = if mp < 10 { mp + 3 } else { mp - 9 };
    (if m <= 2 { y + 1 } else { y }, m, d)
}

/// 0 = Monday .. 6 = Sunday (1970-01-01 was a Thursday)
pub fn weekday(z: i64) -> i64 {
    (z + 3).rem_euclid(7)
}

pub fn is_leap(y: i64) -> bool {
    (y % 4 == 0 && y % 100 != 0) || y % 400 == 0
}

pub fn days_in_month(y: i64, m: i64) -> i64 {
    match m {
        1 | 3 | 5 | 7 | 8 | 10 | 12 => 31,
        4 | 6 | 9 | 11 => 30,
        _ => {
            if is_leap(y) {
                29
            } else {
                28
            }
        }
    }
}

pub const Z_1970: i64 = 0;
pub fn z_2200_end() -> i64 {
    days_from_civil(2200, 12, 31)
}

pub fn to_ndt(z: i64) -> NaiveDateTime {
    let (y, m, d) = civil_from_days(z);
    NaiveDate::from_ymd_opt(y as i32, m as u32, d as u32)
        .expect("harness: valid civil date")
        .and_hms_opt(0, 0, 0)
        .unwrap()
}

pub fn from_ndt(dt: &NaiveDateTime) -> i64 {
    days_from_civil(dt.year() as i64, dt.month() as i64, dt.day() as i64)
}

pub fn fmt_z(z: i64) -> String {
    let (y, m, d) = civil_from_days(z);
    format!("{:04}-{:02}-{:02}", y, m, d)
}

/// Anonymous Gregorian computus: Easter Sunday as a day number.
pub fn easter(y: i64) -> i64 {
    let a = y % 19;
    let b = y / 100;
    let c = y % 100;
    let d = b / 4;
    let e = b % 4;
    let f = (b + 8) / 25;
    let g = (b - f + 1) / 3;
    let h = (19 * a + b - d - g + 15) % 30;
    let i = c / 4;
    let k = c % 4;
    let l = (32 + 2 * e + 2 * i - h - k) % 7;
    let m = (a + 11 * h + 22 * l) / 451;
    let month = (h + l - 7 * m + 114) / 31;
    let day = (h + l - 7 * m + 114) % 31 + 1;
    days_from_civil(y, month, day)
}

pub fn selftest() -> Result<(), String> {
    let known = [
        ((1970, 1, 1), 0, 3),
        ((2000, 2, 29), 11016, 1),
        ((2024, 3, 29), 19811, 4),
        ((2200, 12, 31), 84370, 2),
        ((1999, 12, 31), 10956, 4),
        ((2100, 3, 1), 47541, 0),
    ];
    for ((y, m, d), z, wd) in known {
        if days_from_civil(y, m, d) != z {
            return Err(format!("days_from_civil({},{},{}) = {} != {}", y, m, d, days_from_civil(y, m, d), z));
        }
        if civil_from_days(z) != (y, m, d) {
            return Err(format!("civil_from_days({})", z));
        }
        if weekday(z) != wd {
            return Err(format!("weekday({}) = {} != {}", z, weekday(z), wd));
        }
    }
    for z in -1000..90000 {
        let (y, m, d) = civil_from_days(z);
        if days_from_civil(y, m, d) != z || d < 1 || d > days_in_month(y, m) {
            return Err(format!("round trip {}", z));
        }
    }
    // known Easter Sundays
    for (y, m, d) in [(2024, 3, 31), (2025, 4, 20), (2000, 4, 23), (1970, 3, 29), (2038, 4, 25), (2011, 4, 24), (2008, 3, 23), (2200, 4, 6)] {
        if easter(y) != days_from_civil(y, m, d) {
            return Err(format!("easter({}) = {}", y, fmt_z(easter(y))));
        }
    }
    if !(is_leap(2000) && !is_leap(1900) && !is_leap(2100) && is_leap(2024) && !is_leap(2023)) {
        return Err("leap".into());
    }
    Ok(())
}

// ------------------------------------------------------------------ bit-vector model

/// `bus[d]` / `settle[d]` for every day of a window, filled from the real predicates.
pub struct CalBits {
    pub z0: i64,
    pub bus: Vec<bool>,
    pub settle: Vec<bool>,
}

impl CalBits {
    pub fn build<C: DateRoll>(cal: &C, z0: i64, z1: i64) -> Self {
        let n = (z1 - z0 + 1) as usize;
        let mut bus = Vec::with_capacity(n);
        let mut settle = Vec::with_capacity(n);
        for z in z0..=z1 {
            let dt = to_ndt(z);
            bus.push(cal.is_bus_day(&dt));
            settle.push(cal.is_settlement(&dt));
        }
        CalBits { z0, bus, settle }
    }
    /// The same bit vectors from the calendar's DESCRIPTION instead of from the object under test: a custom
    /// calendar from its week mask and holiday list, a union / named calendar by the definition (business day in
    /// every member; settlement day = business day in every settlement member, always if there are none).
    /// Built-in members are taken as given (C07 judges their holiday lists). None if a name does not resolve.
    pub fn from_spec(spec: &CalSpec, z0: i64, z1: i64) -> Option<Self> {
        fn leaf_bus(spec: &CalSpec, z0: i64, z1: i64) -> Option<Vec<bool>> {
            match spec {
                CalSpec::Builtin(n) => {
                    let c = rateslib::calendars::get_calendar_by_name(n).ok()?;
                    Some((z0..=z1).map(|z| c.is_bus_day(&to_ndt(z))).collect())
                }
                CalSpec::Custom { week_mask, holidays } => {
                    let hs: std::collections::HashSet<i64> = holidays.iter().cloned().collect();
                    Some((z0..=z1).map(|z| !week_mask.contains(&(weekday(z) as u8)) && !hs.contains(&z)).collect())
                }
                _ => None,
            }
        }
        let and_all = |parts: &[CalSpec]| -> Option<Vec<bool>> {
            let mut acc = vec![true; (z1 - z0 + 1) as usize];
            for p in parts {
                let b = leaf_bus(p, z0, z1)?;
                for (a, x) in acc.iter_mut().zip(b.iter()) {
                    *a = *a && *x;
                }
            }
            Some(acc)
        };
        let n = (z1 - z0 + 1) as usize;
        match spec {
            CalSpec::Builtin(_) | CalSpec::Custom { .. } => Some(CalBits { z0, bus: leaf_bus(spec, z0, z1)?, settle: vec![true; n] }),
            CalSpec::Union { members, settle } => Some(CalBits {
                z0,
                bus: and_all(members)?,
                settle: match settle {
                    None => vec![true; n],
                    Some(v) => and_all(v)?,
                },
            }),
            CalSpec::Named(name) => {
                let lower = name.to_lowercase();
                let mut halves = lower.split('|');
                let ms: Vec<CalSpec> = halves.next()?.split(',').map(|x| CalSpec::Builtin(x.to_string())).collect();
                let ss: Option<Vec<CalSpec>> = halves.next().map(|h| h.split(',').map(|x| CalSpec::Builtin(x.to_string())).collect());
                if halves.next().is_some() {
                    return None;
                }
                Some(CalBits {
                    z0,
                    bus: and_all(&ms)?,
                    settle: match ss {
                        None => vec![true; n],
                        Some(v) => and_all(&v)?,
                    },
                })
            }
        }
    }
    /// first date on which the two disagree, and in which predicate
    pub fn first_difference(&self, other: &CalBits) -> Option<(i64, &'static str)> {
        for i in 0..self.bus.len().min(other.bus.len()) {
            if self.bus[i] != other.bus[i] {
                return Some((self.z0 + i as i64, "is_bus_day"));
            }
            if self.settle[i] != other.settle[i] {
                return Some((self.z0 + i as i64, "is_settlement"));
            }
        }
        None
    }
    pub fn z1(&self) -> i64 {
        self.z0 + self.bus.len() as i64 - 1
    }
    pub fn inside(&self, z: i64) -> bool {
        z >= self.z0 && z <= self.z1()
    }
    pub fn is_bus(&self, z: i64) -> bool {
        self.bus[(z - self.z0) as usize]
    }
    pub fn is_settle(&self, z: i64) -> bool {
        self.settle[(z - self.z0) as usize]
    }
    fn eligible(&self, z: i64, settlement: bool) -> bool {
        self.is_bus(z) && (!settlement || self.is_settle(z))
    }
    /// first eligible day at or after (dir=+1) / at or before (dir=-1) z; None if the window ends first
    pub fn scan(&self, z: i64, dir: i64, settlement: bool) -> Option<i64> {
        let mut c = z;
        while self.inside(c) {
            if self.eligible(c, settlement) {
                return Some(c);
            }
            c += dir;
        }
        None
    }
    /// the statement of C04
    pub fn roll(&self, z: i64, modifier: Modifier, settlement: bool) -> Option<i64> {
        let month_of = |d: i64| {
            let (y, m, _) = civil_from_days(d);
            (y, m)
        };
        match modifier {
            Modifier::Act => Some(z),
            Modifier::F => self.scan(z, 1, settlement),
            Modifier::P => self.scan(z, -1, settlement),
            Modifier::ModF => {
                let f = self.scan(z, 1, settlement)?;
                if month_of(f) != month_of(z) {
                    self.scan(z, -1, settlement)
                } else {
                    Some(f)
                }
            }
            Modifier::ModP => {
                let p = self.scan(z, -1, settlement)?;
                if month_of(p) != month_of(z) {
                    self.scan(z, 1, settlement)
                } else {
                    Some(p)
                }
            }
        }
    }
    /// k-th business day strictly after (dir=+1) / before (dir=-1) z; k = 0 gives z
    pub fn kth_bus(&self, z: i64, k: i64, dir: i64) -> Option<i64> {
        let mut c = z;
        let mut left = k;
        while left > 0 {
            c += dir;
            if !self.inside(c) {
                return None;
            }
            if self.is_bus(c) {
                left -= 1;
            }
        }
        Some(c)
    }
    /// the statement of C05 for a business start day
    pub fn add_bus_days(&self, z: i64, n: i64, settlement: bool) -> Option<i64> {
        let dir = if n < 0 { -1 } else { 1 };
        let t = self.kth_bus(z, n.abs(), dir)?;
        if settlement {
            self.scan(t, dir, true)
        } else {
            Some(t)
        }
    }
}

// ------------------------------------------------------------------ probing proxy calendar

/// Implements only the three required `DateRoll` methods by delegation while counting every
/// probed date. All provided methods (roll, add_bus_days, lag, add_months, ...) are rateslib's
/// own code running on top of it. Exceeding the probe budget unwinds with a marker panic that
/// the monitor turns into a "did not terminate within bound" violation.
pub struct Probe<'a, C: DateRoll> {
    pub inner: &'a C,
    pub probes: Cell<u64>,
    pub budget: u64,
    pub min_z: Cell<i64>,
    pub max_z: Cell<i64>,
    pub log: RefCell<Option<Vec<i64>>>,
}

pub const PROBE_BUDGET_MARKER: &str = "VERIF-PROBE-BUDGET-EXCEEDED";

impl<'a, C: DateRoll> Probe<'a, C> {
    pub fn new(inner: &'a C, budget: u64) -> Self {
        Probe { inner, probes: Cell::new(0), budget, min_z: Cell::new(i64::MAX), max_z: Cell::new(i64::MIN), log: RefCell::new(None) }
    }
    pub fn reset(&self) {
        self.probes.set(0);
        self.min_z.set(i64::MAX);
        self.max_z.set(i64::MIN);
    }
    fn tick(&self, date: &NaiveDateTime) {
        let p = self.probes.get() + 1;
        self.probes.set(p);
        let z = from_ndt(date);
        if z < self.min_z.get() {
            self.min_z.set(z);
        }
        if z > self.max_z.get() {
            self.max_z.set(z);
        }
        if let Some(l) = self.log.borrow_mut().as_mut() {
            if l.len() < 4096 {
                l.push(z);
            }
        }
        if p > self.budget {
            std::panic::panic_any(PROBE_BUDGET_MARKER);
        }
    }
}

impl<'a, C: DateRoll> DateRoll for Probe<'a, C> {
    fn is_weekday(&self, date: &NaiveDateTime) -> bool {
        self.tick(date);
        self.inner.is_weekday(date)
    }
    fn is_holiday(&self, date: &NaiveDateTime) -> bool {
        self.inner.is_holiday(date)
    }
    fn is_settlement(&self, date: &NaiveDateTime) -> bool {
        self.tick(date);
        self.inner.is_settlement(date)
    }
}

// ------------------------------------------------------------------ calendar zoo

pub const BUILTIN: [&str; 14] = ["all", "bus", "nyc", "fed", "tgt", "ldn", "stk", "osl", "zur", "tro", "tyo", "syd", "wlg", "mum"];

/// A description of a generated calendar that can be written out as a sample / replay input.
#[derive(Clone, Debug)]
pub enum CalSpec {
    Builtin(String),
    Named(String),
    Custom { week_mask: Vec<u8>, holidays: Vec<i64> },
    Union { members: Vec<CalSpec>, settle: Option<Vec<CalSpec>> },
}

impl CalSpec {
    pub fn describe(&self) -> serde_json::Value {
        use serde_json::json;
        match self {
            CalSpec::Builtin(n) => json!({"builtin": n}),
            CalSpec::Named(n) => json!({"named": n}),
            CalSpec::Custom { week_mask, holidays } => {
                let hs: Vec<String> = holidays.iter().take(24).map(|z| fmt_z(*z)).collect();
                json!({"week_mask": week_mask, "n_holidays": holidays.len(), "holidays_head": hs})
            }
            CalSpec::Union { members, settle } => json!({
                "members": members.iter().map(|m| m.describe()).collect::<Vec<_>>(),
                "settlement": settle.as_ref().map(|s| s.iter().map(|m| m.describe()).collect::<Vec<_>>()),
            }),
        }
    }
    /// does any custom part list its holidays out of chronological order (or with repeats)?
    pub fn has_unsorted_holidays(&self) -> bool {
        match self {
            CalSpec::Custom { holidays, .. } => holidays.windows(2).any(|w| w[0] >= w[1]),
            CalSpec::Union { members, settle } => members.iter().any(|m| m.has_unsorted_holidays()) || settle.as_ref().map_or(false, |v| v.iter().any(|m| m.has_unsorted_holidays())),
            _ => false,
        }
    }
    pub fn kind(&self) -> &'static str {
        match self {
            CalSpec::Builtin(_) => "builtin",
            CalSpec::Named(_) => "named",
            CalSpec::Custom { .. } => "custom",
            CalSpec::Union { .. } => "union",
        }
    }
}

pub enum AnyCal {
    Cal(Cal),
    Union(UnionCal),
    Named(NamedCal),
    /// the same calendar inside the `CalType` container (what a curve holds); it must behave identically
    Wrapped(rateslib::calendars::CalType),
}

impl AnyCal {
    pub fn is_wrapped(&self) -> bool {
        matches!(self, AnyCal::Wrapped(_))
    }
}

pub fn simple_cal(spec: &CalSpec) -> Option<Cal> {
    match spec {
        CalSpec::Builtin(n) => rateslib::calendars::get_calendar_by_name(n).ok(),
        CalSpec::Custom { week_mask, holidays } => Some(Cal::new(holidays.iter().map(|z| to_ndt(*z)).collect(), week_mask.clone())),
        _ => None,
    }
}

/// one calendar in four (chosen by a hash of its description, so that replays agree) is handed out
/// inside the `CalType` container
pub fn build_cal(spec: &CalSpec) -> Option<AnyCal> {
    use rateslib::calendars::CalType;
    let any = build_cal_plain(spec)?;
    if crate::util::hash_str(&spec.describe().to_string()) % 4 != 0 {
        return Some(any);
    }
    Some(AnyCal::Wrapped(match any {
        AnyCal::Cal(c) => CalType::Cal(c),
        AnyCal::Union(c) => CalType::UnionCal(c),
        AnyCal::Named(c) => CalType::NamedCal(c),
        AnyCal::Wrapped(c) => c,
    }))
}

/// the forms in which a described calendar is exercised: as built, and - always when it carries settlement
/// calendars (a name with '|', a union with a settlement list), else for one description in four - also inside
/// the `CalType` container
pub fn build_cal_forms(spec: &CalSpec) -> Option<Vec<AnyCal>> {
    use rateslib::calendars::CalType;
    let has_settlement = match spec {
        CalSpec::Named(n) => n.contains('|'),
        CalSpec::Union { settle, .. } => settle.is_some(),
        _ => false,
    };
    let mut v = vec![build_cal_plain(spec)?];
    if has_settlement || crate::util::hash_str(&spec.describe().to_string()) % 4 == 0 {
        v.push(AnyCal::Wrapped(match build_cal_plain(spec)? {
            AnyCal::Cal(c) => CalType::Cal(c),
            AnyCal::Union(c) => CalType::UnionCal(c),
            AnyCal::Named(c) => CalType::NamedCal(c),
            AnyCal::Wrapped(c) => c,
        }));
    }
    Some(v)
}

pub fn build_cal_plain(spec: &CalSpec) -> Option<AnyCal> {
    match spec {
        CalSpec::Builtin(_) | CalSpec::Custom { .. } => simple_cal(spec).map(AnyCal::Cal),
        CalSpec::Named(n) => NamedCal::try_new(n).ok().map(AnyCal::Named),
        CalSpec::Union { members, settle } => {
            let ms: Option<Vec<Cal>> = members.iter().map(simple_cal).collect();
            let ss: Option<Option<Vec<Cal>>> = match settle {
                None => Some(None),
                Some(v) => v.iter().map(simple_cal).collect::<Option<Vec<Cal>>>().map(Some),
            };
            Some(AnyCal::Union(UnionCal::new(ms?, ss?)))
        }
    }
}

/// A random week mask leaving at least one working day; weighted towards realistic ones.
pub fn gen_week_mask(r: &mut Rng) -> Vec<u8> {
    match r.below(10) {
        0..=3 => vec![5, 6],
        4 => vec![4, 5],
        5 => vec![6],
        6 => vec![],
        _ => {
            let k = r.usize(7); // 0..6 excluded days
            let mut days: Vec<u8> = (0..7).collect();
            r.shuffle(&mut days);
            let mut m: Vec<u8> = days.into_iter().take(k).collect();
            m.sort();
            m
        }
    }
}

/// Hostile holiday sets inside [z0, z1]: closures chained across month and year ends, holidays
/// on the last / first business days of adjacent months, multi-week closures (<= max_run days).
pub fn gen_holidays(r: &mut Rng, z0: i64, z1: i64, max_run: i64) -> Vec<i64> {
    let mut hs: Vec<i64> = vec![];
    let span = z1 - z0 + 1;
    // scattered single holidays
    let n_single = r.below((span / 20).max(2) as u64) as i64;
    for _ in 0..n_single {
        hs.push(z0 + r.below(span as u64) as i64);
    }
    // closures around month ends
    let n_runs = 2 + r.below((span / 200).max(1) as u64 + 3) as i64;
    for _ in 0..n_runs {
        let anchor = z0 + r.below(span as u64) as i64;
        let (y, m, _) = civil_from_days(anchor);
        let eom = days_from_civil(y, m, days_in_month(y, m));
        let len = 1 + r.below(max_run as u64) as i64;
        let start = match r.below(4) {
            0 => eom - len + 1,          // closure ending exactly at month end
            1 => eom + 1,                // closure starting on the first of next month
            2 => eom - r.below(len as u64) as i64, // straddling the month end
            _ => anchor,
        };
        for d in start..start + len {
            if d >= z0 && d <= z1 {
                hs.push(d);
            }
        }
    }
    hs.sort();
    hs.dedup();
    // a holiday SET is handed over as a list: chronological, shuffled, descending, or with repeats
    match r.below(10) {
        0..=3 => {}
        4..=6 => r.shuffle(&mut hs),
        7 => hs.reverse(),
        _ => {
            let extra: Vec<i64> = (0..1 + hs.len() / 10).filter_map(|_| if hs.is_empty() { None } else { Some(hs[r.usize(hs.len())]) }).collect();
            hs.extend(extra);
            r.shuffle(&mut hs);
        }
    }
    hs
}

pub fn gen_custom(r: &mut Rng, z0: i64, z1: i64) -> CalSpec {
    let week_mask = gen_week_mask(r);
    // keep total closure length bounded: with few working days per week long holiday runs would
    // make searches long but still finite; cap the run length at 45 days as in DESIGN.
    let max_run = if week_mask.len() >= 5 { 10 } else { 45 };
    CalSpec::Custom { week_mask, holidays: gen_holidays(r, z0, z1, max_run) }
}

pub fn gen_builtin(r: &mut Rng) -> CalSpec {
    CalSpec::Builtin(BUILTIN[r.usize(BUILTIN.len())].to_string())
}

pub fn gen_named_string(r: &mut Rng) -> String {
    let n1 = 1 + r.usize(3);
    let mut s = String::new();
    for i in 0..n1 {
        if i > 0 {
            s.push(',');
        }
        s.push_str(BUILTIN[r.usize(BUILTIN.len())]);
    }
    if r.chance(0.5) {
        s.push('|');
        let n2 = 1 + r.usize(2);
        for i in 0..n2 {
            if i > 0 {
                s.push(',');
            }
            s.push_str(BUILTIN[r.usize(BUILTIN.len())]);
        }
    }
    s
}

/// A random calendar of any kind whose custom parts live in [z0, z1]. Unions keep at least one
/// weekday (`w`, Mon-Fri) that is a working day in every member and settlement calendar, so that
/// the effective calendar "leaves at least one working weekday" as the properties require.
pub fn gen_calspec(r: &mut Rng, z0: i64, z1: i64) -> CalSpec {
    match r.below(10) {
        0 => gen_builtin(r),
        1 | 2 => CalSpec::Named(gen_named_string(r)),
        3..=5 => gen_custom(r, z0, z1),
        _ => gen_union(r, z0, z1),
    }
}

fn keep_working(spec: CalSpec, w: u8) -> CalSpec {
    match spec {
        CalSpec::Custom { mut week_mask, holidays } => {
            week_mask.retain(|d| *d != w);
            CalSpec::Custom { week_mask, holidays }
        }
        other => other,
    }
}

pub fn gen_union(r: &mut Rng, z0: i64, z1: i64) -> CalSpec {
    let w = r.below(5) as u8;
    let nm = 1 + r.usize(3);
    let mut members = vec![];
    for _ in 0..nm {
        let m = if r.chance(0.7) { gen_custom(r, z0, z1) } else { gen_builtin(r) };
        members.push(keep_working(m, w));
    }
    let settle = if r.chance(0.7) {
        let ns = 1 + r.usize(2);
        let mut v = vec![];
        for _ in 0..ns {
            let m = if r.chance(0.7) { gen_custom(r, z0, z1) } else { gen_builtin(r) };
            v.push(keep_working(m, w));
        }
        Some(v)
    } else {
        None
    };
    CalSpec::Union { members, settle }
}

/// run a generic closure-like body on whichever concrete calendar type was built
#[macro_export]
macro_rules! with_cal {
    ($any:expr, $c:ident => $body:expr) => {
        match $any {
            $crate::calmodel::AnyCal::Cal($c) => $body,
            $crate::calmodel::AnyCal::Union($c) => $body,
            $crate::calmodel::AnyCal::Named($c) => $body,
            $crate::calmodel::AnyCal::Wrapped($c) => $body,
        }
    };
}

// ------------------------------------------------------------------ the Python-facing calendar methods

/// What Python calls on a calendar object (`roll_py`, `add_bus_days_py`, ... reached through the verif hooks).
/// `None` where a kind has no Python class of its own (the CalType container).
pub trait PyCalLayer {
    fn py_roll(&self, _d: NaiveDateTime, _m: rateslib::calendars::Modifier, _s: bool) -> Option<Result<NaiveDateTime, ()>> {
        None
    }
    fn py_add_bus_days(&self, _d: NaiveDateTime, _n: i8, _s: bool) -> Option<Result<NaiveDateTime, ()>> {
        None
    }
    fn py_add_days(&self, _d: NaiveDateTime, _n: i8, _m: rateslib::calendars::Modifier, _s: bool) -> Option<Result<NaiveDateTime, ()>> {
        None
    }
    fn py_add_months(&self, _d: NaiveDateTime, _n: i32, _m: rateslib::calendars::Modifier, _r: rateslib::calendars::RollDay, _s: bool) -> Option<Result<NaiveDateTime, ()>> {
        None
    }
    fn py_lag(&self, _d: NaiveDateTime, _n: i8, _s: bool) -> Option<NaiveDateTime> {
        None
    }
    fn py_predicates(&self, _d: NaiveDateTime) -> Option<(bool, bool, bool)> {
        None
    }
    fn py_bus_date_range(&self, _a: NaiveDateTime, _b: NaiveDateTime) -> Option<Result<Vec<NaiveDateTime>, ()>> {
        None
    }
    fn py_cal_date_range(&self, _a: NaiveDateTime, _b: NaiveDateTime) -> Option<Result<Vec<NaiveDateTime>, ()>> {
        None
    }
}

macro_rules! py_cal_layer {
    ($t:ty) => {
        impl PyCalLayer for $t {
            fn py_roll(&self, d: NaiveDateTime, m: rateslib::calendars::Modifier, s: bool) -> Option<Result<NaiveDateTime, ()>> {
                Some(self.verif_py_roll(d, m, s))
            }
            fn py_add_bus_days(&self, d: NaiveDateTime, n: i8, s: bool) -> Option<Result<NaiveDateTime, ()>> {
                Some(self.verif_py_add_bus_days(d, n, s))
            }
            fn py_add_days(&self, d: NaiveDateTime, n: i8, m: rateslib::calendars::Modifier, s: bool) -> Option<Result<NaiveDateTime, ()>> {
                Some(self.verif_py_add_days(d, n, m, s))
            }
            fn py_add_months(&self, d: NaiveDateTime, n: i32, m: rateslib::calendars::Modifier, r: rateslib::calendars::RollDay, s: bool) -> Option<Result<NaiveDateTime, ()>> {
                Some(self.verif_py_add_months(d, n, m, r, s))
            }
            fn py_lag(&self, d: NaiveDateTime, n: i8, s: bool) -> Option<NaiveDateTime> {
                Some(self.verif_py_lag(d, n, s))
            }
            fn py_predicates(&self, d: NaiveDateTime) -> Option<(bool, bool, bool)> {
                Some((self.verif_py_is_bus_day(d), self.verif_py_is_non_bus_day(d), self.verif_py_is_settlement(d)))
            }
            fn py_bus_date_range(&self, a: NaiveDateTime, b: NaiveDateTime) -> Option<Result<Vec<NaiveDateTime>, ()>> {
                Some(self.verif_py_bus_date_range(a, b))
            }
            fn py_cal_date_range(&self, a: NaiveDateTime, b: NaiveDateTime) -> Option<Result<Vec<NaiveDateTime>, ()>> {
                Some(self.verif_py_cal_date_range(a, b))
            }
        }
    };
}
py_cal_layer!(Cal);
py_cal_layer!(UnionCal);
py_cal_layer!(NamedCal);
impl PyCalLayer for rateslib::calendars::CalType {}
