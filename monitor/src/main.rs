//! rvmon - runtime monitors for the 20 rateslib properties (see ../../DESIGN.md).
//!
//! usage: rvmon <Cxx> <quick|thorough>            supervisor: run the property's monitor
//!        rvmon <Cxx> --replay FILE               re-execute one recorded case and print both sides
//!        rvmon <Cxx> <tier> --worker I N RUNID   (internal) worker process
//!        rvmon selftest                          oracle self-tests

mod calmodel;
mod polyspline;
mod props;
mod refad;
mod rng;
mod rules;
mod sup;
mod util;

use sup::Tier;

fn main() {
    let args: Vec<String> = std::env::args().skip(1).collect();
    if args.is_empty() {
        eprintln!("usage: rvmon <Cxx> <quick|thorough> [--replay FILE]");
        std::process::exit(2);
    }
    // Formatting a PyErr (which rateslib does on its own panic paths) needs a live interpreter,
    // exactly as in production where the caller always holds the GIL.
    pyo3::prepare_freethreaded_python();

    if args[0] == "selftest" {
        std::process::exit(props::selftest());
    }
    let id = args[0].to_uppercase();
    let seed = sup::parse_seed();
    let mut tier = match std::env::var("VERIF_TIER").ok().as_deref() {
        Some("thorough") => Tier::Thorough,
        _ => Tier::Quick,
    };
    let mut replay: Option<String> = None;
    let mut worker: Option<(usize, usize, String)> = None;
    let mut i = 1;
    while i < args.len() {
        match args[i].as_str() {
            "quick" => tier = Tier::Quick,
            "thorough" => tier = Tier::Thorough,
            "--replay" => {
                i += 1;
                replay = args.get(i).cloned();
            }
            "--worker" => {
                let w = args.get(i + 1).and_then(|s| s.parse().ok());
                let n = args.get(i + 2).and_then(|s| s.parse().ok());
                let r = args.get(i + 3).cloned();
                match (w, n, r) {
                    (Some(w), Some(n), Some(r)) => worker = Some((w, n, r)),
                    _ => {
                        eprintln!("bad --worker arguments");
                        std::process::exit(2);
                    }
                }
                i += 3;
            }
            other => {
                eprintln!("unknown argument {}", other);
                std::process::exit(2);
            }
        }
        i += 1;
    }
    let mut prop = match props::make(&id) {
        Some(p) => p,
        None => {
            println!("INCONCLUSIVE property={} reason=no monitor registered for this id", id);
            std::process::exit(2);
        }
    };
    if let Some(file) = replay {
        std::process::exit(sup::replay_main(prop.as_mut(), &file));
    }
    if let Some((w, n, runid)) = worker {
        std::process::exit(sup::worker_main(prop.as_mut(), tier, seed, w, n, &runid));
    }
    let tier_name = tier.name().to_string();
    let idc = id.clone();
    let make_args = move |w: usize, n: usize, runid: &str| -> Vec<String> {
        vec![idc.clone(), tier_name.clone(), "--worker".into(), w.to_string(), n.to_string(), runid.to_string()]
    };
    let out = sup::supervisor_main(prop.as_mut(), tier, seed, &make_args);
    std::process::exit(out.exit);
}
