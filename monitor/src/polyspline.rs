pub fn selftest() -> Result<(), String> { Ok(()) }
