//! R-POLY: piecewise-polynomial B-spline oracle.
//!
//! For the knot span containing x (right-continuous; the last non-empty span, i.e. "from the
//! left", at the right end point) the polynomial coefficients of B_{i,k} in the local variable
//! u = x - t_j are built by running the Cox-de Boor recursion on coefficient vectors. Derivatives
//! are polynomial derivatives, evaluation is Horner's rule, and a Horner evaluation on absolute
//! values gives the tolerance scale. No derivative recursion and no right-end special case: a
//! different algorithm from bsplev_single_f64 / bspldnev_single_f64.

/// index j of the span [t_j, t_{j+1}) used for x; None if x is outside [t_0, t_last]
pub fn span_for(t: &[f64], x: f64) -> Option<usize> {
    let last = t.len() - 1;
    if x < t[0] || x > t[last] {
        return None;
    }
    if x == t[last] {
        // from the left: last span of positive length
        let mut j = last;
        while j > 0 {
            j -= 1;
            if t[j] < t[j + 1] {
                return Some(j);
            }
        }
        return None;
    }
    // right-continuous: the span with t_j <= x < t_{j+1}
    let mut j = 0;
    for s in 0..last {
        if t[s] <= x && x < t[s + 1] {
            j = s;
            break;
        }
    }
    Some(j)
}

/// coefficients (in u = x - t_j, ascending powers) of B_{i,k} restricted to span j, together with
/// the same recursion run on absolute values (a bound on the magnitude of the terms that were
/// summed into each coefficient - cancellation happens already while the coefficients are built)
pub fn basis_poly(t: &[f64], i: usize, k: usize, j: usize) -> (Vec<f64>, Vec<f64>) {
    if k == 1 {
        return if i == j { (vec![1.0], vec![1.0]) } else { (vec![0.0], vec![0.0]) };
    }
    let mut out = vec![0.0; k];
    let mut mag = vec![0.0; k];
    let d1 = t[i + k - 1] - t[i];
    if d1 != 0.0 {
        // (x - t_i)/d1 = ((t_j - t_i) + u)/d1
        let (p, pm) = basis_poly(t, i, k - 1, j);
        let c0 = (t[j] - t[i]) / d1;
        let c1 = 1.0 / d1;
        for (n, a) in p.iter().enumerate() {
            out[n] += c0 * a;
            out[n + 1] += c1 * a;
        }
        for (n, a) in pm.iter().enumerate() {
            mag[n] += c0.abs() * a;
            mag[n + 1] += c1.abs() * a;
        }
    }
    let d2 = t[i + k] - t[i + 1];
    if d2 != 0.0 {
        // (t_{i+k} - x)/d2 = ((t_{i+k} - t_j) - u)/d2
        let (p, pm) = basis_poly(t, i + 1, k - 1, j);
        let c0 = (t[i + k] - t[j]) / d2;
        let c1 = -1.0 / d2;
        for (n, a) in p.iter().enumerate() {
            out[n] += c0 * a;
            out[n + 1] += c1 * a;
        }
        for (n, a) in pm.iter().enumerate() {
            mag[n] += c0.abs() * a;
            mag[n + 1] += c1.abs() * a;
        }
    }
    (out, mag)
}

fn differentiate(p: &[f64], m: usize) -> Vec<f64> {
    let mut q: Vec<f64> = p.to_vec();
    for _ in 0..m {
        if q.len() <= 1 {
            return vec![0.0];
        }
        q = q.iter().enumerate().skip(1).map(|(n, a)| n as f64 * a).collect();
    }
    q
}

fn horner(p: &[f64], u: f64) -> (f64, f64) {
    let mut v = 0.0;
    let mut b = 0.0;
    for a in p.iter().rev() {
        v = v * u + a;
        b = b * u.abs() + a.abs();
    }
    (v, b)
}

/// m-th derivative of B_{i,k} at x (from the right; from the left at the right end point) and the
/// magnitude bound of its Horner evaluation. Outside [t_0, t_last] the value is 0.
pub fn basis_deriv(t: &[f64], i: usize, k: usize, m: usize, x: f64) -> (f64, f64) {
    if m >= k {
        return (0.0, 0.0);
    }
    let j = match span_for(t, x) {
        Some(j) => j,
        None => return (0.0, 0.0),
    };
    // B_{i,k} lives on spans i..i+k-1 only
    if j < i || j > i + k - 1 {
        return (0.0, 0.0);
    }
    let (p, pm) = basis_poly(t, i, k, j);
    let q = differentiate(&p, m);
    let qm = differentiate(&pm, m);
    let (v, _) = horner(&q, x - t[j]);
    let (_, b) = horner(&qm, x - t[j]);
    (v, b)
}

pub fn selftest() -> Result<(), String> {
    // cubic (k=4) on [0,1,2,3,4] uniform: the cardinal B-spline
    let t: Vec<f64> = vec![0.0, 1.0, 2.0, 3.0, 4.0];
    let chk = |x: f64, m: usize, want: f64| -> Result<(), String> {
        let (v, _) = basis_deriv(&t, 0, 4, m, x);
        if (v - want).abs() > 1e-14 {
            return Err(format!("polyspline selftest: B04^({})({}) = {} != {}", m, x, v, want));
        }
        Ok(())
    };
    chk(0.5, 0, 0.125 / 6.0)?;
    chk(1.0, 0, 1.0 / 6.0)?;
    chk(2.0, 0, 4.0 / 6.0)?;
    chk(1.5, 0, 23.0 / 48.0)?;
    chk(2.0, 1, 0.0)?;
    chk(1.0, 1, 0.5)?;
    chk(1.0, 2, 1.0)?;
    chk(2.0, 2, -2.0)?;
    chk(0.5, 3, 1.0)?;
    chk(1.5, 3, -3.0)?;
    chk(2.5, 4, 0.0)?;
    // at the right end point the value is taken from the left
    let (v, _) = basis_deriv(&t, 0, 4, 1, 4.0);
    if (v - 0.0).abs() > 1e-14 {
        return Err("polyspline selftest: left derivative at the end".into());
    }
    let (v, _) = basis_deriv(&t, 0, 4, 3, 4.0);
    if (v + 1.0).abs() > 1e-14 {
        return Err(format!("polyspline selftest: left third derivative at the end {}", v));
    }
    // clamped knots: partition of unity at many points incl. knots and the right end
    let t2: Vec<f64> = vec![0.0, 0.0, 0.0, 0.0, 0.3, 1.0, 1.0, 2.5, 4.0, 4.0, 4.0, 4.0];
    let n = t2.len() - 4;
    for x in [0.0, 0.1, 0.3, 0.7, 1.0, 1.00001, 2.5, 3.9999, 4.0] {
        let s: f64 = (0..n).map(|i| basis_deriv(&t2, i, 4, 0, x).0).sum();
        if (s - 1.0).abs() > 1e-13 {
            return Err(format!("polyspline selftest: partition of unity at {} = {}", x, s));
        }
        let d: f64 = (0..n).map(|i| basis_deriv(&t2, i, 4, 1, x).0).sum();
        if d.abs() > 1e-11 {
            return Err(format!("polyspline selftest: sum of derivatives at {} = {}", x, d));
        }
    }
    // last basis function is 1 at the right end, first is 1 at the left end
    if (basis_deriv(&t2, n - 1, 4, 0, 4.0).0 - 1.0).abs() > 1e-14 || (basis_deriv(&t2, 0, 4, 0, 0.0).0 - 1.0).abs() > 1e-14 {
        return Err("polyspline selftest: end values".into());
    }
    Ok(())
}
