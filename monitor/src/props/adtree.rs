//! Expression-tree workload shared by C01 (Dual) and C02 (Dual2): random and class-forcing trees
//! over every operator form, evaluated on the real types and on R-AD, compared node by node.

use crate::refad::{within, Banded, Noise, RNum};
use crate::rng::Rng;
use crate::sup::Ctx;
use crate::util::{fj, fjv, hash_u64s};
use num_traits::{Pow, Signed};
use rateslib::dual::{Dual, Dual2, Gradient1, Gradient2, MathFuncs, Vars, VarsRelationship};
use serde_json::{json, Value};

#[derive(Clone, Copy, Debug, PartialEq, Eq)]
pub enum Op2 {
    Add,
    Sub,
    Mul,
    Div,
}

impl Op2 {
    pub fn name(&self) -> &'static str {
        match self {
            Op2::Add => "add",
            Op2::Sub => "sub",
            Op2::Mul => "mul",
            Op2::Div => "div",
        }
    }
    pub fn sym(&self) -> &'static str {
        match self {
            Op2::Add => "+",
            Op2::Sub => "-",
            Op2::Mul => "*",
            Op2::Div => "/",
        }
    }
    pub const ALL: [Op2; 4] = [Op2::Add, Op2::Sub, Op2::Mul, Op2::Div];
}

#[derive(Clone, Debug)]
pub enum E {
    Leaf(usize),
    /// ownership code: 0 (own,own) 1 (&,own) 2 (own,&) 3 (&,&)
    DD(Op2, Box<E>, Box<E>, u8),
    DF(Op2, Box<E>, f64, u8),
    FD(Op2, f64, Box<E>, u8),
    Neg(Box<E>, bool),
    Pow(Box<E>, f64, bool),
    Exp(Box<E>),
    Log(Box<E>),
    NormCdf(Box<E>),
    InvNormCdf(Box<E>),
    Abs(Box<E>),
    Sum(Vec<E>),
}

#[derive(Clone, Debug)]
pub struct LeafSpec {
    pub v: f64,
    pub names: Vec<String>,
    pub g: Vec<f64>,
    /// full symmetric second partials (Dual2 leaves only)
    pub h: Option<Vec<Vec<f64>>>,
    /// build with `new_from(&leaves[k], ..)` so that the Arc is shared (names must be a subset of that leaf's)
    pub share_with: Option<usize>,
}

pub fn show(e: &E) -> String {
    let own = |c: u8, a: String, b: String, s: &str| {
        let l = if c & 1 == 1 { format!("&{}", a) } else { a };
        let r = if c & 2 == 2 { format!("&{}", b) } else { b };
        format!("({} {} {})", l, s, r)
    };
    match e {
        E::Leaf(i) => format!("L{}", i),
        E::DD(op, a, b, c) => own(*c, show(a), show(b), op.sym()),
        E::DF(op, a, f, c) => own(*c, show(a), format!("{:?}f", f), op.sym()),
        E::FD(op, f, b, c) => own(*c, format!("{:?}f", f), show(b), op.sym()),
        E::Neg(a, o) => format!("-{}{}", if *o { "" } else { "&" }, show(a)),
        E::Pow(a, p, o) => format!("pow({}{}, {:?})", if *o { "" } else { "&" }, show(a), p),
        E::Exp(a) => format!("exp({})", show(a)),
        E::Log(a) => format!("log({})", show(a)),
        E::NormCdf(a) => format!("norm_cdf({})", show(a)),
        E::InvNormCdf(a) => format!("inv_norm_cdf({})", show(a)),
        E::Abs(a) => format!("abs({})", show(a)),
        E::Sum(v) => format!("sum[{}]", v.iter().map(show).collect::<Vec<_>>().join(", ")),
    }
}

pub fn shape_hash(e: &E) -> u64 {
    match e {
        E::Leaf(i) => hash_u64s(&[1, *i as u64]),
        E::DD(op, a, b, c) => hash_u64s(&[2, *op as u64, *c as u64, shape_hash(a), shape_hash(b)]),
        E::DF(op, a, _, c) => hash_u64s(&[3, *op as u64, *c as u64, shape_hash(a)]),
        E::FD(op, _, b, c) => hash_u64s(&[4, *op as u64, *c as u64, shape_hash(b)]),
        E::Neg(a, o) => hash_u64s(&[5, *o as u64, shape_hash(a)]),
        E::Pow(a, p, o) => hash_u64s(&[6, *o as u64, if p.fract() == 0.0 { (*p as i64 + 100) as u64 } else { 999 }, shape_hash(a)]),
        E::Exp(a) => hash_u64s(&[7, shape_hash(a)]),
        E::Log(a) => hash_u64s(&[8, shape_hash(a)]),
        E::NormCdf(a) => hash_u64s(&[9, shape_hash(a)]),
        E::InvNormCdf(a) => hash_u64s(&[10, shape_hash(a)]),
        E::Abs(a) => hash_u64s(&[11, shape_hash(a)]),
        E::Sum(v) => {
            let mut x = vec![12u64, v.len() as u64];
            x.extend(v.iter().map(shape_hash));
            hash_u64s(&x)
        }
    }
}

pub fn count_nodes(e: &E) -> usize {
    match e {
        E::Leaf(_) => 1,
        E::DD(_, a, b, _) => 1 + count_nodes(a) + count_nodes(b),
        E::DF(_, a, _, _) | E::FD(_, _, a, _) => 1 + count_nodes(a),
        E::Neg(a, _) | E::Pow(a, _, _) | E::Exp(a) | E::Log(a) | E::NormCdf(a) | E::InvNormCdf(a) | E::Abs(a) => 1 + count_nodes(a),
        E::Sum(v) => 1 + v.iter().map(count_nodes).sum::<usize>(),
    }
}

// ------------------------------------------------------------------ the real number types

pub trait ADNum: Clone + Sized {
    const ORDER: usize;
    fn leaf(spec: &LeafSpec, earlier: &[Self]) -> Result<Self, String>;
    fn constant(c: f64) -> Self;
    fn to_rnum(&self) -> Result<RNum, String>;
    /// second order only: the first stored pair (i, j, D_ij, D_ji) whose two halves disagree
    fn asymmetry(&self) -> Option<(String, String, f64, f64)> {
        None
    }
    fn relationship(a: &Self, b: &Self) -> VarsRelationship;
    /// the public alignment helpers (`Vars::to_union_vars`, `Vars::to_combined_vars`)
    fn union_vars(a: &Self, b: &Self) -> (Self, Self);
    fn combined_vars(a: &Self, b: &Self) -> (Self, Self);
    fn dd(op: Op2, a: Self, b: Self, own: u8) -> Self;
    fn df(op: Op2, a: Self, f: f64, own: u8) -> Self;
    fn fd(op: Op2, f: f64, b: Self, own: u8) -> Self;
    fn neg(a: Self, owned: bool) -> Self;
    fn pow(a: Self, p: f64, owned: bool) -> Self;
    fn exp(a: &Self) -> Self;
    fn log(a: &Self) -> Self;
    fn ncdf(a: &Self) -> Self;
    fn icdf(a: &Self) -> Self;
    fn abs(a: &Self) -> Self;
    fn sum(v: Vec<Self>) -> Self;
    fn real(&self) -> f64;
    fn var_names(&self) -> Vec<String>;
    fn describe(&self) -> Value;
    fn rem(a: &Self, b: &Self) -> Self;
    fn equals(a: &Self, b: &Self) -> bool;
    fn same_arc(a: &Self, b: &Self) -> bool;
}

macro_rules! binop {
    ($op:expr, $a:expr, $b:expr, $own:expr) => {
        match ($op, $own & 3) {
            (Op2::Add, 0) => $a + $b,
            (Op2::Add, 1) => &$a + $b,
            (Op2::Add, 2) => $a + &$b,
            (Op2::Add, _) => &$a + &$b,
            (Op2::Sub, 0) => $a - $b,
            (Op2::Sub, 1) => &$a - $b,
            (Op2::Sub, 2) => $a - &$b,
            (Op2::Sub, _) => &$a - &$b,
            (Op2::Mul, 0) => $a * $b,
            (Op2::Mul, 1) => &$a * $b,
            (Op2::Mul, 2) => $a * &$b,
            (Op2::Mul, _) => &$a * &$b,
            (Op2::Div, 0) => $a / $b,
            (Op2::Div, 1) => &$a / $b,
            (Op2::Div, 2) => $a / &$b,
            (Op2::Div, _) => &$a / &$b,
        }
    };
}

macro_rules! impl_common {
    () => {
        fn relationship(a: &Self, b: &Self) -> VarsRelationship {
            a.vars_cmp(b.vars())
        }
        fn dd(op: Op2, a: Self, b: Self, own: u8) -> Self {
            binop!(op, a, b, own)
        }
        fn df(op: Op2, a: Self, f: f64, own: u8) -> Self {
            binop!(op, a, f, own)
        }
        fn fd(op: Op2, f: f64, b: Self, own: u8) -> Self {
            binop!(op, f, b, own)
        }
        fn neg(a: Self, owned: bool) -> Self {
            if owned {
                -a
            } else {
                -&a
            }
        }
        fn pow(a: Self, p: f64, owned: bool) -> Self {
            if owned {
                a.pow(p)
            } else {
                (&a).pow(p)
            }
        }
        fn exp(a: &Self) -> Self {
            MathFuncs::exp(a)
        }
        fn log(a: &Self) -> Self {
            MathFuncs::log(a)
        }
        fn ncdf(a: &Self) -> Self {
            MathFuncs::norm_cdf(a)
        }
        fn icdf(a: &Self) -> Self {
            MathFuncs::inv_norm_cdf(a)
        }
        fn abs(a: &Self) -> Self {
            Signed::abs(a)
        }
        fn sum(v: Vec<Self>) -> Self {
            v.into_iter().sum()
        }
        fn real(&self) -> f64 {
            self.real()
        }
        fn rem(a: &Self, b: &Self) -> Self {
            a % b
        }
        fn equals(a: &Self, b: &Self) -> bool {
            a == b
        }
        fn same_arc(a: &Self, b: &Self) -> bool {
            a.ptr_eq(b)
        }
        fn union_vars(a: &Self, b: &Self) -> (Self, Self) {
            a.to_union_vars(b, None)
        }
        fn combined_vars(a: &Self, b: &Self) -> (Self, Self) {
            a.to_combined_vars(b)
        }
        fn var_names(&self) -> Vec<String> {
            self.vars().iter().cloned().collect()
        }
    };
}

impl ADNum for Dual {
    const ORDER: usize = 1;
    fn leaf(spec: &LeafSpec, earlier: &[Self]) -> Result<Self, String> {
        match spec.share_with {
            Some(k) => Dual::try_new_from(&earlier[k], spec.v, spec.names.clone(), spec.g.clone()).map_err(|_| "try_new_from returned Err".to_string()),
            None => Dual::try_new(spec.v, spec.names.clone(), spec.g.clone()).map_err(|_| "try_new returned Err".to_string()),
        }
    }
    fn constant(c: f64) -> Self {
        Dual::new(c, vec![])
    }
    fn to_rnum(&self) -> Result<RNum, String> {
        let n = self.vars().len();
        if self.dual().len() != n {
            return Err(format!("shape: {} vars but dual has length {}", n, self.dual().len()));
        }
        let names: Vec<String> = self.vars().iter().cloned().collect();
        let g: Vec<f64> = self.dual().iter().cloned().collect();
        Ok(RNum::from_parts(self.real(), &names, &g, None))
    }
    impl_common!();
    fn describe(&self) -> Value {
        json!({"real": fj(self.real()), "vars": self.var_names(), "dual": fjv(&self.dual().iter().cloned().collect::<Vec<_>>())})
    }
}

impl ADNum for Dual2 {
    const ORDER: usize = 2;
    fn leaf(spec: &LeafSpec, earlier: &[Self]) -> Result<Self, String> {
        // the constructor takes the half-Hessian in row-major order
        let d2: Vec<f64> = match &spec.h {
            Some(h) => h.iter().flat_map(|row| row.iter().map(|x| 0.5 * x)).collect(),
            None => vec![],
        };
        match spec.share_with {
            Some(k) => Dual2::try_new_from(&earlier[k], spec.v, spec.names.clone(), spec.g.clone(), d2).map_err(|_| "try_new_from returned Err".to_string()),
            None => Dual2::try_new(spec.v, spec.names.clone(), spec.g.clone(), d2).map_err(|_| "try_new returned Err".to_string()),
        }
    }
    fn constant(c: f64) -> Self {
        Dual2::new(c, vec![])
    }
    fn to_rnum(&self) -> Result<RNum, String> {
        let n = self.vars().len();
        if self.dual().len() != n {
            return Err(format!("shape: {} vars but dual has length {}", n, self.dual().len()));
        }
        if self.dual2().dim() != (n, n) {
            return Err(format!("shape: {} vars but dual2 is {:?}", n, self.dual2().dim()));
        }
        let names: Vec<String> = self.vars().iter().cloned().collect();
        let g: Vec<f64> = self.dual().iter().cloned().collect();
        // second partial d2f/dxi dxj = D_ij + D_ji for the stored coefficient matrix D
        let mut h = vec![vec![0.0; n]; n];
        for i in 0..n {
            for j in 0..n {
                h[i][j] = self.dual2()[[i, j]] + self.dual2()[[j, i]];
            }
        }
        Ok(RNum::from_parts(self.real(), &names, &g, Some(&h)))
    }
    fn asymmetry(&self) -> Option<(String, String, f64, f64)> {
        let d = self.dual2();
        let (n, m) = d.dim();
        if n != m || n != self.vars().len() {
            return None; // reported as a shape violation by to_rnum
        }
        let big = d.iter().fold(0.0f64, |a, x| if x.is_finite() { a.max(x.abs()) } else { a });
        for i in 0..n {
            for j in (i + 1)..n {
                let (a, b) = (d[[i, j]], d[[j, i]]);
                if a.to_bits() == b.to_bits() || (a.is_nan() && b.is_nan()) {
                    continue;
                }
                // every operator builds the cross term from commutative products, so the halves are
                // expected to agree exactly; allow a few ulps of slack for a differently rounded but correct form
                if !((a - b).abs() <= 1e-13 * (a.abs() + b.abs()) + 1e-15 * big) {
                    return Some((self.vars()[i].clone(), self.vars()[j].clone(), a, b));
                }
            }
        }
        None
    }
    impl_common!();
    fn describe(&self) -> Value {
        json!({"real": fj(self.real()), "vars": self.var_names(), "dual": fjv(&self.dual().iter().cloned().collect::<Vec<_>>()),
               "dual2": fjv(&self.dual2().iter().cloned().collect::<Vec<_>>())})
    }
}

// ------------------------------------------------------------------ evaluation

pub fn leaf_ref(spec: &LeafSpec) -> RNum {
    RNum::from_parts(spec.v, &spec.names, &spec.g, spec.h.as_deref())
}

/// post-order evaluation on R-AD; pushes every node's value to `out`
pub fn eval_ref(e: &E, leaves: &[RNum], nz: &mut Noise, out: &mut Vec<RNum>) -> RNum {
    let bin = |op: Op2, a: &RNum, b: &RNum, nz: &mut Noise| match op {
        Op2::Add => RNum::add(a, b, nz),
        Op2::Sub => RNum::sub(a, b, nz),
        Op2::Mul => RNum::mul(a, b, nz),
        Op2::Div => RNum::div(a, b, nz),
    };
    let r = match e {
        E::Leaf(i) => leaves[*i].clone(),
        E::DD(op, a, b, _) => {
            let x = eval_ref(a, leaves, nz, out);
            let y = eval_ref(b, leaves, nz, out);
            bin(*op, &x, &y, nz)
        }
        E::DF(op, a, f, _) => {
            let x = eval_ref(a, leaves, nz, out);
            bin(*op, &x, &RNum::constant(*f), nz)
        }
        E::FD(op, f, b, _) => {
            let y = eval_ref(b, leaves, nz, out);
            bin(*op, &RNum::constant(*f), &y, nz)
        }
        E::Neg(a, _) => RNum::neg(&eval_ref(a, leaves, nz, out)),
        E::Pow(a, p, _) => RNum::powf(&eval_ref(a, leaves, nz, out), *p, nz),
        E::Exp(a) => RNum::exp(&eval_ref(a, leaves, nz, out), nz),
        E::Log(a) => RNum::ln(&eval_ref(a, leaves, nz, out), nz),
        E::NormCdf(a) => RNum::norm_cdf(&eval_ref(a, leaves, nz, out), nz),
        E::InvNormCdf(a) => RNum::inv_norm_cdf(&eval_ref(a, leaves, nz, out), nz),
        E::Abs(a) => RNum::abs(&eval_ref(a, leaves, nz, out)),
        E::Sum(v) => {
            let mut acc = RNum::constant(0.0);
            for x in v {
                let t = eval_ref(x, leaves, nz, out);
                acc = RNum::add(&acc, &t, nz);
            }
            acc
        }
    };
    out.push(r.clone());
    r
}

pub struct NodeObs<T> {
    pub value: T,
    pub what: String,
    /// for float-operand nodes: the same operation with the float promoted to a variable-free number
    pub promoted: Option<T>,
    pub relationship: Option<VarsRelationship>,
}

/// post-order evaluation on the real type (same traversal order as eval_ref)
pub fn eval_real<T: ADNum>(e: &E, leaves: &[T], out: &mut Vec<NodeObs<T>>) -> T {
    let (r, what, promoted, rel) = match e {
        E::Leaf(i) => (leaves[*i].clone(), format!("leaf{}", i), None, None),
        E::DD(op, a, b, own) => {
            let x = eval_real(a, leaves, out);
            let y = eval_real(b, leaves, out);
            let rel = T::relationship(&x, &y);
            (T::dd(*op, x, y, *own), format!("{}:dd:own{}", op.name(), own), None, Some(rel))
        }
        E::DF(op, a, f, own) => {
            let x = eval_real(a, leaves, out);
            let p = T::dd(*op, x.clone(), T::constant(*f), 3);
            (T::df(*op, x, *f, *own), format!("{}:df:own{}", op.name(), own), Some(p), None)
        }
        E::FD(op, f, b, own) => {
            let y = eval_real(b, leaves, out);
            let p = T::dd(*op, T::constant(*f), y.clone(), 3);
            (T::fd(*op, *f, y, *own), format!("{}:fd:own{}", op.name(), own), Some(p), None)
        }
        E::Neg(a, o) => (T::neg(eval_real(a, leaves, out), *o), format!("neg:{}", if *o { "owned" } else { "ref" }), None, None),
        E::Pow(a, p, o) => {
            let x = eval_real(a, leaves, out);
            let cls = if *p == 0.0 {
                "zero"
            } else if *p == 1.0 {
                "one"
            } else if p.fract() == 0.0 {
                if *p < 0.0 {
                    "negint"
                } else {
                    "posint"
                }
            } else {
                "real"
            };
            let neg_base = x.real() < 0.0;
            let zero_base = x.real() == 0.0;
            (T::pow(x, *p, *o), format!("pow:{}:{}{}", if *o { "owned" } else { "ref" }, cls, if neg_base { ":negbase" } else if zero_base { ":zerobase" } else { "" }), None, None)
        }
        E::Exp(a) => (T::exp(&eval_real(a, leaves, out)), "exp".to_string(), None, None),
        E::Log(a) => (T::log(&eval_real(a, leaves, out)), "log".to_string(), None, None),
        E::NormCdf(a) => (T::ncdf(&eval_real(a, leaves, out)), "norm_cdf".to_string(), None, None),
        E::InvNormCdf(a) => (T::icdf(&eval_real(a, leaves, out)), "inv_norm_cdf".to_string(), None, None),
        E::Abs(a) => {
            let x = eval_real(a, leaves, out);
            let s = match (x.real() < 0.0, x.real() != 0.0 && x.real().abs() < 1e-8) {
                (true, false) => "neg",
                (false, false) => "pos",
                (true, true) => "tiny-neg",
                (false, true) => "tiny-pos",
            };
            (T::abs(&x), format!("abs:{}", s), None, None)
        }
        E::Sum(v) => {
            let xs: Vec<T> = v.iter().map(|x| eval_real(x, leaves, out)).collect();
            let n = xs.len();
            (T::sum(xs), format!("sum:{}", n), None, None)
        }
    };
    out.push(NodeObs { value: r.clone(), what, promoted, relationship: rel });
    r
}

/// the same tree evaluated on the generic `Number` container: leaves are Number::Dual / Number::Dual2, float
/// operands either stay bare floats (`Number op f64`) or are themselves wrapped (`Number op Number::F64`)
pub fn eval_number(e: &E, leaves: &[rateslib::dual::Number], wrap_floats: bool) -> rateslib::dual::Number {
    use rateslib::dual::Number;
    use num_traits::{Pow, Signed};
    let ev = |x: &E| eval_number(x, leaves, wrap_floats);
    match e {
        E::Leaf(i) => leaves[*i].clone(),
        E::DD(op, a, b, own) => {
            let (x, y) = (ev(a), ev(b));
            binop!(*op, x, y, *own)
        }
        E::DF(op, a, f, own) => {
            let x = ev(a);
            if wrap_floats {
                let y = Number::F64(*f);
                binop!(*op, x, y, *own)
            } else {
                let y = *f;
                binop!(*op, x, y, *own)
            }
        }
        E::FD(op, f, b, own) => {
            let y = ev(b);
            if wrap_floats {
                let x = Number::F64(*f);
                binop!(*op, x, y, *own)
            } else {
                let x = *f;
                binop!(*op, x, y, *own)
            }
        }
        E::Neg(a, o) => {
            let x = ev(a);
            if *o { -x } else { -&x }
        }
        E::Pow(a, p, o) => {
            let x = ev(a);
            if *o { x.pow(*p) } else { (&x).pow(*p) }
        }
        E::Exp(a) => MathFuncs::exp(&ev(a)),
        E::Log(a) => MathFuncs::log(&ev(a)),
        E::NormCdf(a) => MathFuncs::norm_cdf(&ev(a)),
        E::InvNormCdf(a) => MathFuncs::inv_norm_cdf(&ev(a)),
        E::Abs(a) => Signed::abs(&ev(a)),
        E::Sum(v) => v.iter().map(|x| ev(x)).sum(),
    }
}

pub fn rel_name(r: &VarsRelationship) -> &'static str {
    match r {
        VarsRelationship::ArcEquivalent => "ArcEquivalent",
        VarsRelationship::ValueEquivalent => "ValueEquivalent",
        VarsRelationship::Superset => "Superset",
        VarsRelationship::Subset => "Subset",
        VarsRelationship::Difference => "Difference",
    }
}

// ------------------------------------------------------------------ generation

pub const POOL: [&str; 6] = ["x", "y", "z", "u", "w", "v_long_name"];

pub struct Gen<'a> {
    pub r: &'a mut Rng,
    pub order: usize,
    pub leaves: Vec<LeafSpec>,
    pub npool: usize,
}

fn mag_ok(v: f64) -> bool {
    // exact zeros are part of the domain (x - x, a zero rate); tiny non-zero values are not generated
    v == 0.0 || (v.is_finite() && v.abs() >= 1e-8 && v.abs() <= 1e8)
}

impl<'a> Gen<'a> {
    pub fn new(r: &'a mut Rng, order: usize) -> Self {
        let npool = 3 + r.usize(4);
        Gen { r, order, leaves: vec![], npool }
    }

    fn coeff(&mut self) -> f64 {
        match self.r.below(8) {
            0 => 1.0,
            1 => 0.0,
            2 => -1.0,
            _ => self.r.real(),
        }
    }

    fn sym_h(&mut self, n: usize) -> Option<Vec<Vec<f64>>> {
        if self.order < 2 || self.r.chance(0.5) {
            return None;
        }
        let mut h = vec![vec![0.0; n]; n];
        for i in 0..n {
            for j in i..n {
                let x = if self.r.chance(0.3) { 0.0 } else { self.r.real() };
                h[i][j] = x;
                h[j][i] = x;
            }
        }
        Some(h)
    }

    pub fn leaf_value(&mut self) -> f64 {
        if self.r.chance(0.03) {
            return 0.0;
        }
        // exact small integers (log 1 = 0, powers of one, sign changes), and magnitudes far from one
        match self.r.below(40) {
            0 | 1 => return [1.0, -1.0, 2.0, -2.0, 3.0, 0.5, -0.5][self.r.usize(7)],
            2 => return self.r.sign() * self.r.log_uniform(1e2, 1e8),
            3 => return self.r.sign() * self.r.log_uniform(1e-10, 1e-2),
            _ => {}
        }
        match self.r.below(6) {
            0 => self.r.uniform(0.01, 0.99), // usable by inv_norm_cdf
            1 => -self.r.log_uniform(1e-2, 1e2),
            _ => self.r.log_uniform(1e-2, 1e2),
        }
    }

    /// a fresh leaf over a random ordered subset of the pool
    pub fn new_leaf(&mut self) -> usize {
        let mut names: Vec<String> = POOL[..self.npool].iter().map(|s| s.to_string()).collect();
        self.r.shuffle(&mut names);
        let k = match self.r.below(10) {
            0 => 0,
            1..=4 => 1,
            5..=7 => 2.min(self.npool),
            _ => 1 + self.r.usize(self.npool),
        };
        names.truncate(k);
        let share = if !self.leaves.is_empty() && self.r.chance(0.25) {
            // share the Arc of an earlier leaf: our names must be a subset of its names
            let k = self.r.usize(self.leaves.len());
            let avail = self.leaves[k].names.clone();
            if avail.is_empty() {
                None
            } else {
                let mut sub = avail.clone();
                self.r.shuffle(&mut sub);
                sub.truncate(1 + self.r.usize(avail.len()));
                names = sub;
                Some(k)
            }
        } else {
            None
        };
        let n = names.len();
        let g: Vec<f64> = (0..n).map(|_| self.coeff()).collect();
        let h = self.sym_h(n);
        let v = self.leaf_value();
        // when sharing, rateslib's new_from re-lays the number out on the other leaf's variable list;
        // an empty `dual` vector would mean "all ones", so keep explicit coefficients
        let g = if n > 0 && g.is_empty() { vec![1.0; n] } else { g };
        self.leaves.push(LeafSpec { v, names, g, h, share_with: share });
        self.leaves.len() - 1
    }

    pub fn leaf_expr(&mut self) -> (E, RNum) {
        let mut i = if !self.leaves.is_empty() && self.r.chance(0.3) { self.r.usize(self.leaves.len()) } else { self.new_leaf() };
        // the tiny leaves made for abs() are not reused elsewhere (products with sub-normals lose all precision)
        if self.leaves[i].v != 0.0 && self.leaves[i].v.abs() < 1e-10 {
            i = self.new_leaf();
        }
        (E::Leaf(i), leaf_ref(&self.leaves[i]))
    }

    fn float_operand(&mut self) -> f64 {
        match self.r.below(6) {
            0 => 1.0,
            1 => 2.0,
            2 => -1.0,
            3 => 0.5,
            _ => self.r.real(),
        }
    }

    /// bottom-up generation with domain control on the exact reference values
    pub fn tree(&mut self, depth: usize, budget: &mut usize) -> (E, RNum) {
        if depth == 0 || *budget <= 1 || self.r.chance(0.15) {
            *budget = budget.saturating_sub(1);
            return self.leaf_expr();
        }
        *budget -= 1;
        let mut nz = Noise::exact();
        for _attempt in 0..12 {
            let kind = self.r.below(20);
            let cand: Option<(E, RNum)> = match kind {
                0..=7 => {
                    let op = Op2::ALL[self.r.usize(4)];
                    let own = self.r.below(4) as u8;
                    match self.r.below(4) {
                        0 => {
                            let (a, ra) = self.tree(depth - 1, budget);
                            let f = self.float_operand();
                            if op == Op2::Div && f.abs() < 1e-3 {
                                None
                            } else {
                                let rr = bin_ref(op, &ra, &RNum::constant(f), &mut nz);
                                Some((E::DF(op, Box::new(a), f, own), rr))
                            }
                        }
                        1 => {
                            let (b, rb) = self.tree(depth - 1, budget);
                            let f = self.float_operand();
                            if op == Op2::Div && rb.v.abs() < 1e-3 {
                                None
                            } else {
                                let rr = bin_ref(op, &RNum::constant(f), &rb, &mut nz);
                                Some((E::FD(op, f, Box::new(b), own), rr))
                            }
                        }
                        _ => {
                            let (a, ra) = self.tree(depth - 1, budget);
                            let (b, rb) = self.tree(depth - 1, budget);
                            if op == Op2::Div && rb.v.abs() < 1e-3 {
                                None
                            } else {
                                let rr = bin_ref(op, &ra, &rb, &mut nz);
                                Some((E::DD(op, Box::new(a), Box::new(b), own), rr))
                            }
                        }
                    }
                }
                8 => {
                    let (a, ra) = self.tree(depth - 1, budget);
                    let o = self.r.bool();
                    Some((E::Neg(Box::new(a), o), RNum::neg(&ra)))
                }
                9..=11 => {
                    let (a, ra) = self.tree(depth - 1, budget);
                    let o = self.r.bool();
                    let p = match self.r.below(8) {
                        0 => self.r.range_i(-3, 4) as f64,
                        1 => 0.0,
                        2 => 1.0,
                        3 => 0.5,
                        4 => -0.5,
                        5 => 2.0,
                        6 => -1.0,
                        _ => self.r.uniform(-2.5, 3.5),
                    };
                    // a base of exactly zero is in the differentiable domain for p >= 1 (first order) and for
                    // p >= 2 or p in {0, 1} (second order)
                    let zero_ok = ra.v == 0.0 && if self.order == 1 { p >= 1.0 || p == 0.0 } else { p >= 2.0 || p == 1.0 || p == 0.0 };
                    let ok = zero_ok || if p.fract() == 0.0 { ra.v.abs() >= 1e-3 } else { ra.v >= 1e-3 };
                    if ok {
                        Some((E::Pow(Box::new(a), p, o), RNum::powf(&ra, p, &mut nz)))
                    } else {
                        None
                    }
                }
                12 | 13 => {
                    let (a, ra) = self.tree(depth - 1, budget);
                    if ra.v <= 30.0 && ra.v >= -18.0 {
                        Some((E::Exp(Box::new(a)), RNum::exp(&ra, &mut nz)))
                    } else {
                        None
                    }
                }
                14 | 15 => {
                    let (a, ra) = self.tree(depth - 1, budget);
                    if ra.v >= 1e-3 {
                        Some((E::Log(Box::new(a)), RNum::ln(&ra, &mut nz)))
                    } else {
                        None
                    }
                }
                16 => {
                    let (a, ra) = self.tree(depth - 1, budget);
                    if ra.v.abs() <= 5.0 {
                        Some((E::NormCdf(Box::new(a)), RNum::norm_cdf(&ra, &mut nz)))
                    } else {
                        None
                    }
                }
                17 => {
                    let (a, ra) = self.tree(depth - 1, budget);
                    if ra.v > 0.001 && ra.v < 0.999 {
                        Some((E::InvNormCdf(Box::new(a)), RNum::inv_norm_cdf(&ra, &mut nz)))
                    } else {
                        None
                    }
                }
                18 => {
                    if self.r.chance(0.2) {
                        // abs of a leaf whose value is tiny but exactly given (around and far below machine epsilon; sub-normal
                        // magnitudes are left to C19's direct check, because later products with them lose all precision): abs is differentiable there, and nothing has been rounded
                        let i = self.new_leaf();
                        self.leaves[i].v = self.r.sign() * [1e-100, 1e-30, 1e-17, 5.551115123125783e-17, 1.1102230246251565e-16, 2.220446049250313e-16, 1e-12, 1e-9][self.r.usize(8)];
                        let ra = leaf_ref(&self.leaves[i]);
                        return (E::Abs(Box::new(E::Leaf(i))), RNum::abs(&ra));
                    }
                    let (a, ra) = self.tree(depth - 1, budget);
                    if ra.v.abs() >= 1e-6 {
                        Some((E::Abs(Box::new(a)), RNum::abs(&ra)))
                    } else {
                        None
                    }
                }
                _ => {
                    let n = self.r.usize(6);
                    let mut es = vec![];
                    let mut acc = RNum::constant(0.0);
                    for _ in 0..n {
                        let (a, ra) = self.tree(depth.saturating_sub(2), budget);
                        acc = RNum::add(&acc, &ra, &mut nz);
                        es.push(a);
                    }
                    if n == 0 {
                        // an empty sum is the zero element; combine it so the tree stays non-trivial
                        let (a, ra) = self.tree(depth - 1, budget);
                        let rr = RNum::add(&ra, &acc, &mut nz);
                        Some((E::DD(Op2::Add, Box::new(a), Box::new(E::Sum(vec![])), 3), rr))
                    } else {
                        Some((E::Sum(es), acc))
                    }
                }
            };
            if let Some((e, rr)) = cand {
                if mag_ok(rr.v) {
                    return (e, rr);
                }
            }
        }
        self.leaf_expr()
    }
}

pub fn bin_ref(op: Op2, a: &RNum, b: &RNum, nz: &mut Noise) -> RNum {
    match op {
        Op2::Add => RNum::add(a, b, nz),
        Op2::Sub => RNum::sub(a, b, nz),
        Op2::Mul => RNum::mul(a, b, nz),
        Op2::Div => RNum::div(a, b, nz),
    }
}

// ------------------------------------------------------------------ class-forcing prefix

/// Two leaves whose variable lists stand in the requested relationship (LHS relative to RHS).
pub fn forced_pair(g: &mut Gen, rel: usize) -> (usize, usize) {
    let mk = |g: &mut Gen, names: Vec<&str>, share: Option<usize>| -> usize {
        let n = names.len();
        let gg: Vec<f64> = (0..n).map(|_| g.r.real()).collect();
        let h = g.sym_h(n);
        let v = g.r.log_uniform(0.5, 20.0) * g.r.sign();
        g.leaves.push(LeafSpec { v, names: names.iter().map(|s| s.to_string()).collect(), g: gg, h, share_with: share });
        g.leaves.len() - 1
    };
    match rel {
        0 => {
            // ArcEquivalent
            let a = mk(g, vec!["x", "y", "z"], None);
            let b = mk(g, vec!["z", "x"], Some(a));
            (a, b)
        }
        1 => {
            let a = mk(g, vec!["x", "y", "z"], None);
            let b = mk(g, vec!["x", "y", "z"], None);
            (a, b)
        }
        2 => {
            // Superset (including the boundary: same set, different order)
            let a = mk(g, vec!["x", "y", "z"], None);
            let b = if g.r.bool() { mk(g, vec!["z", "x"], None) } else { mk(g, vec!["z", "x", "y"], None) };
            (a, b)
        }
        3 => {
            let a = mk(g, vec!["y"], None);
            let b = mk(g, vec!["x", "y", "z"], None);
            (a, b)
        }
        _ => {
            // Difference: partial overlap with equal length, or disjoint
            let a = mk(g, vec!["x", "y"], None);
            let b = if g.r.bool() { mk(g, vec!["y", "z"], None) } else { mk(g, vec!["u", "w"], None) };
            (a, b)
        }
    }
}

pub const N_FORCED: u64 = 4 * (20 + 4 + 4) + 2 + 2 * 7 + 6 + 6 + 8;

/// deterministic enumeration of one small tree per required coverage class
pub fn forced_tree(g: &mut Gen, idx: u64) -> E {
    let mut k = idx;
    let nbin = 4 * 28;
    if k < nbin {
        let op = Op2::ALL[(k / 28) as usize];
        let c = k % 28;
        if c < 20 {
            let rel = (c / 4) as usize;
            let own = (c % 4) as u8;
            let (a, b) = forced_pair(g, rel);
            return E::DD(op, Box::new(E::Leaf(a)), Box::new(E::Leaf(b)), own);
        } else if c < 24 {
            let a = g.new_leaf_nonzero();
            let f = g.r.log_uniform(0.1, 10.0) * g.r.sign();
            return E::DF(op, Box::new(E::Leaf(a)), f, (c - 20) as u8);
        } else {
            let a = g.new_leaf_nonzero();
            let f = g.r.log_uniform(0.1, 10.0) * g.r.sign();
            return E::FD(op, f, Box::new(E::Leaf(a)), (c - 24) as u8);
        }
    }
    k -= nbin;
    if k < 2 {
        let a = g.new_leaf_nonzero();
        return E::Neg(Box::new(E::Leaf(a)), k == 0);
    }
    k -= 2;
    if k < 14 {
        let owned = k % 2 == 0;
        let (p, negbase) = match k / 2 {
            0 => (0.0, false),
            1 => (1.0, false),
            2 => (3.0, false),
            3 => (-2.0, false),
            4 => (g.r.uniform(0.2, 2.7), false),
            5 => (3.0, true),
            _ => (-1.0, true),
        };
        let a = g.new_leaf_signed(if negbase { -1.0 } else { 1.0 });
        return E::Pow(Box::new(E::Leaf(a)), p, owned);
    }
    k -= 14;
    if k < 6 {
        return match k {
            0 => {
                let a = g.new_leaf_signed(1.0);
                E::Exp(Box::new(E::Leaf(a)))
            }
            1 => {
                let a = g.new_leaf_signed(1.0);
                E::Log(Box::new(E::Leaf(a)))
            }
            2 => {
                let a = g.new_leaf_nonzero();
                E::NormCdf(Box::new(E::DF(Op2::Mul, Box::new(E::Leaf(a)), 0.05, 0)))
            }
            3 => {
                let a = g.new_leaf_unit();
                E::InvNormCdf(Box::new(E::Leaf(a)))
            }
            4 => {
                let a = g.new_leaf_signed(1.0);
                E::Abs(Box::new(E::Leaf(a)))
            }
            _ => {
                let a = g.new_leaf_signed(-1.0);
                E::Abs(Box::new(E::Leaf(a)))
            }
        };
    }
    k -= 6;
    if k >= 6 {
        // powers of a base that is exactly zero: a zero-valued leaf, and a difference that cancels
        let j = k - 6;
        let owned = j % 2 == 0;
        let p = [2.0, 1.0, 3.0, 2.0][(j / 2) as usize];
        if j / 2 == 3 {
            let a = g.new_leaf_nonzero();
            let v = g.leaves[a].v;
            let b = g.new_leaf_nonzero();
            g.leaves[b].v = v;
            return E::Pow(Box::new(E::DD(Op2::Sub, Box::new(E::Leaf(a)), Box::new(E::Leaf(b)), 3)), p, owned);
        }
        let a = g.new_leaf_nonzero();
        g.leaves[a].v = 0.0;
        return E::Pow(Box::new(E::Leaf(a)), p, owned);
    }
    // sums of 0..5 terms
    let n = k as usize;
    let mut es = vec![];
    for _ in 0..n {
        let a = g.new_leaf_nonzero();
        es.push(E::Leaf(a));
    }
    if n == 0 {
        let a = g.new_leaf_nonzero();
        return E::DD(Op2::Add, Box::new(E::Leaf(a)), Box::new(E::Sum(vec![])), 0);
    }
    E::Sum(es)
}

impl<'a> Gen<'a> {
    pub fn new_leaf_nonzero(&mut self) -> usize {
        let s = self.r.sign();
        self.new_leaf_signed(s)
    }
    pub fn new_leaf_signed(&mut self, sign: f64) -> usize {
        let i = self.new_leaf();
        self.leaves[i].v = sign * self.r.log_uniform(0.2, 8.0);
        if self.leaves[i].names.is_empty() && self.leaves[i].share_with.is_none() {
            self.leaves[i].names = vec!["x".to_string()];
            self.leaves[i].g = vec![self.r.real()];
            self.leaves[i].h = self.sym_h(1);
        }
        i
    }
    pub fn new_leaf_unit(&mut self) -> usize {
        let i = self.new_leaf_signed(1.0);
        self.leaves[i].v = self.r.uniform(0.02, 0.98);
        i
    }
}

// ------------------------------------------------------------------ the monitor

pub const NOISY_RUNS: u64 = 8;

pub fn describe_case(e: &E, leaves: &[LeafSpec]) -> Value {
    json!({
        "expr": show(e),
        "leaves": leaves.iter().enumerate().map(|(i, l)| json!({
            "id": format!("L{}", i), "real": fj(l.v), "vars": l.names, "dual": fjv(&l.g),
            "second_partials": l.h.as_ref().map(|h| h.iter().map(|r| fjv(r)).collect::<Vec<_>>()),
            "shares_vars_of": l.share_with.map(|k| format!("L{}", k)),
        })).collect::<Vec<_>>(),
    })
}

fn rnum_json(r: &RNum) -> Value {
    json!({"value": fj(r.v), "grad": r.g.iter().map(|(k, v)| (k.clone(), fj(*v))).collect::<serde_json::Map<_, _>>(),
           "hess": r.h.iter().map(|((a, b), v)| (format!("{},{}", a, b), fj(*v))).collect::<serde_json::Map<_, _>>()})
}

/// Run one tree on the real type `T` and on R-AD, compare every node. Returns false if skipped.
pub fn run_tree<T: ADNum>(ctx: &mut Ctx, pid: &str, e: &E, specs: &[LeafSpec], noise_seed: u64) -> bool {
    let second = T::ORDER == 2;
    // reference: exact + noisy runs, node by node
    let leaves_ref: Vec<RNum> = specs.iter().map(leaf_ref).collect();
    let mut exact_nodes = vec![];
    eval_ref(e, &leaves_ref, &mut Noise::exact(), &mut exact_nodes);
    let mut bands: Vec<Banded> = exact_nodes.into_iter().map(Banded::new).collect();
    for s in 0..NOISY_RUNS {
        let mut nodes = vec![];
        eval_ref(e, &leaves_ref, &mut Noise::noisy((crate::rng::mix(noise_seed, s) & !1) | (s & 1)), &mut nodes);
        for (b, n) in bands.iter_mut().zip(nodes.iter()) {
            b.absorb(n);
        }
    }
    // conditioning / domain screening on the reference (not on the code under test)
    for b in bands.iter() {
        if !b.exact.v.is_finite() || b.exact.g.values().any(|x| !x.is_finite()) || (second && b.exact.h.values().any(|x| !x.is_finite())) {
            ctx.skip("reference not finite");
            return false;
        }
        if b.ill_conditioned(second) {
            ctx.skip("ill-conditioned");
            return false;
        }
    }
    // real evaluation
    ctx.crumb(&format!("{} tree {}", pid, show(e)));
    let mut real_leaves: Vec<T> = vec![];
    for s in specs {
        match T::leaf(s, &real_leaves) {
            Ok(l) => real_leaves.push(l),
            Err(m) => {
                ctx.violation(&format!("{}|leaf-constructor|{}", pid, m), json!({"case": describe_case(e, specs), "what": m}));
                return true;
            }
        }
    }
    let mut obs: Vec<NodeObs<T>> = vec![];
    eval_real(e, &real_leaves, &mut obs);
    if obs.len() != bands.len() {
        ctx.harness_error(format!("node count mismatch {} vs {}", obs.len(), bands.len()));
        return false;
    }
    ctx.eval(obs.len() as u64);
    for (o, b) in obs.iter().zip(bands.iter()) {
        ctx.class(&format!("node:{}", o.what));
        if let Some(r) = &o.relationship {
            let opn = o.what.split(':').next().unwrap_or("");
            ctx.class(&format!("rel:{}:{}", opn, rel_name(r)));
        }
        let real = match o.value.to_rnum() {
            Ok(r) => r,
            Err(m) => {
                ctx.violation(&format!("{}|shape|{}", pid, o.what), json!({"case": describe_case(e, specs), "node": o.what, "what": m}));
                return true;
            }
        };
        let scale = b.norm_inf(second);
        // value: plain floating-point evaluation
        ctx.asserted(1);
        if !within(real.v, b.exact.v, b.sv, scale) {
            ctx.violation(
                &format!("{}|value|{}", pid, o.what),
                json!({"case": describe_case(e, specs), "node": o.what, "observed": o.value.describe(), "expected": rnum_json(&b.exact),
                       "component": "value", "spread": b.sv}),
            );
            return true;
        }
        // the result carries exactly the names it can depend on (extra names must have zero derivative)
        let names: std::collections::BTreeSet<String> = real.g.keys().chain(b.exact.g.keys()).cloned().collect();
        for n in names.iter() {
            ctx.asserted(1);
            if !within(real.gd(n), b.exact.gd(n), b.spread_g(n), scale) {
                ctx.violation(
                    &format!("{}|gradient|{}", pid, o.what),
                    json!({"case": describe_case(e, specs), "node": o.what, "variable": n, "observed": o.value.describe(), "expected": rnum_json(&b.exact),
                           "observed_d": fj(real.gd(n)), "expected_d": fj(b.exact.gd(n)), "spread": b.spread_g(n)}),
                );
                return true;
            }
        }
        if second {
            // the Hessian read back per pair is symmetric: the stored halves agree
            ctx.asserted(1);
            if let Some((x, y, a, b2)) = o.value.asymmetry() {
                ctx.violation(
                    &format!("{}|hessian-asymmetric|{}", pid, o.what),
                    json!({"case": describe_case(e, specs), "node": o.what, "pair": [x, y], "observed": o.value.describe(), "stored_ij": fj(a), "stored_ji": fj(b2)}),
                );
                return true;
            }
            let nv: Vec<&String> = names.iter().collect();
            for i in 0..nv.len() {
                for j in i..nv.len() {
                    ctx.asserted(1);
                    let (x, y) = (nv[i].as_str(), nv[j].as_str());
                    if !within(real.hd(x, y), b.exact.hd(x, y), b.spread_h(x, y), scale) {
                        ctx.violation(
                            &format!("{}|hessian|{}", pid, o.what),
                            json!({"case": describe_case(e, specs), "node": o.what, "pair": [x, y], "observed": o.value.describe(), "expected": rnum_json(&b.exact),
                                   "observed_d2": fj(real.hd(x, y)), "expected_d2": fj(b.exact.hd(x, y)), "spread": b.spread_h(x, y)}),
                        );
                        return true;
                    }
                }
            }
        }
        // float operand == float promoted to a variable-free number
        if let Some(p) = &o.promoted {
            ctx.class(&format!("promoted:{}", o.what.rsplitn(2, ':').last().unwrap_or("")));
            match p.to_rnum() {
                Ok(pr) => {
                    ctx.asserted(1);
                    let close = |a: f64, b: f64, sp: f64| within(a, b, sp, scale) || crate::util::close_ulps(a, b, 64, 0.0);
                    let mut bad = !close(real.v, pr.v, b.sv);
                    let all: std::collections::BTreeSet<String> = real.g.keys().chain(pr.g.keys()).cloned().collect();
                    for n in all.iter() {
                        if !close(real.gd(n), pr.gd(n), b.spread_g(n)) {
                            bad = true;
                        }
                        if second {
                            for m in all.iter() {
                                if !close(real.hd(n, m), pr.hd(n, m), b.spread_h(n, m)) {
                                    bad = true;
                                }
                            }
                        }
                    }
                    if bad {
                        ctx.violation(
                            &format!("{}|float-promotion|{}", pid, o.what),
                            json!({"case": describe_case(e, specs), "node": o.what, "with_float_operand": o.value.describe(), "with_promoted_constant": p.describe()}),
                        );
                        return true;
                    }
                }
                Err(m) => {
                    ctx.violation(&format!("{}|shape|promoted:{}", pid, o.what), json!({"case": describe_case(e, specs), "what": m}));
                    return true;
                }
            }
        }
    }
    true
}
