//! C01 - first-order automatic differentiation is exact.

use super::adtree::*;
use crate::rng::Rng;
use crate::sup::{guarded, ph, Caught, Ctx, PhaseSpec, Prop, Tier};
use rateslib::dual::{Dual, Gradient1};
use serde_json::json;

pub struct C01 {}

impl C01 {
    pub fn new() -> Self {
        C01 {}
    }
}

pub fn required_ad_classes() -> Vec<String> {
    let mut v = vec![];
    for op in Op2::ALL {
        for own in 0..4 {
            v.push(format!("node:{}:dd:own{}", op.name(), own));
            v.push(format!("node:{}:df:own{}", op.name(), own));
            v.push(format!("node:{}:fd:own{}", op.name(), own));
        }
        for r in ["ArcEquivalent", "ValueEquivalent", "Superset", "Subset", "Difference"] {
            v.push(format!("rel:{}:{}", op.name(), r));
        }
    }
    for s in [
        "node:neg:owned", "node:neg:ref", "node:exp", "node:log", "node:norm_cdf", "node:inv_norm_cdf", "node:abs:pos", "node:abs:neg", "node:abs:tiny-pos", "node:abs:tiny-neg",
        "node:pow:owned:zero", "node:pow:ref:one", "node:pow:owned:posint", "node:pow:ref:negint", "node:pow:owned:real", "node:pow:owned:posint:negbase", "node:pow:owned:posint:zerobase", "node:pow:ref:one:zerobase",
        "node:sum:0", "node:sum:1", "node:sum:5",
    ] {
        v.push(s.to_string());
    }
    v
}

impl Prop for C01 {
    fn id(&self) -> &'static str {
        "C01"
    }
    fn phases(&self, tier: Tier) -> Vec<PhaseSpec> {
        vec![ph("class-forcing", N_FORCED), ph("random-trees", tier.pick(150_000, 10_000_000)), ph("python-facing operator methods of Dual", tier.pick(20_000, 1_000_000))]
    }
    fn required_classes(&self, _tier: Tier) -> Vec<String> {
        let mut v = required_ad_classes();
        v.push("route:Number-with-bare-floats".to_string());
        v.push("route:Number-with-wrapped-floats".to_string());
        for m in ["__add__", "__radd__", "__sub__", "__rsub__", "__mul__", "__rmul__", "__truediv__", "__rtruediv__", "__pow__", "__neg__", "__abs__", "__exp__", "__log__", "__norm_cdf__", "__norm_inv_cdf__"] {
            v.push(format!("py:Dual:{}", m));
            if !m.starts_with("__pow") && !["__neg__", "__abs__", "__exp__", "__log__", "__norm_cdf__", "__norm_inv_cdf__"].contains(&m) {
                v.push(format!("py:Dual:{}:float-zero", m));
            }
        }
        v.push("py:conversions".to_string());
        v
    }
    fn min_evaluations(&self, tier: Tier) -> u64 {
        tier.pick(200_000, 20_000_000)
    }
    fn rule(&self) -> String {
        "Seeded random expression trees (depth<=7, <=40 nodes; thorough: every tenth tree depth<=11, <=90 nodes) over + - * / (Dual.Dual, Dual.f64, f64.Dual, all four owned/borrowed forms), neg, pow(f64), exp, log, norm_cdf, inv_norm_cdf, abs, Iterator::sum, on multi-variable Dual leaves with arbitrary coefficients, shared / unshared / differently ordered variable lists; plus one forced tree per (operator x form x ownership x VarsRelationship) class. Every node of every tree is compared with reference AD (value, each partial, float-operand promotion). distinct_nontrivial counts distinct tree shapes (operators, forms, ownership, leaf wiring; floats ignored) with at least one operator.".into()
    }
    fn assumptions(&self) -> Vec<String> {
        vec![
            "reference AD (monitor/src/refad.rs) implements the textbook rules on name-keyed maps; self-tested against Richardson finite differences".into(),
            "acceptance band = 16 x the spread of 8 stochastic-rounding runs (delta=2^-36) + 64 eps; cases whose spread exceeds 1e-7 of the result are skipped as ill-conditioned and counted".into(),
            "plain floating-point evaluation of norm_cdf / inv_norm_cdf is statrs' (the same functions rateslib's f64 path uses)".into(),
        ]
    }
    fn finish(&mut self, ctx: &mut Ctx) {
        ctx.extra.insert("max_band_use_of_16".into(), json!(crate::refad::max_band_use()));
    }
    fn run_case(&mut self, ctx: &mut Ctx, phase: usize, idx: u64, rng: &mut Rng) {
        if phase == 2 {
            // what Python calls for `x op y`, `y op x`, comparisons and the unary functions
            super::pylayer::dual_layer(ctx, "C01", rng);
            if idx % 4 == 0 {
                super::pylayer::dual_conversions(ctx, "C01", rng);
            }
            ctx.distinct(crate::util::hash_u64s(&[0x9e, idx]));
            ctx.sample("python-layer", || json!({"methods": ["__add__", "__radd__", "__sub__", "__rsub__", "__mul__", "__rmul__", "__truediv__", "__rtruediv__", "__pow__", "__eq__", "__lt__", "__le__", "__gt__", "__ge__", "__neg__", "__abs__", "__exp__", "__log__", "__norm_cdf__", "__norm_inv_cdf__", "__float__", "to_dual2", "vars_from"], "operand_kinds": ["same kind", "float", "other derivative order (refused)"]}));
            return;
        }
        let noise_seed = rng.next();
        let mut g = Gen::new(rng, 1);
        let e = if phase == 0 {
            forced_tree(&mut g, idx)
        } else {
            // thorough: a tenth of the trees are deeper / larger than the quick tier ever builds
            let deep = ctx.tier == Tier::Thorough && idx % 10 == 0;
            let depth = 1 + g.r.usize(if deep { 11 } else { 7 });
            let mut budget = if deep { 90 } else { 40 };
            g.tree(depth, &mut budget).0
        };
        let specs = g.leaves.clone();
        if count_nodes(&e) < 2 {
            ctx.skip("trivial tree (single leaf)");
            return;
        }
        if !run_tree::<Dual>(ctx, "C01", &e, &specs, noise_seed) {
            return;
        }
        ctx.distinct(shape_hash(&e));
        ctx.sample(if phase == 0 { "forced" } else { "random" }, || describe_case(&e, &specs));
        // the public read-back API on the root: gradient1 with respect to every tagged variable
        let mut leaves: Vec<Dual> = vec![];
        for s in specs.iter() {
            match <Dual as ADNum>::leaf(s, &leaves) {
                Ok(l) => leaves.push(l),
                Err(_) => return,
            }
        }
        let mut obs = vec![];
        let root = eval_real(&e, &leaves, &mut obs);
        // the same formula through the generic Number container, with bare and with container-wrapped float
        // operands: bit for bit the result of the concrete type
        {
            use rateslib::dual::Number;
            let nl: Vec<Number> = leaves.iter().map(|l| Number::Dual(l.clone())).collect();
            for (wrap, label) in [(false, "Number-with-bare-floats"), (true, "Number-with-wrapped-floats")] {
                ctx.eval(1);
                ctx.asserted(1);
                ctx.class(&format!("route:{}", label));
                match guarded(|| eval_number(&e, &nl, wrap)) {
                    Caught::Ok(Number::Dual(d)) => {
                        let same = |a: f64, b: f64| a.to_bits() == b.to_bits() || (a.is_nan() && b.is_nan()) || a == b;
                        let ok = same(d.real(), root.real()) && match (d.to_rnum(), root.to_rnum()) {
                            (Ok(x), Ok(y)) => x.names().union(&y.names()).all(|n| same(x.gd(n), y.gd(n))),
                            _ => false,
                        };
                        if !ok {
                            ctx.violation(&format!("C01|{}-differs", label), json!({"case": describe_case(&e, &specs), "concrete_type_result": root.describe(), "container_result": d.describe()}));
                            return;
                        }
                    }
                    Caught::Ok(other) => {
                        ctx.violation(&format!("C01|{}-wrong-kind", label), json!({"case": describe_case(&e, &specs), "returned_kind": match other { Number::F64(_) => "F64", Number::Dual(_) => "Dual", Number::Dual2(_) => "Dual2" }}));
                        return;
                    }
                    Caught::Panic { loc, msg } => {
                        if crate::sup::is_harness_location(&loc) {
                            ctx.harness_error(format!("{} {}", loc, msg));
                        } else {
                            ctx.violation(&format!("C01|panic|{}|{}", label, crate::sup::short_loc(&loc)), json!({"case": describe_case(&e, &specs), "message": msg}));
                        }
                        return;
                    }
                }
            }
        }
        let names: Vec<String> = POOL.iter().map(|s| s.to_string()).collect();
        let grad = root.gradient1(names.clone());
        ctx.eval(1);
        if let Ok(rr) = root.to_rnum() {
            for (i, n) in names.iter().enumerate() {
                ctx.asserted(1);
                if grad.len() != names.len() || grad[i].to_bits() != rr.gd(n).to_bits() && !(grad[i] == 0.0 && rr.gd(n) == 0.0) {
                    ctx.violation("C01|gradient1-readback", json!({"case": describe_case(&e, &specs), "requested": names, "returned": grad.to_vec(), "stored": root.describe()}));
                    break;
                }
            }
        }
    }
}
