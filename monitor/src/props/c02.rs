//! C02 - second-order automatic differentiation is exact and consistent with first order.

use super::adtree::*;
use super::c01::required_ad_classes;
use crate::rng::Rng;
use crate::sup::{ph, Ctx, PhaseSpec, Prop, Tier};
use crate::util::fj;
use rateslib::dual::{Dual, Dual2, Gradient1, Gradient2, Vars};
use serde_json::json;

pub struct C02 {}

impl C02 {
    pub fn new() -> Self {
        C02 {}
    }
}

impl Prop for C02 {
    fn id(&self) -> &'static str {
        "C02"
    }
    fn phases(&self, tier: Tier) -> Vec<PhaseSpec> {
        vec![ph("class-forcing", N_FORCED), ph("random-trees", tier.pick(80_000, 5_000_000)), ph("python-facing operator methods of Dual2", tier.pick(20_000, 1_000_000))]
    }
    fn required_classes(&self, _tier: Tier) -> Vec<String> {
        let mut v = required_ad_classes();
        for m in ["__add__", "__radd__", "__sub__", "__rsub__", "__mul__", "__rmul__", "__truediv__", "__rtruediv__", "__pow__", "__neg__", "__abs__", "__exp__", "__log__", "__norm_cdf__", "__norm_inv_cdf__"] {
            v.push(format!("py:Dual2:{}", m));
            if !m.starts_with("__pow") && !["__neg__", "__abs__", "__exp__", "__log__", "__norm_cdf__", "__norm_inv_cdf__"].contains(&m) {
                v.push(format!("py:Dual2:{}:float-zero", m));
            }
        }
        for s in ["route:Number-with-bare-floats", "route:Number-with-wrapped-floats", "gradient2:fast-path", "gradient2:lookup-path", "gradient2:absent-name", "gradient2:absent-name-first", "downcast:Dual-from-Dual2", "cross-type:Dual-vs-Dual2", "leaf:nonzero-initial-dual2"] {
            v.push(s.to_string());
        }
        v
    }
    fn min_evaluations(&self, tier: Tier) -> u64 {
        tier.pick(150_000, 10_000_000)
    }
    fn rule(&self) -> String {
        "The C01 tree workload on Dual2 leaves (including leaves with non-zero initial second-order terms). Every node compared with reference AD in value, gradient and full Hessian, and its stored Hessian halves D_ij / D_ji must agree (symmetry); at the root additionally: gradient2 read back for the stored list, permutations, subsets and absent names (both code paths; also an absent name in front of every present one), the gradient1_manifold read-back of the same request agreeing with it entry by entry, symmetry, Dual::from(Dual2) bit-identity, and agreement with the same tree evaluated on Dual. distinct_nontrivial = distinct tree shapes with at least one operator.".into()
    }
    fn assumptions(&self) -> Vec<String> {
        vec![
            "as C01; the true second partial of a stored coefficient matrix D is D_ij + D_ji".into(),
            "Dual/Dual and Dual2/Dual2 legitimately use different formulas, so cross-type agreement is judged with the noise band, down-conversion bit-for-bit".into(),
        ]
    }
    fn finish(&mut self, ctx: &mut Ctx) {
        ctx.extra.insert("max_band_use_of_16".into(), json!(crate::refad::max_band_use()));
    }
    fn run_case(&mut self, ctx: &mut Ctx, phase: usize, idx: u64, rng: &mut Rng) {
        if phase == 2 {
            super::pylayer::dual2_layer(ctx, "C02", rng);
            if idx % 4 == 0 {
                super::pylayer::dual_conversions(ctx, "C02", rng);
            }
            ctx.distinct(crate::util::hash_u64s(&[0x9e, idx]));
            ctx.sample("python-layer", || json!({"methods": "as in C01, on Dual2", "operand_kinds": ["same kind", "float", "other derivative order (refused)"]}));
            return;
        }
        let noise_seed = rng.next();
        let mut g = Gen::new(rng, 2);
        let e = if phase == 0 {
            forced_tree(&mut g, idx)
        } else {
            // thorough: a tenth of the trees are deeper / larger than the quick tier ever builds
            let deep = ctx.tier == Tier::Thorough && idx % 10 == 0;
            let depth = 1 + g.r.usize(if deep { 11 } else { 7 });
            let mut budget = if deep { 90 } else { 40 };
            g.tree(depth, &mut budget).0
        };
        let mut specs = g.leaves.clone();
        if phase == 0 && idx % 3 == 0 {
            // make sure non-zero initial second-order terms are exercised whatever the seed
            if let Some(l) = specs.iter_mut().find(|l| !l.names.is_empty()) {
                let n = l.names.len();
                let mut h = vec![vec![0.0; n]; n];
                for i in 0..n {
                    for j in i..n {
                        let x = 0.5 + (i + 2 * j) as f64 * 0.25;
                        h[i][j] = x;
                        h[j][i] = x;
                    }
                }
                l.h = Some(h);
            }
        }
        if count_nodes(&e) < 2 {
            ctx.skip("trivial tree (single leaf)");
            return;
        }
        if specs.iter().any(|l| l.h.as_ref().map_or(false, |h| h.iter().flatten().any(|x| *x != 0.0))) {
            ctx.class("leaf:nonzero-initial-dual2");
        }
        if !run_tree::<Dual2>(ctx, "C02", &e, &specs, noise_seed) {
            return;
        }
        ctx.distinct(shape_hash(&e));
        ctx.sample(if phase == 0 { "forced" } else { "random" }, || describe_case(&e, &specs));

        // root-level read-back checks
        let mut leaves2: Vec<Dual2> = vec![];
        let mut leaves1: Vec<Dual> = vec![];
        for s in specs.iter() {
            match (<Dual2 as ADNum>::leaf(s, &leaves2), <Dual as ADNum>::leaf(s, &leaves1)) {
                (Ok(a), Ok(b)) => {
                    leaves2.push(a);
                    leaves1.push(b);
                }
                _ => return,
            }
        }
        let mut o2 = vec![];
        let root2 = eval_real(&e, &leaves2, &mut o2);
        let mut o1 = vec![];
        let root1 = eval_real(&e, &leaves1, &mut o1);
        let rr = match root2.to_rnum() {
            Ok(r) => r,
            Err(_) => return,
        };
        // the same formula through the generic Number container (bare and container-wrapped floats)
        {
            use rateslib::dual::Number;
            let nl: Vec<Number> = leaves2.iter().map(|l| Number::Dual2(l.clone())).collect();
            for (wrap, label) in [(false, "Number-with-bare-floats"), (true, "Number-with-wrapped-floats")] {
                ctx.eval(1);
                ctx.asserted(1);
                ctx.class(&format!("route:{}", label));
                match crate::sup::guarded(|| eval_number(&e, &nl, wrap)) {
                    crate::sup::Caught::Ok(Number::Dual2(d)) => {
                        let same = |a: f64, b: f64| a.to_bits() == b.to_bits() || (a.is_nan() && b.is_nan()) || a == b;
                        let ok = same(d.real(), root2.real()) && match d.to_rnum() {
                            Ok(x) => x.names().union(&rr.names()).all(|n| same(x.gd(n), rr.gd(n)) && x.names().union(&rr.names()).all(|m| same(x.hd(n, m), rr.hd(n, m)))),
                            _ => false,
                        };
                        if !ok {
                            ctx.violation(&format!("C02|{}-differs", label), json!({"case": describe_case(&e, &specs), "concrete_type_result": root2.describe(), "container_result": d.describe()}));
                            return;
                        }
                    }
                    crate::sup::Caught::Ok(_) => {
                        ctx.violation(&format!("C02|{}-wrong-kind", label), json!({"case": describe_case(&e, &specs)}));
                        return;
                    }
                    crate::sup::Caught::Panic { loc, msg } => {
                        if crate::sup::is_harness_location(&loc) {
                            ctx.harness_error(format!("{} {}", loc, msg));
                        } else {
                            ctx.violation(&format!("C02|panic|{}|{}", label, crate::sup::short_loc(&loc)), json!({"case": describe_case(&e, &specs), "message": msg}));
                        }
                        return;
                    }
                }
            }
        }
        let stored: Vec<String> = root2.vars().iter().cloned().collect();

        // (a) gradient2 on the stored list (fast path), a permutation / subset / with absent names (lookup path)
        let mut requests: Vec<(&str, Vec<String>)> = vec![("gradient2:fast-path", stored.clone())];
        let mut perm = stored.clone();
        {
            let r = &mut *g.r;
            r.shuffle(&mut perm);
            let mut sub = perm.clone();
            sub.truncate(r.usize(perm.len() + 1));
            let mut with_absent = sub.clone();
            with_absent.insert(r.usize(with_absent.len() + 1), "absent_1".to_string());
            if r.bool() {
                with_absent.push("absent_2".to_string());
            }
            requests.push(("gradient2:lookup-path", perm.clone()));
            requests.push(("gradient2:lookup-path", sub));
            requests.push(("gradient2:absent-name", with_absent));
            // an absent name in front of every present one
            let mut absent_first = vec!["absent_0".to_string()];
            absent_first.extend(perm.iter().cloned());
            requests.push(("gradient2:absent-name-first", absent_first));
        }
        for (cls, req) in requests {
            let m = root2.gradient2(req.clone());
            let g1 = root2.gradient1(req.clone());
            ctx.eval(2);
            ctx.class(cls);
            let mut bad = m.dim() != (req.len(), req.len()) || g1.len() != req.len();
            if !bad {
                for (i, a) in req.iter().enumerate() {
                    if g1[i] != rr.gd(a) {
                        bad = true;
                    }
                    for (j, b) in req.iter().enumerate() {
                        ctx.asserted(1);
                        // exact: reading back is a lookup (times two), no arithmetic that could round differently
                        let want = rr.hd(a, b);
                        let got = m[[i, j]];
                        let sym = m[[j, i]];
                        // `want` is the symmetrised stored entry D_ab + D_ba; the matrix handed back must equal it
                        // in BOTH positions (a symmetric read-back), not merely on average
                        if !crate::util::close_ulps(got, want, 2, 0.0) && !(got.is_nan() && want.is_nan()) {
                            bad = true;
                        }
                        if !crate::util::close_ulps(got, sym, 2, 0.0) && !(got.is_nan() && sym.is_nan()) {
                            bad = true;
                        }
                    }
                }
            }
            // the manifold read-back of the same request tells the same story: element i is the first derivative
            // w.r.t. name i, and its own gradient over the request is row i of the Hessian handed back above
            if !bad {
                let mf = root2.gradient1_manifold(req.clone());
                ctx.eval(1);
                ctx.asserted(1);
                let same = |a: f64, b: f64| a.to_bits() == b.to_bits() || a == b || (a.is_nan() && b.is_nan());
                let mut mbad = mf.len() != req.len();
                if !mbad {
                    for i in 0..req.len() {
                        let row = mf[i].gradient1(req.clone());
                        if !same(mf[i].real(), g1[i]) || row.len() != req.len() || (0..req.len()).any(|j| !same(row[j], m[[i, j]])) {
                            mbad = true;
                        }
                    }
                }
                if mbad {
                    ctx.violation(
                        &format!("C02|manifold-readback-differs-from-gradient2|{}", cls),
                        json!({"case": describe_case(&e, &specs), "requested": req, "stored": root2.describe(),
                               "gradient2": m.iter().map(|x| fj(*x)).collect::<Vec<_>>(),
                               "manifold": mf.iter().map(|d| json!({"real": fj(d.real()), "gradient_over_request": d.gradient1(req.clone()).iter().map(|x| fj(*x)).collect::<Vec<_>>()})).collect::<Vec<_>>()}),
                    );
                    return;
                }
            }
            if bad {
                ctx.violation(
                    &format!("C02|gradient2-readback|{}", cls),
                    json!({"case": describe_case(&e, &specs), "requested": req, "stored": root2.describe(),
                           "returned_gradient2": m.iter().map(|x| fj(*x)).collect::<Vec<_>>(), "returned_gradient1": g1.iter().map(|x| fj(*x)).collect::<Vec<_>>()}),
                );
                return;
            }
        }
        // (b) converting down loses nothing but the Hessian (bit-for-bit)
        let down = Dual::from(root2.clone());
        let down_ref = Dual::from(&root2);
        ctx.eval(2);
        ctx.class("downcast:Dual-from-Dual2");
        for d in [&down, &down_ref] {
            ctx.asserted(1);
            let same_vars = d.vars().iter().eq(root2.vars().iter());
            let same_dual = d.dual().len() == root2.dual().len() && d.dual().iter().zip(root2.dual().iter()).all(|(a, b)| a.to_bits() == b.to_bits());
            if !(same_vars && same_dual && d.real().to_bits() == root2.real().to_bits()) {
                ctx.violation("C02|downcast", json!({"case": describe_case(&e, &specs), "dual2": root2.describe(), "converted": d.describe()}));
                return;
            }
        }
        // (c) the first-order type evaluated on the same tree gives the same value and gradient
        ctx.class("cross-type:Dual-vs-Dual2");
        ctx.eval(1);
        if let Ok(r1) = root1.to_rnum() {
            let names: std::collections::BTreeSet<String> = r1.g.keys().chain(rr.g.keys()).cloned().collect();
            // magnitude of everything the root carries (a gradient that cancels to ~0 is only as exact
            // as the terms it was formed from, whose size the Hessian reflects), with an absolute floor
            let scale = rr.h.values().fold(names.iter().fold(rr.v.abs(), |m, n| m.max(rr.gd(n).abs())), |m, x| m.max(x.abs())).max(1e-6);
            // both were judged against the same reference with the noise band in run_tree; here a coarse direct check
            let mut bad = !crate::util::rel_close(r1.v, rr.v, 1e-9, 1e-12 * scale);
            for n in names.iter() {
                ctx.asserted(1);
                if !crate::util::rel_close(r1.gd(n), rr.gd(n), 1e-7, 1e-9 * scale) {
                    bad = true;
                }
            }
            if bad {
                ctx.violation("C02|cross-type", json!({"case": describe_case(&e, &specs), "dual": root1.describe(), "dual2": root2.describe()}));
            }
        }
    }
}
