//! C03 - derivatives are tracked by variable name, whatever the internal layout.
//!
//! Enumeration (not sampling) of every ordered variable list over a small pool for the left and
//! the right operand, times storage modes (independent Arcs, shared Arc, zero padding), operators
//! + - * / % and ==, on Dual and Dual2.

use super::adtree::{rel_name, ADNum, LeafSpec};
use crate::refad::{within, Banded, Noise, RNum};
use crate::rng::Rng;
use crate::sup::{ph, Ctx, PhaseSpec, Prop, Tier};
use crate::util::{close_ulps, fj, hash_u64s};
use rateslib::dual::{Dual, Dual2};
use serde_json::{json, Value};
use std::collections::BTreeSet;

const NAMES: [&str; 7] = ["a", "b", "c", "d", "e", "pad_p", "pad_q"];

pub struct C03 {
    layouts4: Vec<Vec<usize>>,
    layouts5: Vec<Vec<usize>>,
}

fn ordered_subsets(p: usize) -> Vec<Vec<usize>> {
    // every ordered list of distinct elements of 0..p (including the empty list)
    let mut out: Vec<Vec<usize>> = vec![vec![]];
    let mut frontier: Vec<Vec<usize>> = vec![vec![]];
    for _ in 0..p {
        let mut next = vec![];
        for l in frontier.iter() {
            for x in 0..p {
                if !l.contains(&x) {
                    let mut m = l.clone();
                    m.push(x);
                    next.push(m);
                }
            }
        }
        out.extend(next.iter().cloned());
        frontier = next;
    }
    out
}

impl C03 {
    pub fn new() -> Self {
        C03 { layouts4: ordered_subsets(4), layouts5: ordered_subsets(5) }
    }
    fn layouts(&self, tier: Tier) -> &Vec<Vec<usize>> {
        match tier {
            Tier::Quick => &self.layouts4,
            Tier::Thorough => &self.layouts5,
        }
    }
}

#[derive(Clone, Copy, Debug, PartialEq)]
enum Op {
    Add,
    Sub,
    Mul,
    Div,
    Rem,
}
const OPS: [Op; 5] = [Op::Add, Op::Sub, Op::Mul, Op::Div, Op::Rem];
impl Op {
    fn name(&self) -> &'static str {
        match self {
            Op::Add => "add",
            Op::Sub => "sub",
            Op::Mul => "mul",
            Op::Div => "div",
            Op::Rem => "rem",
        }
    }
}

/// abstract content keyed by name index
#[derive(Clone, Debug)]
struct Content {
    v: f64,
    g: [f64; 7],
    h: [[f64; 7]; 7],
}

fn draw_content(r: &mut Rng, present: &[usize], order: usize) -> Content {
    let mut c = Content { v: r.sign() * r.log_uniform(0.5, 20.0), g: [0.0; 7], h: [[0.0; 7]; 7] };
    for &i in present {
        c.g[i] = if r.chance(0.15) { 0.0 } else { r.real() };
    }
    if order == 2 {
        for (k, &i) in present.iter().enumerate() {
            for &j in present.iter().skip(k) {
                let x = if r.chance(0.3) { 0.0 } else { r.real() };
                c.h[i][j] = x;
                c.h[j][i] = x;
            }
        }
    }
    c
}

fn spec_for(c: &Content, layout: &[usize], order: usize, share: Option<usize>) -> LeafSpec {
    let names: Vec<String> = layout.iter().map(|i| NAMES[*i].to_string()).collect();
    let g: Vec<f64> = layout.iter().map(|i| c.g[*i]).collect();
    let h = if order == 2 { Some(layout.iter().map(|i| layout.iter().map(|j| c.h[*i][*j]).collect()).collect()) } else { None };
    LeafSpec { v: c.v, names, g, h, share_with: share }
}

fn content_ref(c: &Content, order: usize) -> RNum {
    let names: Vec<String> = NAMES.iter().map(|s| s.to_string()).collect();
    let h: Vec<Vec<f64>> = c.h.iter().map(|r| r.to_vec()).collect();
    let mut r = RNum::from_parts(c.v, &names, &c.g, if order == 2 { Some(&h) } else { None });
    // drop structural zeros so that "missing" and "zero" are the same thing in the reference
    r.g.retain(|_, v| *v != 0.0);
    r.h.retain(|_, v| *v != 0.0);
    r
}

fn apply<T: ADNum>(op: Op, a: &T, b: &T) -> T {
    match op {
        Op::Add => T::dd(super::adtree::Op2::Add, a.clone(), b.clone(), 3),
        Op::Sub => T::dd(super::adtree::Op2::Sub, a.clone(), b.clone(), 3),
        Op::Mul => T::dd(super::adtree::Op2::Mul, a.clone(), b.clone(), 3),
        Op::Div => T::dd(super::adtree::Op2::Div, a.clone(), b.clone(), 3),
        Op::Rem => T::rem(a, b),
    }
}

fn apply_ref(op: Op, a: &RNum, b: &RNum, nz: &mut Noise) -> RNum {
    match op {
        Op::Add => RNum::add(a, b, nz),
        Op::Sub => RNum::sub(a, b, nz),
        Op::Mul => RNum::mul(a, b, nz),
        Op::Div => RNum::div(a, b, nz),
        Op::Rem => RNum::rem(a, b, nz),
    }
}

fn maps_close(x: &RNum, y: &RNum, second: bool, ulps: u64) -> bool {
    if !close_ulps(x.v, y.v, ulps, 0.0) {
        return false;
    }
    let names: BTreeSet<String> = x.names().union(&y.names()).cloned().collect();
    for n in names.iter() {
        if !close_ulps(x.gd(n), y.gd(n), ulps, 0.0) {
            return false;
        }
        if second {
            for m in names.iter() {
                if !close_ulps(x.hd(n, m), y.hd(n, m), ulps, 0.0) {
                    return false;
                }
            }
        }
    }
    true
}

fn rjson(r: &RNum) -> Value {
    json!({"value": fj(r.v), "grad": r.g.iter().map(|(k, v)| (k.clone(), fj(*v))).collect::<serde_json::Map<_, _>>(),
           "hess": r.h.iter().map(|((a, b), v)| (format!("{},{}", a, b), fj(*v))).collect::<serde_json::Map<_, _>>()})
}

impl C03 {
    #[allow(clippy::too_many_arguments)]
    fn run_type<T: ADNum>(&self, ctx: &mut Ctx, l: &[usize], r: &[usize], rng: &mut Rng, tname: &str, npool: usize) {
        let order = T::ORDER;
        let second = order == 2;
        let lset: BTreeSet<usize> = l.iter().cloned().collect();
        let rset: BTreeSet<usize> = r.iter().cloned().collect();
        let mut lsorted: Vec<usize> = l.to_vec();
        lsorted.sort();
        let mut rsorted: Vec<usize> = r.to_vec();
        rsorted.sort();
        for draw in 0..3 {
            let ca = draw_content(rng, l, order);
            let cb = draw_content(rng, r, order);
            let ra = content_ref(&ca, order);
            let rb = content_ref(&cb, order);
            // canonical operands: sorted names, independent Arcs
            let can_a = match T::leaf(&spec_for(&ca, &lsorted, order, None), &[]) {
                Ok(x) => x,
                Err(m) => {
                    ctx.violation(&format!("C03|constructor|{}", tname), json!({"what": m}));
                    return;
                }
            };
            let can_b = match T::leaf(&spec_for(&cb, &rsorted, order, None), &[]) {
                Ok(x) => x,
                Err(m) => {
                    ctx.violation(&format!("C03|constructor|{}", tname), json!({"what": m}));
                    return;
                }
            };
            // storage modes
            let mut variants: Vec<(&'static str, T, T)> = vec![];
            let a0 = T::leaf(&spec_for(&ca, l, order, None), &[]).ok();
            let b0 = T::leaf(&spec_for(&cb, r, order, None), &[]).ok();
            let (a0, b0) = match (a0, b0) {
                (Some(a), Some(b)) => (a, b),
                _ => {
                    ctx.violation(&format!("C03|constructor|{}", tname), json!({"what": "try_new returned Err for a valid list"}));
                    return;
                }
            };
            variants.push(("independent", a0.clone(), b0.clone()));
            if rset.is_subset(&lset) {
                // right built on the left's variable list: the Arc is shared
                if let Ok(b) = T::leaf(&spec_for(&cb, r, order, Some(0)), &[a0.clone()]) {
                    variants.push(("shared-arc", a0.clone(), b));
                }
            } else if lset.is_subset(&rset) {
                if let Ok(a) = T::leaf(&spec_for(&ca, l, order, Some(0)), &[b0.clone()]) {
                    variants.push(("shared-arc", a, b0.clone()));
                }
            }
            {
                // zero padding: extra names carried with zero derivative, inserted at random positions
                let mut lp: Vec<usize> = l.to_vec();
                for x in 0..npool {
                    if !lset.contains(&x) && rng.chance(0.6) {
                        let pos = rng.usize(lp.len() + 1);
                        lp.insert(pos, x);
                    }
                }
                let mut rp: Vec<usize> = r.to_vec();
                for x in 0..npool {
                    if !rset.contains(&x) && rng.chance(0.4) {
                        let pos = rng.usize(rp.len() + 1);
                        rp.insert(pos, x);
                    }
                }
                if let (Ok(a), Ok(b)) = (T::leaf(&spec_for(&ca, &lp, order, None), &[]), T::leaf(&spec_for(&cb, &rp, order, None), &[])) {
                    variants.push(("zero-padded", a, b));
                }
            }
            // the public alignment helpers themselves: both results on ONE variable list holding exactly the
            // union of the names, each number unchanged in value and in every derivative by name
            for (mode, a, b) in variants.iter() {
                let rel = T::relationship(a, b);
                for (helper, (x, y)) in [("to_union_vars", T::union_vars(a, b)), ("to_combined_vars", T::combined_vars(a, b))] {
                    ctx.eval(1);
                    ctx.asserted(4);
                    ctx.class(&format!("align:{}:{}:{}", helper, tname, rel_name(&rel)));
                    let want: BTreeSet<String> = a.var_names().into_iter().chain(b.var_names()).collect();
                    let xv = x.var_names();
                    let got: BTreeSet<String> = xv.iter().cloned().collect();
                    let same_list = xv == y.var_names();
                    let unchanged = match (x.to_rnum(), y.to_rnum(), a.to_rnum(), b.to_rnum()) {
                        (Ok(mx), Ok(my), Ok(ma), Ok(mb)) => maps_close(&mx, &ma, second, 0) && maps_close(&my, &mb, second, 0),
                        _ => false,
                    };
                    if !same_list || got != want || got.len() != xv.len() || !unchanged {
                        ctx.violation(
                            &format!("C03|align|{}|{}|{}", helper, tname, rel_name(&rel)),
                            json!({"type": tname, "helper": helper, "mode": mode, "relationship": rel_name(&rel), "lhs": a.describe(), "rhs": b.describe(),
                                   "aligned_lhs": x.describe(), "aligned_rhs": y.describe(), "same_variable_list": same_list, "numbers_unchanged_by_name": unchanged}),
                        );
                    }
                }
            }
            // Iterator::sum is repeated addition: the same name-keyed result whatever the layouts of its items
            {
                let can_sum = apply(Op::Add, &can_a, &can_b);
                if let Ok(can_map) = can_sum.to_rnum() {
                    for (mode, a, b) in variants.iter() {
                        let rel = T::relationship(a, b);
                        for (order_name, items) in [("a,b", vec![a.clone(), b.clone()]), ("b,a", vec![b.clone(), a.clone()])] {
                            let res = T::sum(items);
                            ctx.eval(1);
                            ctx.asserted(2);
                            ctx.class(&format!("sum:{}:{}", tname, rel_name(&rel)));
                            let want: BTreeSet<String> = a.var_names().into_iter().chain(b.var_names()).collect();
                            let rv = res.var_names();
                            let got: BTreeSet<String> = rv.iter().cloned().collect();
                            let ok = match res.to_rnum() {
                                Ok(m) => maps_close(&m, &can_map, second, 4) && got == want && got.len() == rv.len(),
                                Err(_) => false,
                            };
                            if !ok {
                                ctx.violation(
                                    &format!("C03|sum-layout-dependence|{}|{}", tname, rel_name(&rel)),
                                    json!({"type": tname, "mode": mode, "relationship": rel_name(&rel), "items_in_order": order_name, "a": a.describe(), "b": b.describe(), "sum": res.describe(), "canonical a+b": can_sum.describe()}),
                                );
                            }
                        }
                    }
                }
            }
            for op in OPS {
                if op == Op::Rem {
                    let q = ca.v / cb.v;
                    if (q - q.round()).abs() < 1e-6 {
                        ctx.skip("remainder at the jump");
                        continue;
                    }
                }
                // reference with band (first draw only: the layout comparison below is the point)
                let exact = apply_ref(op, &ra, &rb, &mut Noise::exact());
                let mut band = Banded::new(exact.clone());
                if draw == 0 {
                    for s in 0..8 {
                        band.absorb(&apply_ref(op, &ra, &rb, &mut Noise::noisy(rng.next() ^ s)));
                    }
                }
                let can_res = apply(op, &can_a, &can_b);
                ctx.eval(1);
                let can_map = match can_res.to_rnum() {
                    Ok(m) => m,
                    Err(m) => {
                        ctx.violation(&format!("C03|shape|{}|{}|canonical", tname, op.name()), json!({"what": m}));
                        continue;
                    }
                };
                for (mode, a, b) in variants.iter() {
                    let rel = T::relationship(a, b);
                    ctx.class(&format!("rel:{}:{}", op.name(), rel_name(&rel)));
                    ctx.class(&format!("mode:{}:{}", tname, mode));
                    if *mode == "shared-arc" && !T::same_arc(a, b) {
                        ctx.class("shared-arc-not-shared");
                    }
                    let res = apply(op, a, b);
                    ctx.eval(1);
                    let describe = || {
                        json!({"type": tname, "op": op.name(), "mode": mode, "relationship": rel_name(&rel),
                               "lhs": a.describe(), "rhs": b.describe(), "result": res.describe(),
                               "canonical_lhs": can_a.describe(), "canonical_rhs": can_b.describe(), "canonical_result": can_res.describe(),
                               "reference": rjson(&exact)})
                    };
                    let map = match res.to_rnum() {
                        Ok(m) => m,
                        Err(m) => {
                            ctx.violation(&format!("C03|shape|{}|{}|{}", tname, op.name(), rel_name(&rel)), json!({"what": m, "case": describe()}));
                            continue;
                        }
                    };
                    // the result carries exactly the union of the operands' names, each once
                    ctx.asserted(1);
                    let rv = res.var_names();
                    let got: BTreeSet<String> = rv.iter().cloned().collect();
                    let want: BTreeSet<String> = a.var_names().into_iter().chain(b.var_names()).collect();
                    if got != want || got.len() != rv.len() {
                        ctx.violation(&format!("C03|union|{}|{}|{}", tname, op.name(), rel_name(&rel)), json!({"case": describe(), "result_vars": rv, "expected_set": want}));
                        continue;
                    }
                    // layout independence: same scalar operations whatever the position
                    ctx.asserted(1);
                    if !maps_close(&map, &can_map, second, 4) {
                        ctx.violation(&format!("C03|layout-dependence|{}|{}|{}", tname, op.name(), rel_name(&rel)), json!({"case": describe()}));
                        continue;
                    }
                    if draw == 0 {
                        ctx.asserted(1);
                        let scale = band.norm_inf(second);
                        let names: BTreeSet<String> = map.names().union(&exact.names()).cloned().collect();
                        let mut bad = !within(map.v, exact.v, band.sv, scale);
                        for n in names.iter() {
                            if !within(map.gd(n), exact.gd(n), band.spread_g(n), scale) {
                                bad = true;
                            }
                            if second {
                                for m in names.iter() {
                                    if !within(map.hd(n, m), exact.hd(n, m), band.spread_h(n, m), scale) {
                                        bad = true;
                                    }
                                }
                            }
                        }
                        if bad && !band.ill_conditioned(second) {
                            ctx.violation(&format!("C03|value-by-name|{}|{}|{}", tname, op.name(), rel_name(&rel)), json!({"case": describe()}));
                        }
                    }
                }
            }
            // equality: the same content in another layout / with padding / with zeros dropped is equal
            let mut r_sup: Vec<usize> = r.to_vec();
            for x in l {
                if !r_sup.contains(x) {
                    let pos = rng.usize(r_sup.len() + 1);
                    r_sup.insert(pos, *x);
                }
            }
            let nonzero: Vec<usize> = l.iter().cloned().filter(|i| ca.g[*i] != 0.0 || (second && (0..7).any(|j| ca.h[*i][j] != 0.0))).collect();
            let e1 = a0.clone();
            let mut eq_cases: Vec<(&'static str, T, bool)> = vec![];
            if let Ok(x) = T::leaf(&spec_for(&ca, &r_sup, order, None), &[]) {
                eq_cases.push(("same-content-other-layout", x, true));
            }
            if let Ok(x) = T::leaf(&spec_for(&ca, &nonzero, order, None), &[]) {
                eq_cases.push(("zeros-dropped", x, true));
            }
            if let Ok(x) = T::leaf(&spec_for(&ca, l, order, Some(0)), &[e1.clone()]) {
                eq_cases.push(("shared-arc-same-content", x, true));
            }
            if !l.is_empty() {
                let mut c2 = ca.clone();
                let k = l[rng.usize(l.len())];
                c2.g[k] += if c2.g[k] == 0.0 { 1e-9 } else { c2.g[k].abs() * 1e-12 };
                if let Ok(x) = T::leaf(&spec_for(&c2, &r_sup, order, None), &[]) {
                    eq_cases.push(("one-derivative-differs", x, false));
                }
                if second {
                    let mut c3 = ca.clone();
                    let k2 = l[rng.usize(l.len())];
                    c3.h[k][k2] += 1e-9;
                    c3.h[k2][k] = c3.h[k][k2];
                    if let Ok(x) = T::leaf(&spec_for(&c3, &r_sup, order, None), &[]) {
                        eq_cases.push(("one-second-derivative-differs", x, false));
                    }
                }
            }
            {
                let mut c4 = ca.clone();
                c4.v += c4.v.abs() * 1e-12;
                if let Ok(x) = T::leaf(&spec_for(&c4, &r_sup, order, None), &[]) {
                    eq_cases.push(("value-differs", x, false));
                }
            }
            // a name the other side lacks with a NON-zero derivative is a difference
            if let Some(extra) = (0..npool).find(|x| !lset.contains(x)) {
                let mut c5 = ca.clone();
                c5.g[extra] = 0.75;
                let mut lay = r_sup.clone();
                if !lay.contains(&extra) {
                    lay.push(extra);
                }
                if let Ok(x) = T::leaf(&spec_for(&c5, &lay, order, None), &[]) {
                    eq_cases.push(("extra-name-nonzero", x, false));
                }
            }
            // each side carries a zero-derivative name the other lacks (relationship: Difference)
            let mut e1_alt: Option<T> = None;
            {
                let mut la = l.to_vec();
                la.insert(rng.usize(la.len() + 1), 5);
                let mut lb = r_sup.clone();
                lb.insert(rng.usize(lb.len() + 1), 6);
                if let (Ok(x), Ok(y)) = (T::leaf(&spec_for(&ca, &la, order, None), &[]), T::leaf(&spec_for(&ca, &lb, order, None), &[])) {
                    e1_alt = Some(x);
                    eq_cases.push(("disjoint-zero-padding", y, true));
                    let mut c6 = ca.clone();
                    c6.g[6] = -0.5;
                    if let Ok(z) = T::leaf(&spec_for(&c6, &lb, order, None), &[]) {
                        eq_cases.push(("disjoint-padding-nonzero", z, false));
                    }
                }
            }
            // a zero derivative is a zero derivative whatever its sign bit: a slot holding -0.0 (what negation,
            // multiplication by -1 or abs of a negative number leave behind) against +0.0, in the same layout
            // (independent and shared variable lists) and in another layout - equal every time
            if !l.is_empty() {
                let k = l[rng.usize(l.len())];
                let mut cz = ca.clone();
                cz.g[k] = 0.0;
                let mut cn = cz.clone();
                cn.g[k] = -0.0;
                if second && rng.bool() {
                    cz.h[k][k] = 0.0;
                    cn.h[k][k] = -0.0;
                }
                if let Ok(z) = T::leaf(&spec_for(&cz, l, order, None), &[]) {
                    let mut pairs: Vec<(&'static str, T)> = vec![];
                    if let Ok(x) = T::leaf(&spec_for(&cn, l, order, None), &[]) {
                        pairs.push(("negative-zero-derivative:same-layout", x));
                    }
                    if let Ok(x) = T::leaf(&spec_for(&cn, l, order, Some(0)), &[z.clone()]) {
                        pairs.push(("negative-zero-derivative:shared-arc", x));
                    }
                    if let Ok(x) = T::leaf(&spec_for(&cn, &r_sup, order, None), &[]) {
                        pairs.push(("negative-zero-derivative:other-layout", x));
                    }
                    for (what, other) in pairs.iter() {
                        let rel = T::relationship(&z, other);
                        ctx.class(&format!("eq:{}:{}", tname, what));
                        let (got1, got2) = (T::equals(&z, other), T::equals(other, &z));
                        ctx.eval(2);
                        ctx.asserted(2);
                        if !got1 || !got2 {
                            ctx.violation(
                                &format!("C03|eq|{}|{}|{}", tname, what, rel_name(&rel)),
                                json!({"type": tname, "what": what, "lhs": z.describe(), "rhs": other.describe(), "lhs_eq_rhs": got1, "rhs_eq_lhs": got2, "expected": true, "slot_holding_negative_zero": NAMES[k]}),
                            );
                        }
                    }
                }
            }
            for (what, other, want) in eq_cases.iter() {
                let e1 = if what.starts_with("disjoint") { e1_alt.clone().unwrap() } else { e1.clone() };
                let rel = T::relationship(&e1, other);
                ctx.class(&format!("rel:eq:{}", rel_name(&rel)));
                ctx.class(&format!("eq:{}:{}", tname, what));
                let got1 = T::equals(&e1, other);
                let got2 = T::equals(other, &e1);
                ctx.eval(2);
                ctx.asserted(2);
                if got1 != *want || got2 != *want {
                    ctx.violation(
                        &format!("C03|eq|{}|{}|{}", tname, what, rel_name(&rel)),
                        json!({"type": tname, "what": what, "lhs": e1.describe(), "rhs": other.describe(), "lhs_eq_rhs": got1, "rhs_eq_lhs": got2, "expected": want}),
                    );
                }
            }
        }
    }
}

impl Prop for C03 {
    fn id(&self) -> &'static str {
        "C03"
    }
    fn phases(&self, tier: Tier) -> Vec<PhaseSpec> {
        let n = self.layouts(tier).len() as u64;
        vec![ph("all-ordered-layout-pairs", n * n), ph("python-facing operator methods on overlapping / permuted variable lists", tier.pick(6_000, 300_000))]
    }
    fn exhaustive(&self, _tier: Tier) -> bool {
        true
    }
    fn required_classes(&self, _tier: Tier) -> Vec<String> {
        let mut v = vec![];
        for op in ["add", "sub", "mul", "div", "rem", "eq"] {
            for r in ["ArcEquivalent", "ValueEquivalent", "Superset", "Subset", "Difference"] {
                v.push(format!("rel:{}:{}", op, r));
            }
        }
        for t in ["Dual", "Dual2"] {
            for m in ["independent", "shared-arc", "zero-padded"] {
                v.push(format!("mode:{}:{}", t, m));
            }
            for e in ["same-content-other-layout", "zeros-dropped", "one-derivative-differs", "value-differs", "extra-name-nonzero", "disjoint-zero-padding", "disjoint-padding-nonzero", "negative-zero-derivative:same-layout", "negative-zero-derivative:shared-arc", "negative-zero-derivative:other-layout"] {
                v.push(format!("eq:{}:{}", t, e));
            }
        }
        v.push("eq:Dual2:one-second-derivative-differs".into());
        for t in ["Dual", "Dual2"] {
            for rel in ["ArcEquivalent", "ValueEquivalent", "Superset", "Subset", "Difference"] {
                v.push(format!("align:to_union_vars:{}:{}", t, rel));
            }
        }
        for t in ["Dual", "Dual2"] {
            for rel in ["ArcEquivalent", "ValueEquivalent", "Superset", "Subset", "Difference"] {
                v.push(format!("sum:{}:{}", t, rel));
            }
        }
        for t in ["Dual", "Dual2"] {
            for m in ["__add__", "__rsub__", "__rtruediv__", "__eq__:equal-value", "__lt__:other-value"] {
                v.push(format!("py:{}:{}", t, m));
            }
        }
        v
    }
    fn min_evaluations(&self, tier: Tier) -> u64 {
        tier.pick(300_000, 5_000_000)
    }
    fn rule(&self) -> String {
        "Complete enumeration of (ordered left variable list) x (ordered right variable list) over a pool of 4 (quick: 65^2 pairs) or 5 (thorough: 326^2 pairs) names, including empty lists, x storage mode (independent Arcs, shared Arc via try_new_from, zero-padded supersets) x operators + - * / % and == x Dual, Dual2 x 3 seeded coefficient draws. Each concrete layout must give, as name-keyed maps, the canonical (sorted, unshared) layout's result to 4 ulp, the reference-AD result within the noise band, and exactly the union of the operand names; equality must treat missing and zero alike (a slot holding -0.0 against +0.0 included, in the same layout, on a shared list and in another layout) and detect one-entry differences. distinct_nontrivial counts distinct (left list, right list, type) with at least one non-empty list.".into()
    }
    fn assumptions(&self) -> Vec<String> {
        vec!["variable order of the result is not asserted (only the set)".into(), "remainder cases with a/b within 1e-6 of an integer are skipped (the jump)".into()]
    }
    fn run_case(&mut self, ctx: &mut Ctx, _phase: usize, idx: u64, rng: &mut Rng) {
        if _phase == 1 {
            // the Python-facing operators and comparisons: operands drawn over one small name pool, so that
            // subsets, supersets, permutations and disjoint lists all occur; compared with the core by name
            if idx % 2 == 0 {
                super::pylayer::dual_layer(ctx, "C03", rng);
            } else {
                super::pylayer::dual2_layer(ctx, "C03", rng);
            }
            // the shared-storage constructor of the layer with names in any order
            super::pylayer::dual_conversions(ctx, "C03", rng);
            ctx.distinct(crate::util::hash_u64s(&[0x9e, idx]));
            return;
        }
        let (lays, npool) = match ctx.tier {
            Tier::Quick => (&self.layouts4, 4),
            Tier::Thorough => (&self.layouts5, 5),
        };
        let n = lays.len() as u64;
        let l = lays[(idx / n) as usize].clone();
        let r = lays[(idx % n) as usize].clone();
        ctx.crumb(&format!("layouts {:?} {:?}", l, r));
        self.run_type::<Dual>(ctx, &l, &r, rng, "Dual", npool);
        self.run_type::<Dual2>(ctx, &l, &r, rng, "Dual2", npool);
        if !(l.is_empty() && r.is_empty()) {
            ctx.distinct(hash_u64s(&[1, idx]));
            ctx.distinct(hash_u64s(&[2, idx]));
        }
        ctx.sample(if l.len() + r.len() > 5 { "long" } else { "short" }, || {
            json!({"left_list": l.iter().map(|i| NAMES[*i]).collect::<Vec<_>>(), "right_list": r.iter().map(|i| NAMES[*i]).collect::<Vec<_>>(),
                   "operators": ["+", "-", "*", "/", "%", "=="], "types": ["Dual", "Dual2"], "modes": ["independent", "shared-arc (when lists allow)", "zero-padded"]})
        });
    }
}
