//! C04 - date adjustment lands on the nearest eligible business day in its direction.

use crate::calmodel::*;
use crate::rng::Rng;
use crate::sup::{guarded, is_harness_location, ph, short_loc, Caught, Ctx, PhaseSpec, Prop, Tier};
use crate::util::hash_u64s;
use crate::with_cal;
use chrono::Timelike;
use rateslib::calendars::{DateRoll, Modifier};
use serde_json::json;

pub struct C04 {}

impl C04 {
    pub fn new() -> Self {
        C04 {}
    }
}

pub const MODS: [Modifier; 5] = [Modifier::Act, Modifier::F, Modifier::ModF, Modifier::P, Modifier::ModP];
pub fn mod_name(m: &Modifier) -> &'static str {
    match m {
        Modifier::Act => "Act",
        Modifier::F => "F",
        Modifier::ModF => "ModF",
        Modifier::P => "P",
        Modifier::ModP => "ModP",
    }
}

pub const NAMED_COMBOS: [&str; 30] = [
    "tgt", "ldn,tgt|fed", "tgt|nyc", "nyc,ldn", "LDN,TGT|NYC", "tyo,syd|nyc", "stk,osl", "zur|tgt", "tro|nyc", "wlg,syd", "mum|nyc,ldn", "all|bus", "bus|tgt", "fed,nyc", "osl|stk",
    "tgt,ldn,nyc,tyo", "syd|wlg", "tyo|tyo", "mum", "all", "zur,stk|osl", "Tgt,Nyc|Ldn", "nyc|tgt", "ldn|tyo", "tro,nyc|ldn,tgt", "wlg|mum", "fed|fed", "stk|all", "bus", "osl,zur,stk|ldn,nyc",
];

const PAD: i64 = 130;
const PROBE_BUDGET: u64 = 1_000_000;

struct Dates {
    list: Vec<i64>,
}

/// month-end +-3 days for every month in [y0, y1]
fn month_end_dates(y0: i64, y1: i64) -> Dates {
    let mut v = vec![];
    for y in y0..=y1 {
        for m in 1..=12 {
            let eom = days_from_civil(y, m, days_in_month(y, m));
            for d in -3..=3 {
                v.push(eom + d);
            }
        }
    }
    v.sort();
    v.dedup();
    Dates { list: v }
}

fn run_on<C: DateRoll + PyCalLayer>(ctx: &mut Ctx, cal: &C, spec: &CalSpec, dates: &[i64], rng: &mut Rng) {
    if dates.is_empty() {
        return;
    }
    let lo = *dates.iter().min().unwrap() - PAD;
    let hi = *dates.iter().max().unwrap() + PAD;
    // eligibility comes from the calendar's DESCRIPTION (week mask, holiday list, members, settlement members),
    // not from the object under test: a wrong predicate of the object shows here before any date is adjusted
    let bits = match CalBits::from_spec(spec, lo, hi) {
        Some(b) => b,
        None => {
            ctx.harness_error("calendar description does not resolve".into());
            return;
        }
    };
    ctx.asserted(2 * (hi - lo + 1) as u64);
    if let Some((z, which)) = bits.first_difference(&CalBits::build(cal, lo, hi)) {
        ctx.violation(
            &format!("C04|eligible-days-differ-from-definition|{}|{}", which, spec.kind()),
            json!({"calendar": spec.describe(), "date": fmt_z(z), "predicate": which, "object_says": if which == "is_bus_day" { cal.is_bus_day(&to_ndt(z)) } else { cal.is_settlement(&to_ndt(z)) },
                   "definition": "business day in every member; settlement day = business day in every settlement member (always if none)"}),
        );
        return;
    }
    if spec.has_unsorted_holidays() {
        ctx.class("holiday-list:not-chronological");
    }
    let probe = Probe::new(cal, PROBE_BUDGET);
    let kind = spec.kind();
    for &z in dates {
        let dt = to_ndt(z);
        for settlement in [false, true] {
            for m in MODS {
                let want = match bits.roll(z, m, settlement) {
                    Some(w) => w,
                    None => {
                        ctx.skip("oracle scan left the modelled window");
                        continue;
                    }
                };
                let use_probe = rng.bool();
                let got = if use_probe {
                    probe.reset();
                    guarded(|| probe.roll(&dt, &m, settlement))
                } else {
                    guarded(|| cal.roll(&dt, &m, settlement))
                };
                ctx.eval(1);
                ctx.asserted(1);
                let got = match got {
                    Caught::Ok(g) => g,
                    Caught::Panic { loc, msg } => {
                        if msg == PROBE_BUDGET_MARKER {
                            ctx.violation(
                                &format!("C04|no-termination|{}|{}", mod_name(&m), settlement),
                                json!({"calendar": spec.describe(), "date": fmt_z(z), "modifier": mod_name(&m), "settlement": settlement, "what": format!("more than {} predicate probes", PROBE_BUDGET)}),
                            );
                        } else if is_harness_location(&loc) {
                            ctx.harness_error(format!("{} {}", loc, msg));
                        } else {
                            ctx.violation(&format!("C04|panic|{}", short_loc(&loc)), json!({"calendar": spec.describe(), "date": fmt_z(z), "modifier": mod_name(&m), "settlement": settlement, "location": loc, "message": msg}));
                        }
                        return;
                    }
                };
                // what Python calls (roll_py of the calendar's own class) gives the same date
                if let Some(py) = cal.py_roll(dt, m, settlement) {
                    ctx.asserted(1);
                    ctx.class("python-layer:roll");
                    if py != Ok(got) {
                        ctx.violation(&format!("C04|python-layer|roll|{}", mod_name(&m)), json!({"calendar": spec.describe(), "date": fmt_z(z), "modifier": mod_name(&m), "settlement": settlement, "core": got.to_string(), "python_layer": py.map(|d| d.to_string())}));
                        return;
                    }
                }
                let gz = from_ndt(&got);
                // classes actually observed
                let moved = if want == z {
                    "unchanged"
                } else {
                    let (y0, m0, _) = civil_from_days(z);
                    let fwd = matches!(m, Modifier::F | Modifier::ModF);
                    let reversed = (fwd && want < z) || (!fwd && want > z);
                    let (y1, m1, _) = civil_from_days(want);
                    if reversed {
                        "crossed-month-and-reversed"
                    } else if (y0, m0) != (y1, m1) {
                        "moved-into-other-month"
                    } else {
                        "moved-within-month"
                    }
                };
                let mut chain = 0;
                if settlement && want != z {
                    let (a, b) = if want > z { (z, want) } else { (want, z) };
                    for c in a..=b {
                        if bits.is_bus(c) && !bits.is_settle(c) {
                            chain += 1;
                        }
                    }
                }
                let chain_c = if !settlement { "nosettle" } else if chain == 0 { "chain0" } else if chain == 1 { "chain1" } else { "chain2+" };
                ctx.class(&format!("{}:{}:{}", mod_name(&m), moved, chain_c));
                if moved != "unchanged" {
                    ctx.distinct(hash_u64s(&[crate::util::hash_str(&spec.describe().to_string()), z as u64, m as u64, settlement as u64]));
                }
                if gz != want || got.hour() != 0 || got.minute() != 0 || got.second() != 0 {
                    ctx.violation(
                        &format!("C04|roll|{}|settlement={}|{}|{}", mod_name(&m), settlement, moved, kind),
                        json!({"calendar": spec.describe(), "date": fmt_z(z), "weekday": weekday(z), "modifier": mod_name(&m), "settlement": settlement,
                               "observed": got.to_string(), "expected": fmt_z(want), "via_probe": use_probe,
                               "window": (z - 10..=z + 10).map(|c| json!({"d": fmt_z(c), "bus": bits.is_bus(c), "settle": bits.is_settle(c)})).collect::<Vec<_>>()}),
                    );
                    return;
                }
                if use_probe {
                    ctx.class_n("probed-dates", probe.probes.get());
                }
                // adjusting twice equals adjusting once (checked on the real code, not implied by the oracle)
                if want != z && rng.chance(0.25) {
                    let again = guarded(|| cal.roll(&got, &m, settlement));
                    ctx.eval(1);
                    ctx.asserted(1);
                    match again {
                        Caught::Ok(a) if a == got => {}
                        Caught::Ok(a) => {
                            ctx.violation(
                                &format!("C04|not-idempotent|{}|settlement={}", mod_name(&m), settlement),
                                json!({"calendar": spec.describe(), "date": fmt_z(z), "modifier": mod_name(&m), "settlement": settlement, "once": got.to_string(), "twice": a.to_string()}),
                            );
                            return;
                        }
                        Caught::Panic { loc, msg } => {
                            ctx.violation(&format!("C04|panic|{}", short_loc(&loc)), json!({"calendar": spec.describe(), "date": got.to_string(), "location": loc, "message": msg}));
                            return;
                        }
                    }
                }
            }
        }
    }
}

impl Prop for C04 {
    fn id(&self) -> &'static str {
        "C04"
    }
    fn phases(&self, tier: Tier) -> Vec<PhaseSpec> {
        vec![
            // built-ins: 14 calendars x 23 ten-year blocks (+1 for 2200)
            ph("built-in calendars 1970-2200", 14 * 24),
            ph("named combinations", tier.pick(10, 30 * 24)),
            ph("random calendars and unions", tier.pick(60, 3000)),
        ]
    }
    fn workers(&self, tier: Tier) -> usize {
        tier.pick(8, 16)
    }
    fn required_classes(&self, _tier: Tier) -> Vec<String> {
        let mut v = vec![];
        for m in ["F", "P"] {
            for c in ["unchanged", "moved-within-month", "moved-into-other-month"] {
                v.push(format!("{}:{}:nosettle", m, c));
            }
            v.push(format!("{}:moved-within-month:chain1", m));
            v.push(format!("{}:moved-within-month:chain2+", m));
        }
        for m in ["ModF", "ModP"] {
            for c in ["unchanged", "moved-within-month", "crossed-month-and-reversed"] {
                v.push(format!("{}:{}:nosettle", m, c));
            }
            v.push(format!("{}:crossed-month-and-reversed:chain0", m));
            v.push(format!("{}:crossed-month-and-reversed:chain1", m));
        }
        v.push("Act:unchanged:nosettle".into());
        v.push("Act:unchanged:chain0".into());
        v.push("probed-dates".into());
        v.push("calendar:inside-CalType-container".to_string());
        v.push("holiday-list:not-chronological".to_string());
        v.push("calendar:named-with-settlement-inside-CalType-container".to_string());
        v.push("python-layer:roll".to_string());
        v
    }
    fn min_evaluations(&self, tier: Tier) -> u64 {
        tier.pick(1_000_000, 20_000_000)
    }
    fn rule(&self) -> String {
        "Calendars: the 14 built-ins, named combination strings (',' and '|', mixed case), seeded random Cal objects (any week mask leaving a working day, hostile holiday sets: closures chained over month/year ends, up to 45 days) and UnionCals of 1-3 members with 0-2 settlement calendars. Dates: quick = month-end +-3 days of every month 1970-2200 for built-ins, every date of a 3-year window for the others; thorough = every date 1970-2200 for built-ins and 30 named combinations, 6-year windows for 600 random calendars. Every date x 5 modifiers x both settlement flags; half of the calls run through a probing proxy calendar with a 10^6 probe budget. Oracle: linear scans over a bus/settle bit-vector with own civil arithmetic. distinct_nontrivial = distinct (calendar, date, modifier, flag) whose result moved. Eligible days (business / settlement) are derived from each calendar's description - week mask, holiday list, members and settlement members - and the object's own predicates must agree with that before any result is judged; one calendar in four is exercised inside the CalType container.".into()
    }
    fn assumptions(&self) -> Vec<String> {
        vec![
            "is_bus_day / is_settlement themselves are taken as given here (judged in C06/C07)".into(),
            "unions keep one common working weekday so that an eligible date exists; closures are capped at 45 days".into(),
        ]
    }
    fn run_case(&mut self, ctx: &mut Ctx, phase: usize, idx: u64, rng: &mut Rng) {
        match phase {
            0 => {
                let name = BUILTIN[(idx / 24) as usize];
                let blk = (idx % 24) as i64;
                let y0 = 1970 + blk * 10;
                let y1 = (y0 + 9).min(2200);
                if y0 > 2200 {
                    return;
                }
                let spec = CalSpec::Builtin(name.to_string());
                let cal = match simple_cal(&spec) {
                    Some(c) => c,
                    None => {
                        ctx.violation(&format!("C04|name-unresolved|{}", name), json!({"name": name}));
                        return;
                    }
                };
                let dates: Vec<i64> = match ctx.tier {
                    Tier::Quick => month_end_dates(y0, y1).list,
                    Tier::Thorough => (days_from_civil(y0, 1, 1)..=days_from_civil(y1, 12, 31)).collect(),
                };
                ctx.crumb(&format!("builtin {} {}-{}", name, y0, y1));
                run_on(ctx, &cal, &spec, &dates, rng);
                ctx.sample("builtin", || json!({"calendar": name, "years": [y0, y1], "dates": dates.len(), "modifiers": 5, "settlement_flags": 2}));
            }
            1 => {
                let (name, dates): (&str, Vec<i64>) = match ctx.tier {
                    Tier::Quick => {
                        let name = NAMED_COMBOS[(idx as usize * 3 + (ctx.seed % 3) as usize) % NAMED_COMBOS.len()];
                        let y0 = 1970 + rng.range_i(0, 226);
                        (name, (days_from_civil(y0, 1, 1)..=days_from_civil(y0 + 2, 12, 31)).collect())
                    }
                    Tier::Thorough => {
                        let name = NAMED_COMBOS[(idx / 24) as usize];
                        let blk = (idx % 24) as i64;
                        let y0 = 1970 + blk * 10;
                        let y1 = (y0 + 9).min(2200);
                        if y0 > 2200 {
                            return;
                        }
                        (name, (days_from_civil(y0, 1, 1)..=days_from_civil(y1, 12, 31)).collect())
                    }
                };
                let spec = CalSpec::Named(name.to_string());
                ctx.crumb(&format!("named {}", name));
                match build_cal_forms(&spec) {
                    Some(forms) => {
                        for any in forms.iter() {
                            if any.is_wrapped() {
                                ctx.class("calendar:inside-CalType-container");
                                if matches!(&spec, CalSpec::Named(n) if n.contains('|')) {
                                    ctx.class("calendar:named-with-settlement-inside-CalType-container");
                                }
                            }
                            with_cal!(any, c => run_on(ctx, c, &spec, &dates, rng));
                        }
                    }
                    None => ctx.violation(&format!("C04|named-unresolved|{}", name), json!({"name": name})),
                }
                ctx.sample("named", || json!({"calendar": name, "dates": dates.len()}));
            }
            _ => {
                let years = ctx.tier.pick(3, 6);
                let y0 = 1975 + rng.range_i(0, 215 - years);
                let z0 = days_from_civil(y0, 1, 1);
                let z1 = days_from_civil(y0 + years - 1, 12, 31);
                let spec = match rng.below(3) {
                    0 => gen_custom(rng, z0, z1),
                    _ => gen_union(rng, z0, z1),
                };
                ctx.crumb(&format!("random calendar {}", spec.describe()));
                let dates: Vec<i64> = (z0..=z1).collect();
                match build_cal_forms(&spec) {
                    Some(forms) => {
                        for any in forms.iter() {
                            if any.is_wrapped() {
                                ctx.class("calendar:inside-CalType-container");
                                if matches!(&spec, CalSpec::Named(n) if n.contains('|')) {
                                    ctx.class("calendar:named-with-settlement-inside-CalType-container");
                                }
                            }
                            with_cal!(any, c => run_on(ctx, c, &spec, &dates, rng));
                        }
                    }
                    None => ctx.harness_error("could not build generated calendar".into()),
                }
                ctx.sample(spec.kind(), || json!({"calendar": spec.describe(), "window": [fmt_z(z0), fmt_z(z1)]}));
            }
        }
    }
}
