//! C05 - business-day arithmetic counts exactly the business days it says it does.

use super::c04::{mod_name, MODS, NAMED_COMBOS};
use crate::calmodel::*;
use crate::rng::Rng;
use crate::sup::{guarded, is_harness_location, ph, short_loc, Caught, Ctx, PhaseSpec, Prop, Tier};
use crate::util::hash_u64s;
use crate::with_cal;
use rateslib::calendars::DateRoll;
use serde_json::{json, Value};

pub struct C05 {}

impl C05 {
    pub fn new() -> Self {
        C05 {}
    }
}

const PAD: i64 = 1600;
const PROBE_BUDGET: u64 = 1_000_000;

fn n_class(n: i64) -> &'static str {
    match n {
        -128 => "n=-128",
        127 => "n=127",
        0 => "n=0",
        1 => "n=1",
        -1 => "n=-1",
        x if x < 0 => "n<0",
        _ => "n>0",
    }
}

/// handle a panic escaping a call: probe budget, harness bug, or a genuine panic in rateslib
fn on_panic(ctx: &mut Ctx, what: &str, loc: &str, msg: &str, detail: Value) {
    if msg == PROBE_BUDGET_MARKER {
        ctx.violation(&format!("C05|no-termination|{}", what), detail);
    } else if is_harness_location(loc) {
        ctx.harness_error(format!("{} {}", loc, msg));
    } else {
        ctx.violation(&format!("C05|panic|{}|{}", what, short_loc(loc)), json!({"detail": detail, "location": loc, "message": msg}));
    }
}

fn run_on<C: DateRoll + PyCalLayer>(ctx: &mut Ctx, cal: &C, spec: &CalSpec, starts: &[i64], rng: &mut Rng) {
    let lo = *starts.iter().min().unwrap() - PAD;
    let hi = *starts.iter().max().unwrap() + PAD;
    // eligibility comes from the calendar's DESCRIPTION (week mask, holiday list, members, settlement members),
    // not from the object under test: a wrong predicate of the object shows here before any date is adjusted
    let bits = match CalBits::from_spec(spec, lo, hi) {
        Some(b) => b,
        None => {
            ctx.harness_error("calendar description does not resolve".into());
            return;
        }
    };
    ctx.asserted(2 * (hi - lo + 1) as u64);
    if let Some((z, which)) = bits.first_difference(&CalBits::build(cal, lo, hi)) {
        ctx.violation(
            &format!("C05|eligible-days-differ-from-definition|{}|{}", which, spec.kind()),
            json!({"calendar": spec.describe(), "date": fmt_z(z), "predicate": which, "object_says": if which == "is_bus_day" { cal.is_bus_day(&to_ndt(z)) } else { cal.is_settlement(&to_ndt(z)) },
                   "definition": "business day in every member; settlement day = business day in every settlement member (always if none)"}),
        );
        return;
    }
    if spec.has_unsorted_holidays() {
        ctx.class("holiday-list:not-chronological");
    }
    let probe = Probe::new(cal, PROBE_BUDGET);
    let sd = spec.describe();
    let mut panicked_sigs: std::collections::HashSet<String> = Default::default();
    for &z in starts {
        let dt = to_ndt(z);
        let bus = bits.is_bus(z);
        ctx.class(if bus { "start:business" } else { "start:non-business" });
        for n in -128i64..=127 {
            let n8 = n as i8;
            for settlement in [false, true] {
                // ---------------- add_bus_days
                let use_probe = (n + z) % 4 == 0;
                let got = if use_probe {
                    probe.reset();
                    guarded(|| probe.add_bus_days(&dt, n8, settlement).map_err(|_| ()))
                } else {
                    guarded(|| cal.add_bus_days(&dt, n8, settlement).map_err(|_| ()))
                };
                ctx.eval(1);
                ctx.asserted(1);
                let case = |extra: Value| json!({"calendar": sd, "start": fmt_z(z), "start_is_business_day": bus, "n": n, "settlement": settlement, "detail": extra});
                // the Python-facing methods of the calendar's own class: the same answers (and the same refusals)
                if (n + z) % 3 == 0 {
                    let mm = MODS[((n + 128) as usize + z.rem_euclid(5) as usize) % 5];
                    let py = guarded(|| (cal.py_add_bus_days(dt, n8, settlement), cal.py_lag(dt, n8, settlement), cal.py_add_days(dt, n8, mm, settlement), cal.py_predicates(dt)));
                    let core = guarded(|| (cal.add_bus_days(&dt, n8, settlement).map_err(|_| ()), cal.lag(&dt, n8, settlement), cal.add_days(&dt, n8, &mm, settlement), (cal.is_bus_day(&dt), cal.is_non_bus_day(&dt), cal.is_settlement(&dt))));
                    if let (Caught::Ok((Some(a), Some(b), Some(c), Some(d))), Caught::Ok((ca, cb, cc, cd))) = (py, core) {
                        ctx.asserted(4);
                        ctx.class("python-layer:add_bus_days-lag-add_days-predicates");
                        if a != ca || b != cb || c != Ok(cc) || d != cd {
                            ctx.violation("C05|python-layer", case(json!({"add_bus_days (python, core)": [format!("{:?}", a), format!("{:?}", ca)], "lag": [b.to_string(), cb.to_string()], "add_days": [format!("{:?}", c), cc.to_string()], "is_bus_day / is_non_bus_day / is_settlement": [format!("{:?}", d), format!("{:?}", cd)]})));
                            return;
                        }
                    }
                }
                let res = match got {
                    Caught::Ok(r) => r,
                    Caught::Panic { loc, msg } => {
                        let k = format!("add_bus_days|{}", n_class(n));
                        if panicked_sigs.insert(k.clone()) {
                            on_panic(ctx, &k, &loc, &msg, case(json!({})));
                        }
                        continue;
                    }
                };
                if !bus {
                    if res.is_ok() {
                        ctx.violation(&format!("C05|add_bus_days|non-business-start-accepted|{}", n_class(n)), case(json!({"observed": res.unwrap().to_string(), "expected": "Err"})));
                        return;
                    }
                } else {
                    let want = match bits.add_bus_days(z, n, settlement) {
                        Some(w) => w,
                        None => {
                            ctx.skip("oracle count left the modelled window");
                            continue;
                        }
                    };
                    ctx.class(&format!("add_bus_days:{}:settle={}", n_class(n), settlement));
                    if settlement {
                        let unsettled = bits.add_bus_days(z, n, false).unwrap_or(want);
                        if unsettled != want {
                            ctx.class(if n < 0 { "settlement-moved-backward" } else { "settlement-moved-forward" });
                        }
                    }
                    match res {
                        Ok(g) if from_ndt(&g) == want && g == to_ndt(want) => {
                            ctx.distinct(hash_u64s(&[crate::util::hash_str(&sd.to_string()), z as u64, n as u64 & 0xff, settlement as u64]));
                            // without settlement, adding -n afterwards returns to the start
                            if !settlement && n != -128 {
                                let back = guarded(|| cal.add_bus_days(&g, (-n) as i8, false).map_err(|_| ()));
                                ctx.eval(1);
                                ctx.asserted(1);
                                match back {
                                    Caught::Ok(Ok(b)) if b == dt => {}
                                    Caught::Ok(other) => {
                                        ctx.violation(&format!("C05|add_bus_days|inverse|{}", n_class(n)), case(json!({"forward": g.to_string(), "back": format!("{:?}", other), "expected_back": fmt_z(z)})));
                                        return;
                                    }
                                    Caught::Panic { loc, msg } => {
                                        on_panic(ctx, "add_bus_days-inverse", &loc, &msg, case(json!({})));
                                        return;
                                    }
                                }
                            }
                        }
                        other => {
                            ctx.violation(
                                &format!("C05|add_bus_days|{}|settlement={}", n_class(n), settlement),
                                case(json!({"observed": format!("{:?}", other), "expected": fmt_z(want), "via_probe": use_probe})),
                            );
                            return;
                        }
                    }
                }
                // ---------------- lag
                let got = guarded(|| cal.lag(&dt, n8, settlement));
                ctx.eval(1);
                ctx.asserted(1);
                match got {
                    Caught::Panic { loc, msg } => {
                        let k = format!("lag|{}", n_class(n));
                        if panicked_sigs.insert(k.clone()) {
                            on_panic(ctx, &k, &loc, &msg, case(json!({})));
                        }
                    }
                    Caught::Ok(g) => {
                        let gz = from_ndt(&g);
                        let wants: Option<Vec<i64>> = if bus {
                            bits.add_bus_days(z, n, settlement).map(|w| vec![w])
                        } else if n > 0 {
                            bits.scan(z, 1, false).and_then(|f| bits.add_bus_days(f, n - 1, settlement)).map(|w| vec![w])
                        } else if n < 0 {
                            bits.scan(z, -1, false).and_then(|p| bits.add_bus_days(p, n + 1, settlement)).map(|w| vec![w])
                        } else {
                            // n = 0 on a non-business day: first business day after; with settlement the
                            // statement is silent, so that day or its settled successor are both accepted
                            bits.scan(z, 1, false).map(|f| {
                                let mut v = vec![f];
                                if settlement {
                                    if let Some(s) = bits.scan(f, 1, true) {
                                        v.push(s);
                                    }
                                }
                                v
                            })
                        };
                        match wants {
                            None => ctx.skip("oracle count left the modelled window"),
                            Some(ws) => {
                                ctx.class(&format!("lag:{}:{}", if bus { "bus" } else { "nonbus" }, n_class(n)));
                                if !ws.contains(&gz) {
                                    ctx.violation(
                                        &format!("C05|lag|{}|{}|settlement={}", if bus { "bus" } else { "nonbus" }, n_class(n), settlement),
                                        case(json!({"observed": g.to_string(), "expected_one_of": ws.iter().map(|w| fmt_z(*w)).collect::<Vec<_>>()})),
                                    );
                                    return;
                                }
                            }
                        }
                    }
                }
                // ---------------- add_days = calendar-day addition followed by adjustment
                let m = MODS[((n + 128) as usize + settlement as usize + z.rem_euclid(5) as usize) % 5];
                let got = guarded(|| cal.add_days(&dt, n8, &m, settlement));
                ctx.eval(1);
                ctx.asserted(1);
                match got {
                    Caught::Panic { loc, msg } => {
                        let k = format!("add_days|{}", n_class(n));
                        if panicked_sigs.insert(k.clone()) {
                            on_panic(ctx, &k, &loc, &msg, case(json!({"modifier": mod_name(&m)})));
                        }
                    }
                    Caught::Ok(g) => match bits.roll(z + n, m, settlement) {
                        None => ctx.skip("oracle scan left the modelled window"),
                        Some(w) => {
                            ctx.class(&format!("add_days:{}:{}", mod_name(&m), n_class(n)));
                            if from_ndt(&g) != w {
                                ctx.violation(
                                    &format!("C05|add_days|{}|{}", mod_name(&m), n_class(n)),
                                    case(json!({"modifier": mod_name(&m), "observed": g.to_string(), "expected": fmt_z(w)})),
                                );
                                return;
                            }
                        }
                    },
                }
            }
        }
        // ---------------- a reversed range has no calendar days, hence no business days
        if bus {
            if let Some(earlier) = bits.scan(z - 1 - rng.range_i(0, 40), -1, false) {
                let got = guarded(|| cal.bus_date_range(&dt, &to_ndt(earlier)).map_err(|_| ()));
                ctx.eval(1);
                ctx.asserted(1);
                ctx.class("bus_date_range:reversed");
                match got {
                    Caught::Ok(Ok(v)) if v.is_empty() => {}
                    Caught::Ok(other) => {
                        ctx.violation("C05|bus_date_range|reversed-range-not-empty", json!({"calendar": sd, "start": fmt_z(z), "end": fmt_z(earlier), "observed": other.map(|v| v.iter().map(|d| d.to_string()).collect::<Vec<_>>()).ok(), "expected": "[] (the calendar-date range is empty)"}));
                        return;
                    }
                    Caught::Panic { loc, msg } => {
                        on_panic(ctx, "bus_date_range", &loc, &msg, json!({"calendar": sd, "start": fmt_z(z), "end": fmt_z(earlier)}));
                        return;
                    }
                }
            }
        }
        // ---------------- bus_date_range with an end point that is NOT a business day: either refused, or exactly the
        // business days of the calendar-date range (never a list holding a non-business day)
        {
            let span = rng.range_i(1, 60);
            let (a, b) = if bus {
                // business start, the nearest non-business day at or after start + span as end
                match (z + span..z + span + 30).find(|c| bits.inside(*c) && !bits.is_bus(*c)) {
                    Some(e) => (z, e),
                    None => (z, z),
                }
            } else {
                // non-business start, a business end
                match bits.scan(z + span, 1, false) {
                    Some(e) => (z, e),
                    None => (z, z),
                }
            };
            if a != b && bits.inside(b) {
                let got = guarded(|| cal.bus_date_range(&to_ndt(a), &to_ndt(b)).map_err(|_| ()));
                ctx.eval(1);
                ctx.asserted(1);
                ctx.class(if bus { "bus_date_range:non-business-end" } else { "bus_date_range:non-business-start" });
                let want: Vec<i64> = (a..=b).filter(|c| bits.is_bus(*c)).collect();
                match got {
                    Caught::Ok(Err(())) => {}
                    Caught::Ok(Ok(v)) if v.iter().map(from_ndt).collect::<Vec<_>>() == want => {}
                    Caught::Ok(Ok(v)) => {
                        let listed_non_business: Vec<String> = v.iter().map(from_ndt).filter(|c| !bits.is_bus(*c)).take(4).map(fmt_z).collect();
                        ctx.violation(
                            &format!("C05|bus_date_range|{}", if bus { "non-business-end" } else { "non-business-start" }),
                            json!({"calendar": sd, "start": fmt_z(a), "end": fmt_z(b), "observed_len": v.len(), "business_days_in_range": want.len(), "non_business_days_listed": listed_non_business}),
                        );
                        return;
                    }
                    Caught::Panic { loc, msg } => {
                        on_panic(ctx, "bus_date_range", &loc, &msg, json!({"calendar": sd, "start": fmt_z(a), "end": fmt_z(b)}));
                        return;
                    }
                }
            }
        }
        // ---------------- bus_date_range on business end points
        if bus {
            let span = rng.range_i(0, 150);
            if let Some(end) = bits.scan(z + span, 1, false) {
                let got = guarded(|| cal.bus_date_range(&dt, &to_ndt(end)).map_err(|_| ()));
                ctx.eval(1);
                ctx.asserted(1);
                let want: Vec<i64> = (z..=end).filter(|c| bits.is_bus(*c)).collect();
                ctx.class(if span == 0 || end == z { "bus_date_range:single" } else { "bus_date_range:span" });
                if let (Some(py), Caught::Ok(core)) = (cal.py_bus_date_range(dt, to_ndt(end)), &got) {
                    ctx.asserted(2);
                    ctx.class("python-layer:date-ranges");
                    let pc = cal.py_cal_date_range(dt, to_ndt(end)).and_then(|r| r.ok()).map(|v| v.len());
                    if &py != core || pc != Some((end - z + 1) as usize) {
                        ctx.violation("C05|python-layer|date-ranges", json!({"calendar": sd, "start": fmt_z(z), "end": fmt_z(end), "bus_date_range python_len": py.as_ref().map(|v| v.len()).ok(), "core_len": core.as_ref().map(|v| v.len()).ok(), "cal_date_range python_len": pc}));
                        return;
                    }
                }
                match got {
                    Caught::Ok(Ok(v)) if v.iter().map(from_ndt).collect::<Vec<_>>() == want => {}
                    Caught::Ok(other) => {
                        ctx.violation(
                            "C05|bus_date_range",
                            json!({"calendar": sd, "start": fmt_z(z), "end": fmt_z(end), "observed_len": other.as_ref().map(|v| v.len()).ok(), "expected_len": want.len(),
                                   "observed_head": other.map(|v| v.iter().take(5).map(|d| d.to_string()).collect::<Vec<_>>()).ok(), "expected_head": want.iter().take(5).map(|w| fmt_z(*w)).collect::<Vec<_>>()}),
                        );
                        return;
                    }
                    Caught::Panic { loc, msg } => {
                        on_panic(ctx, "bus_date_range", &loc, &msg, json!({"calendar": sd, "start": fmt_z(z), "end": fmt_z(end)}));
                        return;
                    }
                }
            }
        }
    }
}

impl Prop for C05 {
    fn id(&self) -> &'static str {
        "C05"
    }
    fn phases(&self, tier: Tier) -> Vec<PhaseSpec> {
        vec![ph("built-in and named calendars", tier.pick(24, 600)), ph("random calendars and unions", tier.pick(24, 1200))]
    }
    fn workers(&self, tier: Tier) -> usize {
        tier.pick(12, 16)
    }
    fn required_classes(&self, _tier: Tier) -> Vec<String> {
        let mut v = vec!["start:business".to_string(), "start:non-business".to_string(), "settlement-moved-backward".into(), "settlement-moved-forward".into(), "bus_date_range:span".into(), "bus_date_range:reversed".into(), "bus_date_range:non-business-end".into(), "bus_date_range:non-business-start".into()];
        for c in ["n=-128", "n=127", "n=0", "n=1", "n=-1", "n<0", "n>0"] {
            v.push(format!("add_bus_days:{}:settle=false", c));
            v.push(format!("add_bus_days:{}:settle=true", c));
            v.push(format!("lag:bus:{}", c));
            v.push(format!("lag:nonbus:{}", c));
        }
        for c in ["n=127", "n=0", "n<0", "n>0"] {
            v.push(format!("add_days:F:{}", c));
        }
        v.push("calendar:inside-CalType-container".to_string());
        v.push("holiday-list:not-chronological".to_string());
        v.push("calendar:named-with-settlement-inside-CalType-container".to_string());
        v.push("python-layer:add_bus_days-lag-add_days-predicates".to_string());
        v.push("python-layer:date-ranges".to_string());
        v
    }
    fn min_evaluations(&self, tier: Tier) -> u64 {
        tier.pick(2_000_000, 50_000_000)
    }
    fn rule(&self) -> String {
        "The C04 calendar zoo (built-ins, named combinations, random Cal / UnionCal with hostile holiday sets and settlement calendars). For every chosen start date (business and non-business): ALL 256 values of the i8 day count x both settlement flags for add_bus_days (incl. inverse without settlement, rejection of non-business starts), lag and add_days (modifier cycling over all 5), plus bus_date_range to a business end point up to 150 days later and with a non-business start or end point (refused, or exactly the business days). Oracle: rank/select over the bus/settle bit-vector. A quarter of add_bus_days calls run through the probing proxy (10^6 probe budget). distinct_nontrivial = distinct (calendar, business start, n, flag) judged. Eligible days (business / settlement) are derived from each calendar's description - week mask, holiday list, members and settlement members - and the object's own predicates must agree with that before any result is judged; one calendar in four is exercised inside the CalType container.".into()
    }
    fn assumptions(&self) -> Vec<String> {
        vec![
            "lag(0) on a non-business day with settlement enforced: the first business day after, or its settled successor (the statement is silent)".into(),
            "bus_date_range with a non-business end point may be refused; if it answers, the list must be exactly the business days of the range".into(),
        ]
    }
    fn run_case(&mut self, ctx: &mut Ctx, phase: usize, idx: u64, rng: &mut Rng) {
        let ndates = ctx.tier.pick(50, 120) as usize;
        if phase == 0 {
            let spec = if idx % 2 == 0 { CalSpec::Builtin(BUILTIN[(idx as usize / 2) % BUILTIN.len()].to_string()) } else { CalSpec::Named(NAMED_COMBOS[(idx as usize / 2 + ctx.seed as usize) % NAMED_COMBOS.len()].to_string()) };
            let y0 = 1975 + rng.range_i(0, 215);
            let base = days_from_civil(y0, rng.range_i(1, 12), 1);
            // cluster the starts around holiday-rich periods: year end, Easter, early May
            let mut starts: Vec<i64> = vec![];
            for _ in 0..ndates {
                let anchor = match rng.below(4) {
                    0 => days_from_civil(y0, 12, 20) + rng.range_i(0, 20),
                    1 => easter(y0) + rng.range_i(-6, 6),
                    2 => days_from_civil(y0, 5, 1) + rng.range_i(-5, 30),
                    _ => base + rng.range_i(0, 400),
                };
                starts.push(anchor);
            }
            ctx.crumb(&format!("calendar {}", spec.describe()));
            match build_cal_forms(&spec) {
                Some(forms) => {
                    for any in forms.iter() {
                        if any.is_wrapped() {
                            ctx.class("calendar:inside-CalType-container");
                            if matches!(&spec, CalSpec::Named(n) if n.contains('|')) {
                                ctx.class("calendar:named-with-settlement-inside-CalType-container");
                            }
                        }
                        with_cal!(any, c => run_on(ctx, c, &spec, &starts, rng));
                    }
                }
                None => ctx.violation("C05|calendar-unresolved", json!({"calendar": spec.describe()})),
            }
            ctx.sample(spec.kind(), || json!({"calendar": spec.describe(), "starts": starts.iter().take(5).map(|z| fmt_z(*z)).collect::<Vec<_>>(), "n": "-128..=127", "flags": [false, true]}));
        } else {
            let y0 = 1975 + rng.range_i(0, 212);
            let z0 = days_from_civil(y0, 1, 1);
            let z1 = days_from_civil(y0 + 2, 12, 31);
            let spec = if rng.chance(0.35) { gen_custom(rng, z0, z1) } else { gen_union(rng, z0, z1) };
            let starts: Vec<i64> = (0..ndates).map(|_| z0 + rng.range_i(200, (z1 - z0) - 200)).collect();
            ctx.crumb(&format!("calendar {}", spec.describe()));
            match build_cal_forms(&spec) {
                Some(forms) => {
                    for any in forms.iter() {
                        if any.is_wrapped() {
                            ctx.class("calendar:inside-CalType-container");
                            if matches!(&spec, CalSpec::Named(n) if n.contains('|')) {
                                ctx.class("calendar:named-with-settlement-inside-CalType-container");
                            }
                        }
                        with_cal!(any, c => run_on(ctx, c, &spec, &starts, rng));
                    }
                }
                None => ctx.harness_error("could not build generated calendar".into()),
            }
            ctx.sample(spec.kind(), || json!({"calendar": spec.describe(), "starts": starts.iter().take(5).map(|z| fmt_z(*z)).collect::<Vec<_>>()}));
        }
    }
}
