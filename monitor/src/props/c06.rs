//! C06 - combined and named calendars mean the union of their parts.

use crate::calmodel::*;
use crate::rng::Rng;
use crate::sup::{guarded, is_harness_location, ph, short_loc, Caught, Ctx, PhaseSpec, Prop, Tier};
use crate::util::hash_u64s;
use rateslib::calendars::{get_calendar_by_name, Cal, DateRoll, NamedCal, UnionCal};
use serde_json::{json, Value};

pub struct C06 {}

impl C06 {
    pub fn new() -> Self {
        C06 {}
    }
}

/// own evaluation of a simple calendar's business-day predicate where its content is known to the
/// harness (custom calendars); built-ins are read through the real table (judged in C07)
struct Member {
    spec: CalSpec,
    cal: Cal,
    mask: Option<Vec<u8>>,
    hol: Option<std::collections::HashSet<i64>>,
}

impl Member {
    fn new(spec: CalSpec) -> Option<Self> {
        let cal = simple_cal(&spec)?;
        let (mask, hol) = match &spec {
            CalSpec::Custom { week_mask, holidays } => (Some(week_mask.clone()), Some(holidays.iter().cloned().collect())),
            _ => (None, None),
        };
        Some(Member { spec, cal, mask, hol })
    }
    fn is_bus(&self, z: i64) -> bool {
        match (&self.mask, &self.hol) {
            (Some(m), Some(h)) => !m.contains(&(weekday(z) as u8)) && !h.contains(&z),
            _ => self.cal.is_bus_day(&to_ndt(z)),
        }
    }
}

fn gen_member(r: &mut Rng) -> CalSpec {
    if r.chance(0.6) {
        gen_builtin(r)
    } else {
        let y0 = 1970 + r.range_i(0, 220);
        let z0 = days_from_civil(y0, 1, 1);
        gen_custom(r, z0, (z0 + 4000).min(z_2200_end()))
    }
}

fn random_case(s: &str, r: &mut Rng) -> String {
    s.chars().map(|c| if r.chance(0.4) { c.to_ascii_uppercase() } else { c }).collect()
}

fn check_union_definition(ctx: &mut Ctx, members: &[Member], settle: &Option<Vec<Member>>, what: &str) {
    let u = UnionCal::new(members.iter().map(|m| m.cal.clone()).collect(), settle.as_ref().map(|v| v.iter().map(|m| m.cal.clone()).collect()));
    let desc = json!({"members": members.iter().map(|m| m.spec.describe()).collect::<Vec<_>>(), "settlement": settle.as_ref().map(|v| v.iter().map(|m| m.spec.describe()).collect::<Vec<_>>())});
    let mut n_nontrivial = 0u64;
    for z in Z_1970..=z_2200_end() {
        let dt = to_ndt(z);
        let want_bus = members.iter().all(|m| m.is_bus(z));
        let want_set = settle.as_ref().map_or(true, |v| v.iter().all(|m| m.is_bus(z)));
        let got_bus = u.is_bus_day(&dt);
        let got_set = u.is_settlement(&dt);
        ctx.eval(2);
        if got_bus != want_bus || got_set != want_set {
            ctx.violation(
                &format!("C06|union-definition|{}|{}", what, if got_bus != want_bus { "is_bus_day" } else { "is_settlement" }),
                json!({"calendar": desc, "date": fmt_z(z), "is_bus_day": got_bus, "expected_bus": want_bus, "is_settlement": got_set, "expected_settlement": want_set,
                       "member_bus": members.iter().map(|m| m.is_bus(z)).collect::<Vec<_>>(), "settlement_bus": settle.as_ref().map(|v| v.iter().map(|m| m.is_bus(z)).collect::<Vec<_>>())}),
            );
            return;
        }
        // a date on which the members disagree is where "all" and "any" differ
        if members.len() > 1 && members.iter().any(|m| m.is_bus(z)) && !want_bus {
            n_nontrivial += 1;
        }
        if !want_set && want_bus {
            n_nontrivial += 1;
        }
    }
    ctx.asserted(2 * (z_2200_end() + 1) as u64);
    if !check_container(ctx, &u, &rateslib::calendars::CalType::UnionCal(u.clone()), "UnionCal", &desc) {
        return;
    }
    if let Some(m) = members.first() {
        if !check_container(ctx, &m.cal, &rateslib::calendars::CalType::Cal(m.cal.clone()), "Cal", &m.spec.describe()) {
            return;
        }
    }
    ctx.class(&format!("union:{}members:{}settle", members.len().min(4), settle.as_ref().map_or(0, |v| v.len()).min(3)));
    ctx.class_n("dates-where-members-disagree-or-settlement-blocks", n_nontrivial);
    ctx.distinct(hash_u64s(&[crate::util::hash_str(&desc.to_string())]));
    ctx.sample(what, || desc.clone());
}

/// the `CalType` container (what a curve stores) must answer every predicate exactly as the calendar it holds
fn check_container<C: DateRoll>(ctx: &mut Ctx, inner: &C, ct: &rateslib::calendars::CalType, kind: &str, desc: &Value) -> bool {
    for z in Z_1970..=z_2200_end() {
        let dt = to_ndt(z);
        let a = (inner.is_weekday(&dt), inner.is_holiday(&dt), inner.is_settlement(&dt), inner.is_bus_day(&dt));
        let b = (ct.is_weekday(&dt), ct.is_holiday(&dt), ct.is_settlement(&dt), ct.is_bus_day(&dt));
        if a != b {
            let which = if a.0 != b.0 { "is_weekday" } else if a.1 != b.1 { "is_holiday" } else if a.2 != b.2 { "is_settlement" } else { "is_bus_day" };
            ctx.violation(&format!("C06|container-differs|{}|{}", kind, which), json!({"calendar": desc, "date": fmt_z(z), "held_calendar (weekday, holiday, settlement, bus)": [a.0, a.1, a.2, a.3], "CalType": [b.0, b.1, b.2, b.3]}));
            return false;
        }
    }
    ctx.eval(4 * (z_2200_end() + 1) as u64);
    ctx.asserted(4 * (z_2200_end() + 1) as u64);
    ctx.class(&format!("container:{}", kind));
    true
}

fn bits_full<C: DateRoll>(c: &C) -> CalBits {
    CalBits::build(c, Z_1970, z_2200_end())
}

fn agree(a: &CalBits, b: &CalBits) -> bool {
    a.bus == b.bus && a.settle == b.settle
}

enum K {
    C(Cal),
    U(UnionCal),
    N(NamedCal),
}

impl K {
    fn kind(&self) -> &'static str {
        match self {
            K::C(_) => "Cal",
            K::U(_) => "UnionCal",
            K::N(_) => "NamedCal",
        }
    }
    fn bits(&self) -> CalBits {
        match self {
            K::C(c) => bits_full(c),
            K::U(c) => bits_full(c),
            K::N(c) => bits_full(c),
        }
    }
}

/// `a == b` for every pairing the statement covers (at least one side combined or named)
fn eq_pair(a: &K, b: &K) -> Option<bool> {
    Some(match (a, b) {
        (K::U(x), K::C(y)) => x == y,
        (K::U(x), K::U(y)) => x == y,
        (K::U(x), K::N(y)) => x == y,
        (K::N(x), K::C(y)) => x == y,
        (K::N(x), K::U(y)) => x == y,
        (K::N(x), K::N(y)) => x == y,
        (K::C(x), K::U(y)) => x == y,
        (K::C(x), K::N(y)) => x == y,
        (K::C(_), K::C(_)) => return None,
    })
}

/// the same comparison as Python makes it: `x.__eq__(CalType(y))` on the left operand's own class
fn py_eq_pair(a: &K, b: &K) -> Option<bool> {
    use rateslib::calendars::CalType;
    if matches!((a, b), (K::C(_), K::C(_))) {
        return None;
    }
    let other = match b {
        K::C(y) => CalType::Cal(y.clone()),
        K::U(y) => CalType::UnionCal(y.clone()),
        K::N(y) => CalType::NamedCal(y.clone()),
    };
    Some(match a {
        K::C(x) => x.verif_py_eq(other),
        K::U(x) => x.verif_py_eq(other),
        K::N(x) => x.verif_py_eq(other),
    })
}

fn check_eq(ctx: &mut Ctx, a: &K, b: &K, label: &str, desc: Value) {
    let want = agree(&a.bits(), &b.bits());
    for (x, y, dir) in [(a, b, "a==b"), (b, a, "b==a")] {
        if let Some(r) = match guarded(|| eq_pair(x, y)) {
            Caught::Ok(r) => r,
            Caught::Panic { loc, msg } => {
                if is_harness_location(&loc) {
                    ctx.harness_error(format!("{} {}", loc, msg));
                } else {
                    ctx.violation(&format!("C06|eq-panic|{}", short_loc(&loc)), json!({"case": desc, "message": msg}));
                }
                return;
            }
        } {
            ctx.eval(1);
            ctx.asserted(1);
            ctx.class(&format!("eq:{}=={}:{}", x.kind(), y.kind(), if want { "equal" } else { "unequal" }));
            ctx.class(&format!("eq-case:{}", label));
            if let Caught::Ok(Some(p)) = guarded(|| py_eq_pair(x, y)) {
                ctx.asserted(1);
                ctx.class("python-layer:__eq__");
                if p != want {
                    ctx.violation(
                        &format!("C06|python-layer|__eq__|{}|{}=={}|expected-{}", label, x.kind(), y.kind(), want),
                        json!({"case": desc, "direction": dir, "observed": p, "expected_from_date_by_date_agreement_1970_2200": want}),
                    );
                    return;
                }
            }
            if r != want {
                ctx.violation(
                    &format!("C06|eq|{}|{}=={}|expected-{}", label, x.kind(), y.kind(), want),
                    json!({"case": desc, "direction": dir, "observed": r, "expected_from_date_by_date_agreement_1970_2200": want}),
                );
                return;
            }
        }
    }
}

impl Prop for C06 {
    fn id(&self) -> &'static str {
        "C06"
    }
    fn phases(&self, tier: Tier) -> Vec<PhaseSpec> {
        vec![
            ph("union definition: all ordered pairs of built-ins", tier.pick(14, 14 * 14)),
            ph("union definition: random selections", tier.pick(30, 3000)),
            ph("named strings vs explicit unions", tier.pick(40, 2000)),
            ph("rejected names", tier.pick(200, 20000)),
            ph("equality near-misses", tier.pick(45, 1800)),
        ]
    }
    fn required_classes(&self, _tier: Tier) -> Vec<String> {
        let mut v: Vec<String> = ["dates-where-members-disagree-or-settlement-blocks", "named:with-pipe", "named:without-pipe", "named:mixed-case", "named:same-calendars-redistributed-around-the-pipe", "rejected:unknown-name", "rejected:typo", "rejected:two-or-more-pipes"]
            .iter()
            .map(|s| s.to_string())
            .collect();
        for (a, b) in [("UnionCal", "Cal"), ("UnionCal", "UnionCal"), ("UnionCal", "NamedCal"), ("NamedCal", "Cal"), ("NamedCal", "UnionCal"), ("NamedCal", "NamedCal"), ("Cal", "UnionCal"), ("Cal", "NamedCal")] {
            v.push(format!("eq:{}=={}:equal", a, b));
            v.push(format!("eq:{}=={}:unequal", a, b));
        }
        for c in ["weekend-holiday-added", "member-listed-twice", "order-changed", "weekday-holiday-added-to-member", "weekday-holiday-added-to-settlement-only", "difference-only-at-1970-01-01", "difference-only-at-2200-12-31", "members-and-settlement-swapped", "non-restrictive-settlement:empty-list", "non-restrictive-settlement:all"] {
            v.push(format!("eq-case:{}", c));
        }
        for k in ["Cal", "UnionCal", "NamedCal"] {
            v.push(format!("container:{}", k));
        }
        v.push("python-layer:__eq__".to_string());
        v.push("eq-case:plain-vs-single-member-name-with-settlement".to_string());
        v.push("eq-case:plain-with-weekend-holiday-vs-single-member-name".to_string());
        v
    }
    fn min_evaluations(&self, tier: Tier) -> u64 {
        tier.pick(5_000_000, 300_000_000)
    }
    fn rule(&self) -> String {
        "UnionCal definition: every date 1970-2200 (84371 dates) of unions built from all ordered pairs of built-ins (thorough; quick: each built-in paired with a rotating partner) and seeded random selections of 1-4 members x 0-3 settlement calendars from built-ins and random Cals, against the conjunction of the members' own predicates. NamedCal: name strings rendered from random selections (random letter case, ',' and '|') against the explicit UnionCal on every date; each name is followed, in the same process, by names made of the same calendars distributed differently around the pipe, each judged against its own parts. Rejections: random unknown words, one-letter typos of valid names, 2-4 pipes. Equality: near-miss pairs (equal behaviour from different structure; one-date differences incl. the two range end points; swapped member/settlement lists) in all kind pairings and both operand orders against date-by-date agreement computed by the harness. distinct_nontrivial = distinct calendars / pairs / strings.".into()
    }
    fn assumptions(&self) -> Vec<String> {
        vec![
            "built-in member predicates are read through get_calendar_by_name (their content is judged in C07); custom members are evaluated by the harness from their week mask and holiday list".into(),
            "Cal == Cal (derived, structural) and CalType's cross-variant == are not what the statement describes and are not asserted".into(),
        ]
    }
    fn run_case(&mut self, ctx: &mut Ctx, phase: usize, idx: u64, rng: &mut Rng) {
        match phase {
            0 => {
                let (i, j) = match ctx.tier {
                    Tier::Quick => (idx as usize, (idx as usize * 5 + 3 + ctx.seed as usize) % 14),
                    Tier::Thorough => ((idx / 14) as usize, (idx % 14) as usize),
                };
                let a = Member::new(CalSpec::Builtin(BUILTIN[i].into()));
                let b = Member::new(CalSpec::Builtin(BUILTIN[j].into()));
                match (a, b) {
                    (Some(a), Some(b)) => {
                        ctx.crumb(&format!("union {} {}", BUILTIN[i], BUILTIN[j]));
                        // second calendar once as a member, once as the settlement calendar
                        let b2 = Member::new(b.spec.clone()).unwrap();
                        check_union_definition(ctx, &[Member::new(a.spec.clone()).unwrap(), b], &None, "builtin-pair");
                        check_union_definition(ctx, &[a], &Some(vec![b2]), "builtin-with-settlement");
                    }
                    _ => ctx.violation("C06|name-unresolved", json!({"names": [BUILTIN[i], BUILTIN[j]]})),
                }
            }
            1 => {
                let nm = 1 + rng.usize(4);
                let ns = rng.usize(4);
                let members: Option<Vec<Member>> = (0..nm).map(|_| Member::new(gen_member(rng))).collect();
                // ns == 0: no settlement list at all, or an empty one (both mean "always a settlement day")
                let settle: Option<Option<Vec<Member>>> = if ns == 0 { if rng.bool() { Some(None) } else { Some(Some(vec![])) } } else { (0..ns).map(|_| Member::new(gen_member(rng))).collect::<Option<Vec<_>>>().map(Some) };
                match (members, settle) {
                    (Some(m), Some(s)) => {
                        ctx.crumb("random union");
                        check_union_definition(ctx, &m, &s, "random-selection");
                    }
                    _ => ctx.harness_error("member construction failed".into()),
                }
            }
            2 => {
                // a name string and the explicit union of its parts
                let nm = 1 + rng.usize(3);
                let ns = if rng.bool() { 0 } else { 1 + rng.usize(2) };
                let mn: Vec<&str> = (0..nm).map(|_| BUILTIN[rng.usize(14)]).collect();
                let sn: Vec<&str> = (0..ns).map(|_| BUILTIN[rng.usize(14)]).collect();
                // the name itself, then - in the same process, one request after the other - names made of the same
                // calendars distributed differently around the pipe: each must mean ITS OWN parts, whatever was
                // resolved before it
                let mut variants: Vec<(Vec<&str>, Vec<&str>)> = vec![(mn.clone(), sn.clone())];
                if ns > 0 {
                    variants.push((sn.clone(), mn.clone()));
                    let mut a = mn.clone();
                    a.push(sn[0]);
                    variants.push((a, sn[1..].to_vec()));
                }
                if nm >= 2 {
                    let mut b = vec![mn[nm - 1]];
                    b.extend(sn.iter().cloned());
                    variants.push((mn[..nm - 1].to_vec(), b));
                }
                // ... and the name's comma-separated pieces in another order (the piece holding the pipe moves as one:
                // "a,b|c,d" -> "d,b|c,a"), which also moves calendars from one side of the pipe to the other
                let joined: String = if ns > 0 { format!("{}|{}", mn.join(","), sn.join(",")) } else { mn.join(",") };
                let pieces: Vec<&str> = joined.split(',').collect();
                let mut reordered: Vec<String> = vec![];
                if pieces.len() >= 2 {
                    let mut rv = pieces.clone();
                    rv.reverse();
                    reordered.push(rv.join(","));
                    let mut rot = pieces.clone();
                    rot.rotate_left(1);
                    reordered.push(rot.join(","));
                }
                let reordered: Vec<String> = reordered.into_iter().filter(|x| *x != joined).collect();
                for nme in reordered.iter() {
                    let mut halves = nme.split('|');
                    let left: Vec<&str> = halves.next().unwrap_or("").split(',').collect();
                    let right: Vec<&str> = halves.next().map(|h| h.split(',').collect()).unwrap_or_default();
                    variants.push((left, right));
                }
                let mut rendered = String::new();
                for (vi, (mn, sn)) in variants.iter().enumerate() {
                    let (nm, ns) = (mn.len(), sn.len());
                    if vi > 0 {
                        ctx.class("named:same-calendars-redistributed-around-the-pipe");
                    }
                    let mut s = mn.join(",");
                    if ns > 0 {
                        s.push('|');
                        s.push_str(&sn.join(","));
                    }
                    let mixed = rng.chance(0.6);
                    rendered = if mixed { random_case(&s, rng) } else { s.clone() };
                    ctx.crumb(&format!("named {}", rendered));
                    ctx.class(if ns > 0 { "named:with-pipe" } else { "named:without-pipe" });
                    if rendered != s {
                        ctx.class("named:mixed-case");
                    }
                    let named = match NamedCal::try_new(&rendered) {
                        Ok(n) => n,
                        Err(_) => {
                            ctx.violation(&format!("C06|named-rejected|{}", if rendered != s { "mixed-case" } else { "lower-case" }), json!({"name": rendered}));
                            return;
                        }
                    };
                    let parts = |names: &[&str]| -> Option<Vec<Cal>> { names.iter().map(|n| get_calendar_by_name(n).ok()).collect() };
                    let (pm, ps) = match (parts(mn), parts(sn)) {
                        (Some(a), Some(b)) => (a, b),
                        _ => {
                            ctx.violation("C06|name-unresolved", json!({"names": mn}));
                            return;
                        }
                    };
                    let explicit = UnionCal::new(pm, if ns > 0 { Some(ps) } else { None });
                    let mut diff = None;
                    for z in Z_1970..=z_2200_end() {
                        let dt = to_ndt(z);
                        ctx.eval(2);
                        if named.is_bus_day(&dt) != explicit.is_bus_day(&dt) || named.is_settlement(&dt) != explicit.is_settlement(&dt) {
                            diff = Some(z);
                            break;
                        }
                    }
                    ctx.asserted(2 * (z_2200_end() + 1) as u64);
                    ctx.distinct(hash_u64s(&[crate::util::hash_str(&s)]));
                    if let Some(z) = diff {
                        ctx.violation(
                            &format!("C06|named-vs-explicit|{}|{}", if ns > 0 { "with-pipe" } else { "without-pipe" }, if nm > 1 || ns > 1 { "multi" } else { "single" }),
                            json!({"name": rendered, "members": mn, "settlement": sn, "first_differing_date": fmt_z(z),
                                   "named": {"bus": named.is_bus_day(&to_ndt(z)), "settle": named.is_settlement(&to_ndt(z))},
                                   "explicit": {"bus": explicit.is_bus_day(&to_ndt(z)), "settle": explicit.is_settlement(&to_ndt(z))}}),
                        );
                        return;
                    }
                    if !check_container(ctx, &named, &rateslib::calendars::CalType::NamedCal(named.clone()), "NamedCal", &json!({"name": rendered})) {
                        return;
                    }
                    // and they compare equal, both ways
                    check_eq(ctx, &K::N(named), &K::U(explicit), "named-vs-explicit-union", json!({"name": rendered}));
                }
                ctx.sample("named", || json!({"name": rendered, "members": mn, "settlement": sn}));
            }
            3 => {
                let bad: (String, &str) = match rng.below(3) {
                    0 => {
                        // a random word that is not a calendar name
                        loop {
                            let n = 3 + rng.usize(3);
                            let w: String = (0..n).map(|_| (b'a' + rng.below(26) as u8) as char).collect();
                            if !BUILTIN.contains(&w.as_str()) {
                                let prefix = if rng.bool() { format!("{},", BUILTIN[rng.usize(14)]) } else { String::new() };
                                break (format!("{}{}", prefix, w), "rejected:unknown-name");
                            }
                        }
                    }
                    1 => loop {
                        let base = BUILTIN[rng.usize(14)];
                        let mut b: Vec<u8> = base.bytes().collect();
                        let p = rng.usize(3);
                        b[p] = b'a' + rng.below(26) as u8;
                        let w = String::from_utf8(b).unwrap();
                        if !BUILTIN.contains(&w.as_str()) {
                            let s = if rng.bool() { format!("tgt|{}", w) } else { format!("{},ldn", w) };
                            break (s, "rejected:typo");
                        }
                    },
                    _ => {
                        let k = 2 + rng.usize(3);
                        let parts: Vec<&str> = (0..=k).map(|_| BUILTIN[rng.usize(14)]).collect();
                        (parts.join("|"), "rejected:two-or-more-pipes")
                    }
                };
                ctx.crumb(&format!("bad name {}", bad.0));
                let r = guarded(|| NamedCal::try_new(&bad.0).is_ok());
                ctx.eval(1);
                ctx.asserted(1);
                ctx.class(bad.1);
                ctx.distinct(hash_u64s(&[crate::util::hash_str(&bad.0)]));
                match r {
                    Caught::Ok(false) => {}
                    Caught::Ok(true) => ctx.violation(&format!("C06|accepted-bad-name|{}", bad.1), json!({"name": bad.0})),
                    Caught::Panic { loc, msg } => ctx.violation(&format!("C06|panic|try_new|{}", short_loc(&loc)), json!({"name": bad.0, "message": msg})),
                }
                ctx.sample(bad.1, || json!({"name": bad.0, "expected": "Err"}));
            }
            _ => {
                // equality near-misses built from one base selection
                let base_names: Vec<&str> = {
                    let n = 1 + rng.usize(2);
                    (0..n).map(|_| BUILTIN[2 + rng.usize(12)]).collect()
                };
                let settle_names: Vec<&str> = if rng.bool() { vec![BUILTIN[2 + rng.usize(12)]] } else { vec![] };
                let get = |ns: &[&str]| -> Vec<Cal> { ns.iter().map(|n| get_calendar_by_name(n).unwrap()).collect() };
                let members = get(&base_names);
                let settles = get(&settle_names);
                let opt = |v: &Vec<Cal>| if v.is_empty() { None } else { Some(v.clone()) };
                let base_u = UnionCal::new(members.clone(), opt(&settles));
                let name_str = format!("{}{}", base_names.join(","), if settle_names.is_empty() { String::new() } else { format!("|{}", settle_names.join(",")) });
                let base_n = NamedCal::try_new(&name_str).ok();
                // a weekday that is a business day everywhere, to plant a one-date difference
                let bb = bits_full(&base_u);
                let pick_bus = |rng: &mut Rng, lo: i64, hi: i64| -> Option<i64> {
                    for _ in 0..200 {
                        let z = lo + rng.below((hi - lo + 1) as u64) as i64;
                        if bb.is_bus(z) && bb.is_settle(z) {
                            return Some(z);
                        }
                    }
                    None
                };
                let with_extra = |c: &Cal, z: i64| -> Cal {
                    let mut h = rateslib::verif::cal_holidays(c);
                    h.push(to_ndt(z));
                    Cal::new(h, rateslib::verif::cal_week_mask(c))
                };
                let variant = idx % 9;
                let desc = json!({"members": base_names, "settlement": settle_names, "variant": variant});
                ctx.crumb(&format!("eq variant {} {}", variant, name_str));
                ctx.distinct(hash_u64s(&[idx, crate::util::hash_str(&name_str)]));
                let a_kinds: Vec<K> = {
                    let mut v = vec![K::U(base_u.clone())];
                    if let Some(n) = &base_n {
                        v.push(K::N(n.clone()));
                    }
                    v
                };
                match variant {
                    0 => {
                        // holiday added on a weekend: behaviour identical
                        let sat = (Z_1970..Z_1970 + 7).find(|z| weekday(*z) == 5).unwrap() + 7 * rng.range_i(0, 12000);
                        let mut m2 = members.clone();
                        m2[0] = with_extra(&m2[0], sat);
                        let b = K::U(UnionCal::new(m2, opt(&settles)));
                        for a in a_kinds.iter() {
                            check_eq(ctx, a, &b, "weekend-holiday-added", desc.clone());
                        }
                    }
                    1 => {
                        let mut m2 = members.clone();
                        m2.push(members[0].clone());
                        let b = K::U(UnionCal::new(m2, opt(&settles)));
                        for a in a_kinds.iter() {
                            check_eq(ctx, a, &b, "member-listed-twice", desc.clone());
                        }
                        let sfx = if settle_names.is_empty() { String::new() } else { format!("|{}", settle_names.join(",")) };
                        if let (Some(n1), Ok(n2)) = (&base_n, NamedCal::try_new(&format!("{},{}{}", base_names.join(","), base_names[0], sfx))) {
                            check_eq(ctx, &K::N(n1.clone()), &K::N(n2), "member-listed-twice", desc.clone());
                        }
                    }
                    2 => {
                        let mut m2 = members.clone();
                        m2.reverse();
                        let b = K::U(UnionCal::new(m2, opt(&settles)));
                        for a in a_kinds.iter() {
                            check_eq(ctx, a, &b, "order-changed", desc.clone());
                        }
                        let sfx = if settle_names.is_empty() { String::new() } else { format!("|{}", settle_names.join(",")) };
                        let mut rev = base_names.clone();
                        rev.reverse();
                        if let (Some(n1), Ok(n2)) = (&base_n, NamedCal::try_new(&format!("{}{}", rev.join(","), sfx).to_uppercase())) {
                            check_eq(ctx, &K::N(n1.clone()), &K::N(n2), "order-changed", desc.clone());
                        }
                        // a single plain calendar against the one-member union / name of itself
                        let single = members[0].clone();
                        let su = K::U(UnionCal::new(vec![single.clone()], None));
                        check_eq(ctx, &su, &K::C(single.clone()), "order-changed", desc.clone());
                        if let Ok(sn) = NamedCal::try_new(base_names[0]) {
                            check_eq(ctx, &K::N(sn), &K::C(single), "order-changed", desc.clone());
                        }
                    }
                    3 => {
                        if let Some(z) = pick_bus(rng, Z_1970 + 400, z_2200_end() - 400) {
                            let mut m2 = members.clone();
                            let k = rng.usize(m2.len());
                            m2[k] = with_extra(&m2[k], z);
                            let b = K::U(UnionCal::new(m2.clone(), opt(&settles)));
                            for a in a_kinds.iter() {
                                check_eq(ctx, a, &b, "weekday-holiday-added-to-member", desc.clone());
                            }
                            // whatever the selection: a plain calendar with one extra holiday against the
                            // one-member union and the name of the original calendar
                            let single = members[0].clone();
                            if let Some(zs) = (0..200).map(|_| Z_1970 + 400 + rng.below(80000) as i64).find(|z| single.is_bus_day(&to_ndt(*z))) {
                                let plus = K::C(with_extra(&single, zs));
                                check_eq(ctx, &K::U(UnionCal::new(vec![single.clone()], None)), &plus, "weekday-holiday-added-to-member", desc.clone());
                                if let Ok(sn) = NamedCal::try_new(base_names[0]) {
                                    check_eq(ctx, &K::N(sn), &plus, "weekday-holiday-added-to-member", desc.clone());
                                }
                            }
                            // plain calendar with one extra holiday against the named / union original
                            if members.len() == 1 && settles.is_empty() {
                                for a in a_kinds.iter() {
                                    check_eq(ctx, a, &K::C(m2[0].clone()), "weekday-holiday-added-to-member", desc.clone());
                                }
                            }
                        }
                    }
                    4 => {
                        if let Some(z) = pick_bus(rng, Z_1970 + 400, z_2200_end() - 400) {
                            // same business days, one settlement day differs
                            let s2: Vec<Cal> = if settles.is_empty() { vec![with_extra(&Cal::new(vec![], vec![]), z)] } else { vec![with_extra(&settles[0], z)] };
                            let b = K::U(UnionCal::new(members.clone(), Some(s2)));
                            for a in a_kinds.iter() {
                                check_eq(ctx, a, &b, "weekday-holiday-added-to-settlement-only", desc.clone());
                            }
                        }
                    }
                    5 | 6 => {
                        let z = if variant == 5 { Z_1970 } else { z_2200_end() };
                        let label = if variant == 5 { "difference-only-at-1970-01-01" } else { "difference-only-at-2200-12-31" };
                        if bb.is_bus(z) {
                            let mut m2 = members.clone();
                            m2[0] = with_extra(&m2[0], z);
                            let b = K::U(UnionCal::new(m2, opt(&settles)));
                            for a in a_kinds.iter() {
                                check_eq(ctx, a, &b, label, desc.clone());
                            }
                        } else {
                            // the end point is already a holiday in this selection: use the plain weekday calendar
                            let bus = get_calendar_by_name("bus").unwrap();
                            let a = K::U(UnionCal::new(vec![bus.clone()], None));
                            let b = K::C(with_extra(&bus, z));
                            check_eq(ctx, &a, &b, label, desc.clone());
                            if let Ok(n) = NamedCal::try_new("bus") {
                                check_eq(ctx, &K::N(n), &b, label, desc.clone());
                            }
                        }
                    }
                    8 => {
                        // settlement calendars that never block a date: behaviour identical to none at all
                        let all = get_calendar_by_name("all").unwrap();
                        let single = members[0].clone();
                        let plain = K::C(single.clone());
                        for (label, sc) in [("non-restrictive-settlement:empty-list", Some(vec![])), ("non-restrictive-settlement:all", Some(vec![all.clone()]))] {
                            let u = K::U(UnionCal::new(vec![single.clone()], sc.clone()));
                            check_eq(ctx, &plain, &u, label, desc.clone());
                            check_eq(ctx, &K::U(UnionCal::new(vec![single.clone()], None)), &u, label, desc.clone());
                            if let Ok(n) = NamedCal::try_new(base_names[0]) {
                                check_eq(ctx, &K::N(n), &u, label, desc.clone());
                            }
                        }
                        // a plain calendar against a name with ONE business-side member: with a settlement part that
                        // does restrict (unequal unless it happens not to), and against a date-equal but structurally
                        // different plain calendar (an extra holiday listed on a weekend: equal)
                        {
                            let other = BUILTIN[(idx as usize / 9 + 3) % BUILTIN.len()];
                            if let Ok(nr) = NamedCal::try_new(&format!("{}|{}", base_names[0], other)) {
                                check_eq(ctx, &plain, &K::N(nr), "plain-vs-single-member-name-with-settlement", desc.clone());
                            }
                            let sat = (Z_1970..Z_1970 + 7).find(|z| weekday(*z) == 5).unwrap() + 7 * rng.range_i(0, 12000);
                            if weekday(sat) == 5 && rateslib::verif::cal_week_mask(&single).contains(&5) {
                                if let Ok(n0) = NamedCal::try_new(base_names[0]) {
                                    check_eq(ctx, &K::C(with_extra(&single, sat)), &K::N(n0), "plain-with-weekend-holiday-vs-single-member-name", desc.clone());
                                }
                            }
                        }
                        if let (Ok(n1), Ok(n2)) = (NamedCal::try_new(&format!("{}|all", base_names[0])), NamedCal::try_new(base_names[0])) {
                            check_eq(ctx, &K::N(n1.clone()), &K::N(n2), "non-restrictive-settlement:all", desc.clone());
                            check_eq(ctx, &plain, &K::N(n1), "non-restrictive-settlement:all", desc.clone());
                        }
                    }
                    _ => {
                        // members and settlement lists swapped
                        let other = vec![get_calendar_by_name(BUILTIN[2 + rng.usize(12)]).unwrap()];
                        let a = K::U(UnionCal::new(members.clone(), Some(other.clone())));
                        let b = K::U(UnionCal::new(other.clone(), Some(members.clone())));
                        check_eq(ctx, &a, &b, "members-and-settlement-swapped", desc.clone());
                        if let (Ok(n1), Ok(n2)) = (NamedCal::try_new(&format!("{}|{}", base_names[0], BUILTIN[3])), NamedCal::try_new(&format!("{}|{}", BUILTIN[3], base_names[0]))) {
                            check_eq(ctx, &K::N(n1), &K::N(n2), "members-and-settlement-swapped", desc.clone());
                        }
                    }
                }
                ctx.sample(&format!("eq-variant-{}", variant), || desc.clone());
            }
        }
    }
}
