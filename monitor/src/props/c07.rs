//! C07 - built-in holiday calendars agree with their published rules (exhaustive sweep).

use crate::calmodel::{days_from_civil, fmt_z, to_ndt, weekday, z_2200_end, BUILTIN};
use crate::rng::Rng;
use crate::rules::{complete_rules, documented_rules, holiday_set, Rule};
use crate::sup::{ph, Ctx, PhaseSpec, Prop, Tier};
use crate::util::hash_u64s;
use rateslib::calendars::{get_calendar_by_name, DateRoll};
use serde_json::json;
use std::collections::BTreeSet;

pub struct C07 {}

impl C07 {
    pub fn new() -> Self {
        C07 {}
    }
}

const COMPLETE: [&str; 9] = ["tgt", "nyc", "fed", "ldn", "stk", "osl", "zur", "all", "bus"];
const PARTIAL: [&str; 5] = ["tro", "tyo", "syd", "wlg", "mum"];
const FIXINGS: [(&str, &str); 9] = [
    ("usd_rfr", "nyc"),
    ("gbp_rfr", "ldn"),
    ("cad_rfr", "tro"),
    ("eur_rfr", "tgt"),
    ("jpy_rfr", "tyo"),
    ("sek_rfr", "stk"),
    ("nok_rfr", "osl"),
    ("aud_rfr", "syd"),
    ("inr_rfr", "mum"),
];

fn which_rule(rules: &[Rule], z: i64) -> String {
    let (y, _, _) = crate::calmodel::civil_from_days(z);
    for r in rules {
        for yy in [y - 1, y, y + 1] {
            if r.date_in_year(yy) == Some(z) {
                return r.name.to_string();
            }
        }
    }
    "no rule".to_string()
}

impl Prop for C07 {
    fn id(&self) -> &'static str {
        "C07"
    }
    fn phases(&self, _tier: Tier) -> Vec<PhaseSpec> {
        vec![
            ph("complete-rule-sweep", COMPLETE.len() as u64),
            ph("fed-is-nyc-minus-good-friday", 1),
            ph("documented-fixed-and-easter-holidays", PARTIAL.len() as u64),
            ph("documented-names-resolve", BUILTIN.len() as u64),
            ph("fixing-history-back-tests", FIXINGS.len() as u64),
        ]
    }
    fn workers(&self, _tier: Tier) -> usize {
        8
    }
    fn exhaustive(&self, _tier: Tier) -> bool {
        true
    }
    fn required_classes(&self, _tier: Tier) -> Vec<String> {
        let mut v = vec![];
        for c in COMPLETE {
            v.push(format!("swept:{}", c));
        }
        for c in PARTIAL {
            v.push(format!("documented:{}", c));
        }
        for (f, _) in FIXINGS {
            v.push(format!("fixings:{}", f));
        }
        v.push("fed-vs-nyc".into());
        for c in ["restored:json", "restored:pickle-state", "via-NamedCal", "in-comma-list", "python-layer:get_calendar_by_name", "python-layer:views-of-the-built-in-calendar", "range-with-holiday-start", "range-with-holiday-end"] {
            v.push(c.to_string());
        }
        v.push("fixings:other-forms-of-the-calendar".to_string());
        v
    }
    fn min_evaluations(&self, _tier: Tier) -> u64 {
        800_000
    }
    fn rule(&self) -> String {
        "Exhaustive: every date 1970-01-01..2200-12-31 of the 9 fully specified calendars (tgt nyc fed ldn stk osl zur all bus) compared with the hand-transcribed rule engine; fed compared with nyc minus Good Friday; every documented fixed-date / Easter-linked holiday of tro tyo syd wlg mum; all 14 documented names, each also as a Python user sees it (the object from the Python get_calendar_by_name, NamedCal(name) and a one-member UnionCal through the Python-facing holidays / week_mask / is_bus_day / is_non_bus_day on every date and bus_date_range over the whole span; ranges that start or end on one of its holidays are refused or list exactly the business days); the 9 fixing files. A case is non-trivial and distinct per (calendar, date) on which the table or the rules place a holiday, or per fixing-file date.".into()
    }
    fn assumptions(&self) -> Vec<String> {
        vec![
            "rule tables in monitor/src/rules.rs are a faithful hand transcription of rust/calendars/named/*_script.py (pandas Holiday semantics: offsets, observances, inclusive start/end filters on the resulting date)".into(),
            "Easter by the anonymous Gregorian computus; civil-date arithmetic by Hinnant's algorithms (self-tested)".into(),
            "for tro/tyo/syd/wlg/mum only documented fixed-date and Easter-linked holidays are asserted (one direction); Olympic-shifted days 2020-21, equinoxes and Matariki are not asserted".into(),
        ]
    }

    fn run_case(&mut self, ctx: &mut Ctx, phase: usize, idx: u64, _rng: &mut Rng) {
        let z_lo = days_from_civil(1970, 1, 1);
        let z_hi = z_2200_end();
        match phase {
            0 => {
                let name = COMPLETE[idx as usize];
                ctx.crumb(&format!("sweep {}", name));
                let cal = match get_calendar_by_name(name) {
                    Ok(c) => c,
                    Err(_) => {
                        ctx.violation(&format!("C07|name-unresolved|{}", name), json!({"name": name}));
                        return;
                    }
                };
                let (want_mask, hol): (Vec<i64>, BTreeSet<i64>) = match name {
                    "all" => (vec![], BTreeSet::new()),
                    "bus" => (vec![5, 6], BTreeSet::new()),
                    _ => (vec![5, 6], holiday_set(complete_rules(name).unwrap())),
                };
                let rules: &[Rule] = complete_rules(name).unwrap_or(&[]);
                let mut missing: Vec<i64> = vec![];
                let mut extra: Vec<i64> = vec![];
                let mut mask_bad: Vec<i64> = vec![];
                for z in z_lo..=z_hi {
                    let dt = to_ndt(z);
                    let wd = weekday(z);
                    let is_wd = cal.is_weekday(&dt);
                    let want_wd = !want_mask.contains(&wd);
                    ctx.eval(1);
                    if is_wd != want_wd {
                        mask_bad.push(z);
                    }
                    let real = cal.is_holiday(&dt);
                    ctx.eval(1);
                    // only weekdays are asserted for holiday rules (weekend entries are immaterial)
                    if want_wd {
                        let want = hol.contains(&z);
                        if real || want {
                            ctx.distinct(hash_u64s(&[crate::util::hash_str(name), z as u64]));
                        }
                        if want && !real {
                            missing.push(z);
                        } else if real && !want {
                            extra.push(z);
                        }
                    } else if matches!(name, "all" | "bus") && real {
                        extra.push(z);
                    }
                }
                ctx.asserted(2 * (z_hi - z_lo + 1) as u64);
                ctx.class(&format!("swept:{}", name));
                ctx.sample(&format!("sweep:{}", name), || {
                    json!({"calendar": name, "dates": format!("{}..{}", fmt_z(z_lo), fmt_z(z_hi)),
                           "rule_holidays_on_weekdays": hol.iter().filter(|z| weekday(**z) < 5).count(),
                           "first_rule_holidays": hol.iter().take(6).map(|z| fmt_z(*z)).collect::<Vec<_>>() })
                });
                if !mask_bad.is_empty() {
                    ctx.violation(
                        &format!("C07|weekmask|{}", name),
                        json!({"calendar": name, "dates_with_wrong_weekday_flag": mask_bad.len(), "first": mask_bad.iter().take(10).map(|z| fmt_z(*z)).collect::<Vec<_>>()}),
                    );
                }
                // group by the rule that explains the date so one defect gives one signature
                let mut by_rule: std::collections::BTreeMap<String, Vec<i64>> = Default::default();
                for z in missing {
                    by_rule.entry(format!("missing|{}", which_rule(rules, z))).or_default().push(z);
                }
                for z in extra {
                    // an extra date may be another calendar's rule (e.g. nyc's Good Friday in fed)
                    let mut why = "no rule".to_string();
                    for other in ["nyc", "tgt", "ldn"] {
                        if let Some(rs) = complete_rules(other) {
                            let w = which_rule(rs, z);
                            if w != "no rule" {
                                why = format!("{}:{}", other, w);
                                break;
                            }
                        }
                    }
                    by_rule.entry(format!("extra|{}", why)).or_default().push(z);
                }
                for (k, zs) in by_rule {
                    // one-off dates are identified individually, recurring rules by rule name
                    let sig = if zs.len() <= 3 {
                        format!("C07|rules|{}|{}|{}", name, k, zs.iter().map(|z| fmt_z(*z)).collect::<Vec<_>>().join(","))
                    } else {
                        format!("C07|rules|{}|{}", name, k)
                    };
                    ctx.violation(
                        &sig,
                        json!({"calendar": name, "kind": k, "n_dates": zs.len(),
                               "first_dates": zs.iter().take(12).map(|z| fmt_z(*z)).collect::<Vec<_>>(),
                               "expected": "is_holiday on a weekday iff the published rules make it one",
                        }),
                    );
                }
            }
            1 => {
                ctx.crumb("fed vs nyc");
                let (fed, nyc) = match (get_calendar_by_name("fed"), get_calendar_by_name("nyc")) {
                    (Ok(a), Ok(b)) => (a, b),
                    _ => {
                        ctx.violation("C07|name-unresolved|fed-or-nyc", json!({}));
                        return;
                    }
                };
                let mut bad_gf = vec![];
                let mut bad_other = vec![];
                for z in z_lo..=z_hi {
                    if weekday(z) >= 5 {
                        continue;
                    }
                    let (y, _, _) = crate::calmodel::civil_from_days(z);
                    let gf = crate::calmodel::easter(y) - 2;
                    let dt = to_ndt(z);
                    let f = fed.is_holiday(&dt);
                    let n = nyc.is_holiday(&dt);
                    ctx.eval(2);
                    ctx.asserted(1);
                    if z == gf {
                        ctx.distinct(hash_u64s(&[77, z as u64]));
                        if f || !n {
                            bad_gf.push(z);
                        }
                    } else if f != n {
                        bad_other.push(z);
                    }
                }
                ctx.class("fed-vs-nyc");
                if !bad_gf.is_empty() {
                    ctx.violation(
                        "C07|fed-vs-nyc|good-friday",
                        json!({"what": "on Good Friday nyc must be a holiday and fed must not", "n_dates": bad_gf.len(),
                               "first_dates": bad_gf.iter().take(12).map(|z| fmt_z(*z)).collect::<Vec<_>>()}),
                    );
                }
                if !bad_other.is_empty() {
                    ctx.violation(
                        "C07|fed-vs-nyc|other-day",
                        json!({"what": "fed and nyc differ on a weekday that is not Good Friday", "n_dates": bad_other.len(),
                               "first_dates": bad_other.iter().take(12).map(|z| fmt_z(*z)).collect::<Vec<_>>()}),
                    );
                }
            }
            2 => {
                let name = PARTIAL[idx as usize];
                ctx.crumb(&format!("documented {}", name));
                let cal = match get_calendar_by_name(name) {
                    Ok(c) => c,
                    Err(_) => {
                        ctx.violation(&format!("C07|name-unresolved|{}", name), json!({"name": name}));
                        return;
                    }
                };
                let rules = documented_rules(name).unwrap();
                // week mask Sat+Sun as documented for every one of these
                for z in z_lo..z_lo + 14 {
                    ctx.eval(1);
                    if cal.is_weekday(&to_ndt(z)) != (weekday(z) < 5) {
                        ctx.violation(&format!("C07|weekmask|{}", name), json!({"calendar": name, "date": fmt_z(z)}));
                        break;
                    }
                }
                for r in rules {
                    let mut miss = vec![];
                    for y in 1969..=2201 {
                        if let Some(z) = r.date_in_year(y) {
                            if z < z_lo || z > z_hi || weekday(z) >= 5 {
                                continue;
                            }
                            ctx.eval(1);
                            ctx.asserted(1);
                            ctx.distinct(hash_u64s(&[crate::util::hash_str(name), z as u64]));
                            if !cal.is_holiday(&to_ndt(z)) {
                                miss.push(z);
                            }
                        }
                    }
                    if !miss.is_empty() {
                        let sig = if miss.len() <= 3 {
                            format!("C07|documented|{}|{}|{}", name, r.name, miss.iter().map(|z| fmt_z(*z)).collect::<Vec<_>>().join(","))
                        } else {
                            format!("C07|documented|{}|{}", name, r.name)
                        };
                        ctx.violation(&sig, json!({"calendar": name, "rule": r.name, "n_dates": miss.len(),
                            "first_dates": miss.iter().take(12).map(|z| fmt_z(*z)).collect::<Vec<_>>(),
                            "expected": "a weekday occurrence of a documented fixed-date / Easter-linked holiday is a holiday"}));
                    }
                }
                ctx.class(&format!("documented:{}", name));
                ctx.sample(&format!("documented:{}", name), || json!({"calendar": name, "rules": rules.iter().map(|r| r.name).collect::<Vec<_>>()}));
            }
            3 => {
                let name = BUILTIN[idx as usize];
                ctx.crumb(&format!("resolve {}", name));
                ctx.eval(1);
                ctx.asserted(1);
                ctx.class("name-resolves");
                let cal = match get_calendar_by_name(name) {
                    Ok(c) => c,
                    Err(_) => {
                        ctx.violation(&format!("C07|name-unresolved|{}", name), json!({"name": name}));
                        return;
                    }
                };
                // the Python-facing module function get_calendar_by_name hands out the same calendar
                match rateslib::verif::verif_py_get_calendar_by_name(name) {
                    Ok(pc) => {
                        ctx.eval(1);
                        ctx.asserted(1);
                        ctx.class("python-layer:get_calendar_by_name");
                        if rateslib::verif::cal_holidays(&pc) != rateslib::verif::cal_holidays(&cal) || rateslib::verif::cal_week_mask(&pc) != rateslib::verif::cal_week_mask(&cal) {
                            ctx.violation("C07|python-layer|get_calendar_by_name", json!({"name": name}));
                            return;
                        }
                    }
                    Err(()) => {
                        ctx.violation(&format!("C07|python-layer|name-unresolved|{}", name), json!({"name": name}));
                        return;
                    }
                }
                // what a Python user sees of the calendar - the plain object, the NamedCal of that name and a
                // one-member union, through the Python-facing methods: holiday list, week mask, the day predicates
                // on every date 1970-2200 and the enumerated business days from the first to the last business day of the span
                {
                    let want: Vec<i64> = (z_lo..=z_hi).filter(|z| cal.is_bus_day(&to_ndt(*z))).collect();
                    let core_h = {
                        let mut h = rateslib::verif::cal_holidays(&cal);
                        h.sort();
                        h
                    };
                    let core_wm: std::collections::HashSet<u8> = rateslib::verif::cal_week_mask(&cal).into_iter().collect();
                    let pyc = rateslib::verif::verif_py_get_calendar_by_name(name).ok();
                    let pyn = rateslib::calendars::NamedCal::verif_py_new(name.to_string()).ok();
                    let pyu = rateslib::calendars::UnionCal::verif_py_new(vec![cal.clone()], None).ok();
                    macro_rules! view {
                        ($label:expr, $o:expr) => {{
                            ctx.class("python-layer:views-of-the-built-in-calendar");
                            ctx.eval(3 + (z_hi - z_lo + 1) as u64);
                            ctx.asserted(3 + (z_hi - z_lo + 1) as u64);
                            let o = match $o.as_ref() {
                                Some(o) => o,
                                None => {
                                    ctx.violation(&format!("C07|python-layer|{}|constructor-refused", $label), json!({"name": name}));
                                    return;
                                }
                            };
                            let mut h = o.verif_py_holidays();
                            h.sort();
                            if h != core_h || o.verif_py_week_mask() != core_wm {
                                ctx.violation(&format!("C07|python-layer|{}|holidays-or-week-mask-differ", $label), json!({"name": name, "n_holidays": h.len(), "n_core": core_h.len()}));
                                return;
                            }
                            let listed: Option<Vec<i64>> = o.verif_py_bus_date_range(to_ndt(want[0]), to_ndt(*want.last().unwrap())).ok().map(|v| v.iter().map(crate::calmodel::from_ndt).collect());
                            if listed.as_ref() != Some(&want) {
                                let first = listed.as_ref().and_then(|l| (0..want.len().max(l.len())).find(|i| want.get(*i) != l.get(*i)).map(|i| (want.get(i).map(|z| fmt_z(*z)), l.get(i).map(|z| fmt_z(*z)))));
                                ctx.violation(&format!("C07|python-layer|{}|bus_date_range-differs", $label), json!({"name": name, "n_business_days": want.len(), "n_listed": listed.as_ref().map(|l| l.len()), "first_difference (expected, listed)": first}));
                                return;
                            }
                            for z in z_lo..=z_hi {
                                let dt = to_ndt(z);
                                if o.verif_py_is_bus_day(dt) != cal.is_bus_day(&dt) || o.verif_py_is_non_bus_day(dt) == cal.is_bus_day(&dt) {
                                    ctx.violation(&format!("C07|python-layer|{}|is_bus_day-differs", $label), json!({"name": name, "date": fmt_z(z)}));
                                    return;
                                }
                            }
                        }};
                    }
                    view!("Cal", pyc);
                    view!("NamedCal", pyn);
                    view!("UnionCal", pyu);
                    // a range that starts or ends ON a holiday of the calendar (every 25th weekday holiday of the span):
                    // refused, or exactly the business days of the range - a holiday is never listed as a business day
                    let hol: Vec<i64> = (z_lo..=z_hi - 40).filter(|z| cal.is_weekday(&to_ndt(*z)) && cal.is_holiday(&to_ndt(*z))).collect();
                    for h in hol.iter().step_by(25) {
                        let nb = match (h + 8..h + 40).find(|z| cal.is_bus_day(&to_ndt(*z))) {
                            Some(z) => z,
                            None => continue,
                        };
                        let pb = match (h - 40..h - 8).rev().find(|z| *z >= z_lo && cal.is_bus_day(&to_ndt(*z))) {
                            Some(z) => z,
                            None => continue,
                        };
                        for (label, a, b) in [("holiday-start", *h, nb), ("holiday-end", pb, *h)] {
                            ctx.class(&format!("range-with-{}", label));
                            ctx.eval(2);
                            ctx.asserted(2);
                            let want: Vec<i64> = (a..=b).filter(|z| cal.is_bus_day(&to_ndt(*z))).collect();
                            let core: Option<Vec<i64>> = cal.bus_date_range(&to_ndt(a), &to_ndt(b)).ok().map(|v| v.iter().map(crate::calmodel::from_ndt).collect());
                            let py: Option<Vec<i64>> = pyn.as_ref().and_then(|o| o.verif_py_bus_date_range(to_ndt(a), to_ndt(b)).ok()).map(|v| v.iter().map(crate::calmodel::from_ndt).collect());
                            for (route, got) in [("core", core), ("python-layer NamedCal", py)] {
                                if let Some(g) = got {
                                    if g != want {
                                        ctx.violation(&format!("C07|range-with-{}|holiday-listed-as-business-day", label), json!({"name": name, "route": route, "start": fmt_z(a), "end": fmt_z(b), "holiday": fmt_z(*h), "n_listed": g.len(), "n_business_days": want.len(), "holiday_listed": g.contains(h)}));
                                        return;
                                    }
                                }
                            }
                        }
                    }
                }
                // a built-in calendar that has been saved and loaded again (JSON, pickle state) still reports the
                // same holidays on every date 1970-2200; so does the calendar reached through a NamedCal
                let restored: Vec<(&str, Option<rateslib::calendars::Cal>)> = vec![
                    ("json", serde_json::to_string(&cal).ok().and_then(|j| serde_json::from_str(&j).ok())),
                    ("pickle-state", bincode::serialize(&cal).ok().and_then(|b| bincode::deserialize(&b).ok())),
                ];
                let named = rateslib::calendars::NamedCal::try_new(name).ok();
                for (how, r) in restored.iter() {
                    ctx.class(&format!("restored:{}", how));
                    let r = match r {
                        Some(r) => r,
                        None => {
                            ctx.violation(&format!("C07|restored|{}|error", how), json!({"name": name}));
                            return;
                        }
                    };
                    for z in z_lo..=z_hi {
                        let dt = to_ndt(z);
                        ctx.eval(1);
                        if r.is_holiday(&dt) != cal.is_holiday(&dt) || r.is_weekday(&dt) != cal.is_weekday(&dt) {
                            ctx.violation(&format!("C07|restored|{}|holidays-differ", how), json!({"name": name, "date": fmt_z(z), "fresh_is_holiday": cal.is_holiday(&dt), "restored_is_holiday": r.is_holiday(&dt)}));
                            return;
                        }
                    }
                    ctx.asserted((z_hi - z_lo + 1) as u64);
                }
                // the name inside a comma list: a weekday is a holiday of "x,y" exactly when it is one of x or of y
                for step in [1usize, 5] {
                    let other = BUILTIN[(idx as usize + step) % BUILTIN.len()];
                    let (oc, pair) = match (get_calendar_by_name(other), rateslib::calendars::NamedCal::try_new(&format!("{},{}", name, other))) {
                        (Ok(a), Ok(b)) => (a, b),
                        _ => {
                            ctx.violation(&format!("C07|name-unresolved-in-list|{},{}", name, other), json!({"name": format!("{},{}", name, other)}));
                            return;
                        }
                    };
                    ctx.class("in-comma-list");
                    for z in z_lo..=z_hi {
                        let dt = to_ndt(z);
                        ctx.eval(1);
                        let want_h = cal.is_holiday(&dt) || oc.is_holiday(&dt);
                        let want_b = cal.is_bus_day(&dt) && oc.is_bus_day(&dt);
                        if pair.is_holiday(&dt) != want_h || pair.is_bus_day(&dt) != want_b {
                            ctx.violation("C07|in-comma-list|holidays-differ", json!({"name": format!("{},{}", name, other), "date": fmt_z(z), "is_holiday": pair.is_holiday(&dt), "expected_holiday": want_h, "is_bus_day": pair.is_bus_day(&dt), "expected_bus_day": want_b}));
                            return;
                        }
                    }
                    ctx.asserted(2 * (z_hi - z_lo + 1) as u64);
                }
                match named {
                    Some(nc) => {
                        ctx.class("via-NamedCal");
                        for z in z_lo..=z_hi {
                            let dt = to_ndt(z);
                            ctx.eval(1);
                            if nc.is_holiday(&dt) != cal.is_holiday(&dt) || nc.is_weekday(&dt) != cal.is_weekday(&dt) {
                                ctx.violation("C07|via-NamedCal|holidays-differ", json!({"name": name, "date": fmt_z(z)}));
                                return;
                            }
                        }
                        ctx.asserted((z_hi - z_lo + 1) as u64);
                    }
                    None => ctx.violation(&format!("C07|name-unresolved-as-NamedCal|{}", name), json!({"name": name})),
                }
            }
            4 => {
                let (file, calname) = FIXINGS[idx as usize];
                ctx.crumb(&format!("fixings {}", file));
                let repo = std::env::var("VERIF_REPO_PATH").unwrap_or_else(|_| "/repo".into());
                let path = format!("{}/python/rateslib/data/{}.csv", repo, file);
                let txt = match std::fs::read_to_string(&path) {
                    Ok(t) => t,
                    Err(e) => {
                        ctx.harness_error(format!("cannot read {}: {}", path, e));
                        return;
                    }
                };
                let mut dates: BTreeSet<i64> = BTreeSet::new();
                for (ln, line) in txt.lines().enumerate() {
                    let line = line.trim_start_matches('\u{feff}').trim();
                    if ln == 0 || line.is_empty() {
                        continue;
                    }
                    let d = line.split(',').next().unwrap_or("");
                    let p: Vec<&str> = d.split('-').collect();
                    if p.len() != 3 {
                        ctx.harness_error(format!("{}: bad line {}", file, line));
                        return;
                    }
                    match (p[0].parse::<i64>(), p[1].parse::<i64>(), p[2].parse::<i64>()) {
                        (Ok(dd), Ok(mm), Ok(yy)) => {
                            dates.insert(days_from_civil(yy, mm, dd));
                        }
                        _ => {
                            ctx.harness_error(format!("{}: bad date {}", file, d));
                            return;
                        }
                    }
                }
                if dates.len() < 100 {
                    ctx.harness_error(format!("{}: only {} dates parsed", file, dates.len()));
                    return;
                }
                let cal = match get_calendar_by_name(calname) {
                    Ok(c) => c,
                    Err(_) => {
                        ctx.violation(&format!("C07|name-unresolved|{}", calname), json!({"name": calname}));
                        return;
                    }
                };
                let first = *dates.iter().next().unwrap();
                let last = *dates.iter().next_back().unwrap();
                let mut n_bad = 0;
                for z in first..=last {
                    let bus = cal.is_bus_day(&to_ndt(z));
                    ctx.eval(1);
                    ctx.asserted(1);
                    let publ = dates.contains(&z);
                    if publ {
                        ctx.distinct(hash_u64s(&[crate::util::hash_str(file), z as u64]));
                    }
                    if bus != publ {
                        n_bad += 1;
                        let kind = if publ { "published-on-a-non-business-day" } else { "business-day-without-publication" };
                        ctx.violation(
                            &format!("C07|fixings|{}|{}|{}", file, fmt_z(z), kind),
                            json!({"file": file, "calendar": calname, "date": fmt_z(z), "kind": kind}),
                        );
                        if n_bad > 50 {
                            break;
                        }
                    }
                }
                // the same comparison the repository's own back-test makes, through bus_date_range
                match cal.bus_date_range(&to_ndt(first), &to_ndt(last)) {
                    Ok(v) => {
                        ctx.eval(1);
                        let got: BTreeSet<i64> = v.iter().map(crate::calmodel::from_ndt).collect();
                        if got != dates && n_bad == 0 {
                            ctx.violation(&format!("C07|fixings|{}|bus_date_range-differs", file), json!({"file": file, "n_range": got.len(), "n_published": dates.len()}));
                        }
                    }
                    Err(_) => {
                        if n_bad == 0 {
                            ctx.violation(&format!("C07|fixings|{}|bus_date_range-error", file), json!({"file": file}));
                        }
                    }
                }
                // the business days of the calendar do not depend on how it is reached: by name string, with an
                // unrelated settlement calendar attached ("name|other": settlement restricts settlement, not
                // business days), or inside the CalType container - the enumerated range is the publication dates
                if n_bad == 0 {
                    let other = if calname == "fed" || calname == "nyc" { "tgt" } else { "fed" };
                    let forms: Vec<(String, Option<rateslib::calendars::CalType>)> = vec![
                        (calname.to_string(), rateslib::calendars::NamedCal::try_new(calname).ok().map(rateslib::calendars::CalType::NamedCal)),
                        (format!("{}|{}", calname, other), rateslib::calendars::NamedCal::try_new(&format!("{}|{}", calname, other)).ok().map(rateslib::calendars::CalType::NamedCal)),
                        (format!("UnionCal([{}], Some([{}]))", calname, other), get_calendar_by_name(other).ok().map(|o| rateslib::calendars::CalType::UnionCal(rateslib::calendars::UnionCal::new(vec![cal.clone()], Some(vec![o]))))),
                    ];
                    for (label, ct) in forms.iter() {
                        ctx.eval(1);
                        ctx.asserted(1);
                        ctx.class("fixings:other-forms-of-the-calendar");
                        let listed: Option<BTreeSet<i64>> = ct.as_ref().and_then(|c| match c {
                            rateslib::calendars::CalType::NamedCal(nc) => nc.bus_date_range(&to_ndt(first), &to_ndt(last)).ok(),
                            rateslib::calendars::CalType::UnionCal(uc) => uc.bus_date_range(&to_ndt(first), &to_ndt(last)).ok(),
                            rateslib::calendars::CalType::Cal(cc) => cc.bus_date_range(&to_ndt(first), &to_ndt(last)).ok(),
                        }).map(|v| v.iter().map(crate::calmodel::from_ndt).collect());
                        let wrapped: Option<BTreeSet<i64>> = ct.as_ref().and_then(|c| c.bus_date_range(&to_ndt(first), &to_ndt(last)).ok()).map(|v| v.iter().map(crate::calmodel::from_ndt).collect());
                        if listed.as_ref() != Some(&dates) || wrapped.as_ref() != Some(&dates) {
                            ctx.violation(
                                &format!("C07|fixings|{}|bus_date_range-differs-for-other-form", file),
                                json!({"file": file, "calendar_form": label, "n_published": dates.len(), "n_listed": listed.map(|l| l.len()), "n_listed_inside_CalType": wrapped.map(|l| l.len())}),
                            );
                            break;
                        }
                    }
                }
                ctx.class(&format!("fixings:{}", file));
                ctx.sample(&format!("fixings:{}", file), || json!({"file": file, "calendar": calname, "span": format!("{}..{}", fmt_z(first), fmt_z(last)), "publication_dates": dates.len()}));
            }
            _ => {}
        }
    }
}
