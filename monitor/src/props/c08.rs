//! C08 - month arithmetic and roll-day rules follow calendar arithmetic.

use super::c04::{mod_name, MODS};
use crate::calmodel::*;
use crate::rng::Rng;
use crate::sup::{guarded, is_harness_location, ph, short_loc, Caught, Ctx, PhaseSpec, Prop, Tier};
use crate::util::hash_u64s;
use crate::with_cal;
use rateslib::calendars::{get_eom, get_imm, get_roll, is_eom, is_imm, is_leap_year, DateRoll, Modifier, RollDay};
use serde_json::{json, Value};

pub struct C08 {}

impl C08 {
    pub fn new() -> Self {
        C08 {}
    }
}

fn roll_kinds() -> Vec<RollDay> {
    let mut v = vec![RollDay::Unspecified {}, RollDay::EoM {}, RollDay::SoM {}, RollDay::IMM {}];
    for d in 1..=31 {
        v.push(RollDay::Int { day: d });
    }
    v
}

fn roll_name(r: &RollDay) -> String {
    match r {
        RollDay::Unspecified {} => "Unspecified".into(),
        RollDay::EoM {} => "EoM".into(),
        RollDay::SoM {} => "SoM".into(),
        RollDay::IMM {} => "IMM".into(),
        RollDay::Int { day } => format!("Int({})", day),
    }
}

/// third Wednesday, by own arithmetic
fn third_wednesday(y: i64, m: i64) -> i64 {
    let first = days_from_civil(y, m, 1);
    let to_wed = (2 - weekday(first)).rem_euclid(7);
    first + to_wed + 14
}

/// the statement: the date in the month exactly `months` away whose day is the requested roll day
/// capped at that month's length
fn expected_unadjusted(z: i64, months: i64, roll: &RollDay) -> (i64, &'static str) {
    let (y, mo, d) = civil_from_days(z);
    let total = y * 12 + (mo - 1) + months;
    let ny = total.div_euclid(12);
    let nm = total.rem_euclid(12) + 1;
    let dim = days_in_month(ny, nm);
    let req = match roll {
        RollDay::Unspecified {} => d,
        RollDay::EoM {} => 31,
        RollDay::SoM {} => 1,
        RollDay::Int { day } => *day as i64,
        RollDay::IMM {} => return (third_wednesday(ny, nm), "imm"),
    };
    let cap = if req <= dim {
        "none"
    } else {
        match dim {
            30 => "capped-to-30",
            29 => "capped-to-29",
            _ => "capped-to-28",
        }
    };
    (days_from_civil(ny, nm, req.min(dim)), cap)
}

fn branch_class(z: i64, months: i64) -> String {
    let (_, mo, _) = civil_from_days(z);
    let rem = months - (months.abs() / 12) * months.signum() * 12;
    let mt = mo + rem;
    let b = if mt <= 0 {
        "month-total<=0"
    } else if mt == 12 {
        "month-total=12"
    } else if mt >= 13 {
        "month-total>=13"
    } else {
        "month-total-1..11"
    };
    let s = if months < 0 {
        "neg"
    } else if months == 0 {
        "zero"
    } else {
        "pos"
    };
    let mult = if months != 0 && months % 12 == 0 { ":multiple-of-12" } else { "" };
    format!("{}:{}{}", b, s, mult)
}

const OFFSETS_EXTRA: [i64; 10] = [48, -48, 60, -60, 120, -120, 600, -600, 1200, -1200];

fn offsets() -> Vec<i64> {
    let mut v: Vec<i64> = (-36..=36).collect();
    v.extend(OFFSETS_EXTRA);
    v
}

struct Act<'a, C: DateRoll> {
    cal: &'a C,
}

fn check_act<C: DateRoll>(ctx: &mut Ctx, a: &Act<C>, z: i64, months: i64, roll: &RollDay, settlement: bool) -> bool {
    let (want, cap) = expected_unadjusted(z, months, roll);
    if want < Z_1970 || want > z_2200_end() {
        return true; // outside the supported range of the statement
    }
    let dt = to_ndt(z);
    let got = guarded(|| a.cal.add_months(&dt, months as i32, &Modifier::Act, roll, settlement));
    ctx.eval(1);
    ctx.asserted(1);
    let case = || json!({"start": fmt_z(z), "months": months, "roll": roll_name(roll), "modifier": "Act", "settlement": settlement});
    match got {
        Caught::Ok(g) => {
            let bc = branch_class(z, months);
            ctx.class(&format!("{}:{}", bc, cap));
            if from_ndt(&g) != want || g != to_ndt(want) {
                let rk = match roll {
                    RollDay::Int { .. } => "Int".to_string(),
                    other => roll_name(other),
                };
                ctx.violation(&format!("C08|add_months|{}|{}|{}", rk, bc, cap), json!({"case": case(), "observed": g.to_string(), "expected": fmt_z(want)}));
                return false;
            }
            true
        }
        Caught::Panic { loc, msg } => {
            if is_harness_location(&loc) {
                ctx.harness_error(format!("{} {}", loc, msg));
            } else {
                ctx.violation(&format!("C08|panic|add_months|{}", short_loc(&loc)), json!({"case": case(), "location": loc, "message": msg}));
            }
            false
        }
    }
}

impl Prop for C08 {
    fn id(&self) -> &'static str {
        "C08"
    }
    fn phases(&self, tier: Tier) -> Vec<PhaseSpec> {
        vec![
            ph("boundary set (leap / century years x month ends x offsets)", 10),
            ph(tier.pick("random (date, offset, roll) triples", "every start date 1970-2200 x offsets x roll kinds"), tier.pick(300, 231)),
            ph("get_imm / get_eom / is_imm / is_eom / is_leap_year / get_roll", 1),
            ph("adjusting modifiers on the calendar zoo", tier.pick(40, 3000)),
        ]
    }
    fn required_classes(&self, _tier: Tier) -> Vec<String> {
        let mut v = vec![];
        for b in ["month-total<=0:neg", "month-total-1..11:neg", "month-total-1..11:pos", "month-total=12:pos", "month-total=12:neg:multiple-of-12", "month-total>=13:pos", "month-total-1..11:zero", "month-total-1..11:pos:multiple-of-12", "month-total-1..11:neg:multiple-of-12", "month-total=12:pos:multiple-of-12"] {
            v.push(format!("{}:none", b));
        }
        for c in ["capped-to-30", "capped-to-29", "capped-to-28", "imm"] {
            v.push(format!("month-total-1..11:pos:{}", c));
            v.push(format!("month-total<=0:neg:{}", c));
            v.push(format!("month-total>=13:pos:{}", c));
        }
        v.push("helpers".into());
        for m in ["F", "ModF", "P", "ModP"] {
            v.push(format!("adjusted:{}:moved", m));
        }
        v.push("calendar:inside-CalType-container".to_string());
        v.push("python-layer:add_months".to_string());
        v.push("adjusted:Act-with-settlement-enforced".to_string());
        v
    }
    fn min_evaluations(&self, tier: Tier) -> u64 {
        tier.pick(1_000_000, 100_000_000)
    }
    fn exhaustive(&self, tier: Tier) -> bool {
        tier == Tier::Thorough
    }
    fn rule(&self) -> String {
        "add_months with Modifier::Act against own civil arithmetic (target month by floor-div/mod 12 of the month count; day = requested roll day capped at the month length; IMM = third Wednesday): boundary set (10 leap / non-leap / century years x every month x days 26-31 x offsets -25..25 and multiples of 12 x all 35 roll kinds); quick: 3*10^5 seeded random (date, offset, roll) triples; thorough: EVERY start date 1970-2200 x offsets -36..36 and +-48,60,120,600,1200 x all 35 roll kinds (results inside 1970-2200). get_imm/get_eom/is_imm/is_eom for every month 1970-2200, is_leap_year for 1..9999, get_roll for every month x kind. With the four adjusting modifiers: result == C04 oracle applied to the unadjusted date, on the calendar zoo. distinct_nontrivial = distinct (start, offset, roll kind) whose target month differs from the start month or whose day was capped. Eligible days (business / settlement) are derived from each calendar's description - week mask, holiday list, members and settlement members - and the object's own predicates must agree with that before any result is judged; one calendar in four is exercised inside the CalType container.".into()
    }
    fn assumptions(&self) -> Vec<String> {
        vec!["roll days 1..31 only; results outside 1970-2200 are not asserted".into()]
    }
    fn run_case(&mut self, ctx: &mut Ctx, phase: usize, idx: u64, rng: &mut Rng) {
        let bus = rateslib::calendars::get_calendar_by_name(if idx % 2 == 0 { "bus" } else { "all" }).unwrap();
        let act = Act { cal: &bus };
        let kinds = roll_kinds();
        match phase {
            0 => {
                let years = [1972, 1973, 2000, 2100, 2099, 2101, 1971, 2199, 2096, 2104];
                let y = years[idx as usize];
                ctx.crumb(&format!("boundary year {}", y));
                let mut offs: Vec<i64> = (-25..=25).collect();
                offs.extend([36, -36, 48, -48, 120, -120, 1200, -1200]);
                for m in 1..=12 {
                    let dim = days_in_month(y, m);
                    for d in (26..=dim).chain(1..=2) {
                        let z = days_from_civil(y, m, d);
                        for &o in offs.iter() {
                            for r in kinds.iter() {
                                if !check_act(ctx, &act, z, o, r, (o + d) % 2 == 0) {
                                    return;
                                }
                                ctx.distinct(hash_u64s(&[z as u64, (o + 5000) as u64, crate::util::hash_str(&roll_name(r))]));
                            }
                        }
                    }
                }
                ctx.sample("boundary", || json!({"year": y, "days": "26..end and 1..2 of every month", "offsets": offs.len(), "roll_kinds": kinds.len()}));
            }
            1 => match ctx.tier {
                Tier::Quick => {
                    for k in 0..1000 {
                        let z = rng.range_i(Z_1970, z_2200_end());
                        let o = match rng.below(6) {
                            0 => 12 * rng.range_i(-20, 20),
                            1 => rng.range_i(-1200, 1200),
                            _ => rng.range_i(-40, 40),
                        };
                        let r = &kinds[rng.usize(kinds.len())];
                        if !check_act(ctx, &act, z, o, r, k % 2 == 0) {
                            return;
                        }
                        ctx.distinct(hash_u64s(&[z as u64, (o + 5000) as u64, crate::util::hash_str(&roll_name(r))]));
                        if k == 0 {
                            ctx.sample("random", || json!({"start": fmt_z(z), "months": o, "roll": roll_name(r)}));
                        }
                    }
                }
                Tier::Thorough => {
                    let y = 1970 + idx as i64;
                    ctx.crumb(&format!("sweep year {}", y));
                    let offs = offsets();
                    for z in days_from_civil(y, 1, 1)..=days_from_civil(y, 12, 31) {
                        for &o in offs.iter() {
                            for r in kinds.iter() {
                                if !check_act(ctx, &act, z, o, r, false) {
                                    return;
                                }
                            }
                        }
                        ctx.distinct(hash_u64s(&[z as u64]));
                    }
                    ctx.sample("sweep", || json!({"year": y, "offsets": offs.len(), "roll_kinds": kinds.len()}));
                }
            },
            2 => {
                ctx.crumb("helpers");
                let mut bad: Vec<Value> = vec![];
                for y in 1970..=2200i64 {
                    for m in 1..=12i64 {
                        let imm = third_wednesday(y, m);
                        let eom = days_from_civil(y, m, days_in_month(y, m));
                        ctx.eval(2);
                        ctx.asserted(2);
                        if from_ndt(&get_imm(y as i32, m as u32)) != imm {
                            bad.push(json!({"fn": "get_imm", "year": y, "month": m, "observed": get_imm(y as i32, m as u32).to_string(), "expected": fmt_z(imm)}));
                        }
                        if from_ndt(&get_eom(y as i32, m as u32)) != eom {
                            bad.push(json!({"fn": "get_eom", "year": y, "month": m, "observed": get_eom(y as i32, m as u32).to_string(), "expected": fmt_z(eom)}));
                        }
                        for r in kinds.iter() {
                            let want = match r {
                                RollDay::Unspecified {} => None,
                                RollDay::EoM {} => Some(eom),
                                RollDay::SoM {} => Some(days_from_civil(y, m, 1)),
                                RollDay::IMM {} => Some(imm),
                                RollDay::Int { day } => Some(days_from_civil(y, m, (*day as i64).min(days_in_month(y, m)))),
                            };
                            let got = get_roll(y as i32, m as u32, r).ok().map(|d| from_ndt(&d));
                            ctx.eval(1);
                            ctx.asserted(1);
                            if got != want {
                                bad.push(json!({"fn": "get_roll", "year": y, "month": m, "roll": roll_name(r), "observed": got.map(fmt_z), "expected": want.map(fmt_z)}));
                            }
                        }
                        for d in 1..=days_in_month(y, m) {
                            let z = days_from_civil(y, m, d);
                            let dt = to_ndt(z);
                            ctx.eval(2);
                            ctx.asserted(2);
                            if is_imm(&dt) != (z == imm) {
                                bad.push(json!({"fn": "is_imm", "date": fmt_z(z), "observed": is_imm(&dt)}));
                            }
                            if is_eom(&dt) != (z == eom) {
                                bad.push(json!({"fn": "is_eom", "date": fmt_z(z), "observed": is_eom(&dt)}));
                            }
                        }
                        ctx.distinct(hash_u64s(&[77, y as u64, m as u64]));
                    }
                }
                for y in 1..=9999i64 {
                    ctx.eval(1);
                    ctx.asserted(1);
                    if is_leap_year(y as i32) != is_leap(y) {
                        bad.push(json!({"fn": "is_leap_year", "year": y, "observed": is_leap_year(y as i32)}));
                    }
                }
                ctx.class("helpers");
                let mut seen = std::collections::HashSet::new();
                for b in bad.iter() {
                    let f = b["fn"].as_str().unwrap_or("?").to_string();
                    if seen.insert(f.clone()) {
                        ctx.violation(&format!("C08|helper|{}", f), json!({"first": b, "total_mismatches": bad.iter().filter(|x| x["fn"].as_str() == Some(&f)).count()}));
                    }
                }
                ctx.sample("helpers", || json!({"months": "1970-01..2200-12", "leap_years": "1..9999"}));
            }
            _ => {
                // adjusting modifiers: result == roll oracle applied to the unadjusted date
                let y0 = 1975 + rng.range_i(0, 210);
                let z0 = days_from_civil(y0, 1, 1);
                let z1 = days_from_civil(y0 + 2, 12, 31);
                let spec = gen_calspec(rng, z0, z1);
                ctx.crumb(&format!("adjusted on {}", spec.describe()));
                let any = match build_cal(&spec) {
                    Some(a) => a,
                    None => {
                        ctx.harness_error("could not build calendar".into());
                        return;
                    }
                };
                if any.is_wrapped() {
                    ctx.class("calendar:inside-CalType-container");
                }
                with_cal!(&any, c => {
                    let bits = match CalBits::from_spec(&spec, z0 - 1700, z1 + 1700) {
                        Some(b) => b,
                        None => {
                            ctx.harness_error("calendar description does not resolve".into());
                            return;
                        }
                    };
                    if let Some((z, which)) = bits.first_difference(&CalBits::build(c, z0 - 1700, z1 + 1700)) {
                        ctx.violation(&format!("C08|eligible-days-differ-from-definition|{}|{}", which, spec.kind()), json!({"calendar": spec.describe(), "date": fmt_z(z), "predicate": which}));
                        return;
                    }
                    for k in 0..2000 {
                        let z = z0 + rng.range_i(0, z1 - z0);
                        let o = rng.range_i(-30, 30);
                        let r = &kinds[rng.usize(kinds.len())];
                        // all five modifiers: 'actual' leaves the calendar-arithmetic date alone, with or without
                        // settlement enforcement, on calendars with and without settlement calendars
                        let m = MODS[rng.usize(5)];
                        let settlement = rng.bool();
                        if matches!(m, Modifier::Act) && settlement {
                            ctx.class("adjusted:Act-with-settlement-enforced");
                        }
                        let (un, _) = expected_unadjusted(z, o, r);
                        if un < z0 - 1500 || un > z1 + 1500 {
                            continue;
                        }
                        let want = match bits.roll(un, m, settlement) {
                            Some(w) => w,
                            None => {
                                ctx.skip("oracle scan left the modelled window");
                                continue;
                            }
                        };
                        let dt = to_ndt(z);
                        let got = guarded(|| c.add_months(&dt, o as i32, &m, r, settlement));
                        ctx.eval(1);
                        ctx.asserted(1);
                        if let (Some(py), Caught::Ok(g)) = (c.py_add_months(dt, o as i32, m, *r, settlement), &got) {
                            ctx.asserted(1);
                            ctx.class("python-layer:add_months");
                            if py != Ok(*g) {
                                ctx.violation("C08|python-layer|add_months", json!({"calendar": spec.describe(), "start": fmt_z(z), "months": o, "roll": roll_name(r), "modifier": mod_name(&m), "settlement": settlement, "core": g.to_string(), "python_layer": py.map(|d| d.to_string())}));
                                return;
                            }
                        }
                        match got {
                            Caught::Ok(g) => {
                                ctx.class(&format!("adjusted:{}:{}", mod_name(&m), if want != un { "moved" } else { "unmoved" }));
                                if want != un {
                                    ctx.distinct(hash_u64s(&[idx, k as u64]));
                                }
                                if from_ndt(&g) != want {
                                    ctx.violation(
                                        &format!("C08|add_months-adjusted|{}|settlement={}", mod_name(&m), settlement),
                                        json!({"calendar": spec.describe(), "start": fmt_z(z), "months": o, "roll": roll_name(r), "modifier": mod_name(&m), "settlement": settlement,
                                               "unadjusted": fmt_z(un), "observed": g.to_string(), "expected": fmt_z(want)}),
                                    );
                                    return;
                                }
                            }
                            Caught::Panic { loc, msg } => {
                                if is_harness_location(&loc) {
                                    ctx.harness_error(format!("{} {}", loc, msg));
                                } else {
                                    ctx.violation(&format!("C08|panic|add_months|{}", short_loc(&loc)), json!({"calendar": spec.describe(), "start": fmt_z(z), "months": o, "roll": roll_name(r), "message": msg}));
                                }
                                return;
                            }
                        }
                    }
                });
                ctx.sample("adjusted", || json!({"calendar": spec.describe(), "calls": 2000}));
            }
        }
    }
}
