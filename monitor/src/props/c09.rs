//! C09 - an FX market built from n-1 quotes is complete and arbitrage-free.

use super::fxgen::*;
use crate::rng::Rng;
use crate::sup::{guarded, is_harness_location, ph, short_loc, Caught, Ctx, PhaseSpec, Prop, Tier};
use crate::util::{hash_u64s, ulp_diff};
use rateslib::fx::rates::{Ccy, FXRates};
use serde_json::json;

pub struct C09 {
    /// (n, pruefer sequence index, orientation bits, order index, base option index) enumerations
    enum_small: Vec<(usize, usize, u64, usize, usize)>,
    enum_n5: Vec<(usize, usize, u64, usize, usize)>,
}

fn enumerate(nmax: usize, nmin: usize) -> Vec<(usize, usize, u64, usize, usize)> {
    let mut v = vec![];
    for n in nmin..=nmax {
        let nseq = if n == 2 { 1 } else { n.pow((n - 2) as u32) };
        let nperm: usize = (1..n).product();
        for s in 0..nseq {
            for o in 0..(1u64 << (n - 1)) {
                for p in 0..nperm {
                    for b in 0..=n {
                        v.push((n, s, o, p, b));
                    }
                }
            }
        }
    }
    v
}

impl C09 {
    pub fn new() -> Self {
        C09 { enum_small: enumerate(4, 2), enum_n5: enumerate(5, 5) }
    }
}

fn seq_from_index(n: usize, mut s: usize) -> Vec<usize> {
    let mut seq = vec![];
    for _ in 0..n.saturating_sub(2) {
        seq.push(s % n);
        s /= n;
    }
    seq
}

/// check a valid market completely; returns false after reporting a violation
pub fn check_valid_market(ctx: &mut Ctx, m: &Market, shape: &str) -> Option<FXRates> {
    let built = guarded(|| m.build());
    ctx.eval(1);
    ctx.asserted(1);
    let fx = match built {
        Caught::Ok(Ok(Ok(fx))) => fx,
        Caught::Ok(Ok(Err(()))) => {
            ctx.violation(&format!("C09|valid-tree-rejected|n={}|{}", m.n(), shape), json!({"market": m.describe(), "what": "try_new returned Err for a tree-shaped quote set"}));
            return None;
        }
        Caught::Ok(Err(e)) => {
            ctx.violation("C09|fxrate-constructor", json!({"market": m.describe(), "what": e}));
            return None;
        }
        Caught::Panic { loc, msg } => {
            if is_harness_location(&loc) {
                ctx.harness_error(format!("{} {}", loc, msg));
            } else {
                ctx.violation(&format!("C09|panic|try_new|{}", short_loc(&loc)), json!({"market": m.describe(), "location": loc, "message": msg}));
            }
            return None;
        }
    };
    let trace = rateslib::verif::fx_take_trace();
    let tr_hash = hash_u64s(&trace.iter().flat_map(|(a, b)| [*a as u64, *b as u64]).collect::<Vec<_>>());
    ctx.class_n("triangulation-steps", trace.len() as u64);
    let n = m.n();
    let ccys: Vec<Ccy> = m.ccys.iter().map(|c| Ccy::try_new(c).unwrap()).collect();
    // base is placed first
    if let Some(b) = m.base {
        ctx.asserted(1);
        if fx.get_ccy_index(&ccys[b]) != Some(0) {
            ctx.violation("C09|base-not-first", json!({"market": m.describe(), "index_of_base": fx.get_ccy_index(&ccys[b])}));
            return None;
        }
    }
    let mut vals = vec![vec![0.0f64; n]; n];
    for a in 0..n {
        for b in 0..n {
            ctx.eval(1);
            ctx.asserted(1);
            match fx.rate(&ccys[a], &ccys[b]) {
                Some(x) => vals[a][b] = num_value(&x),
                None => {
                    ctx.violation(&format!("C09|rate-missing|n={}", n), json!({"market": m.describe(), "pair": format!("{}{}", m.ccys[a], m.ccys[b])}));
                    return None;
                }
            }
        }
    }
    // what Python reads: the `fx_array` / `fx_vector` tables, `base`, `currencies`, `rate`, and the constructor
    // arguments a pickle round trip uses - all consistent with the n*n rates above
    {
        ctx.eval(6);
        ctx.class("python-layer:accessors");
        let py = guarded(|| (fx.verif_py_fx_array(), fx.verif_py_fx_vector(), fx.verif_py_base(), fx.verif_py_currencies(), fx.verif_py_ad(), fx.verif_py_getnewargs()));
        match py {
            Caught::Ok((arr, vecr, base, cur, ad, (args_rates, args_base))) => {
                ctx.asserted((n * n + n + 4) as u64);
                let mut bad: Option<String> = None;
                if arr.len() != n || arr.iter().any(|row| row.len() != n) || vecr.len() != n || cur.len() != n {
                    bad = Some("shape of fx_array / fx_vector / currencies".into());
                } else {
                    for a in 0..n {
                        let ia = fx.get_ccy_index(&ccys[a]).unwrap_or(usize::MAX);
                        for b in 0..n {
                            let ib = fx.get_ccy_index(&ccys[b]).unwrap_or(usize::MAX);
                            if ia >= n || ib >= n || num_value(&arr[ia][ib]).to_bits() != vals[a][b].to_bits() {
                                bad = Some(format!("fx_array[{}][{}] is not rate({}, {})", ia, ib, m.ccys[a], m.ccys[b]));
                            }
                            match fx.verif_py_rate(&ccys[a], &ccys[b]) {
                                Some(x) if num_value(&x).to_bits() == vals[a][b].to_bits() => {}
                                _ => bad = Some(format!("rate_py({}, {}) differs from rate()", m.ccys[a], m.ccys[b])),
                            }
                        }
                        if fx.verif_py_get_ccy_index(ccys[a]) != fx.get_ccy_index(&ccys[a]) {
                            bad = Some("get_ccy_index".into());
                        }
                    }
                    // the vector is the base currency's row; the base is the first currency (and the one given)
                    let ib = fx.get_ccy_index(&base).unwrap_or(usize::MAX);
                    if ib != 0 || cur[0] != base || m.base.map_or(false, |bi| ccys[bi] != base) {
                        bad = Some("base is not the first currency / not the base given".into());
                    } else {
                        for j in 0..n {
                            if num_value(&vecr[j]).to_bits() != num_value(&arr[0][j]).to_bits() {
                                bad = Some("fx_vector is not the base row of fx_array".into());
                            }
                        }
                    }
                    if ad != 1 {
                        bad = Some(format!("a freshly built market reports derivative order {}", ad));
                    }
                    // rebuilt from the pickle constructor arguments: the same market
                    match FXRates::verif_py_new(args_rates, args_base) {
                        Ok(re) => {
                            let _ = rateslib::verif::fx_take_trace();
                            if !fx.verif_py_eq(re.clone()) || !(re == fx) {
                                bad = Some("market rebuilt from __getnewargs__ is not equal".into());
                            }
                        }
                        Err(()) => bad = Some("__getnewargs__ do not rebuild the market".into()),
                    }
                }
                if let Some(w) = bad {
                    ctx.violation("C09|python-layer|accessors", json!({"market": m.describe(), "what": w}));
                    return None;
                }
            }
            Caught::Panic { loc, msg } => {
                if is_harness_location(&loc) {
                    ctx.harness_error(format!("{} {}", loc, msg));
                } else {
                    ctx.violation(&format!("C09|python-layer|panic|{}", short_loc(&loc)), json!({"market": m.describe(), "message": msg}));
                }
                return None;
            }
        }
    }
    // exactly the n*n crosses: a currency the market does not contain has no rate (and asking is not an abort)
    {
        let foreign = Ccy::try_new("xof").unwrap();
        ctx.eval(2);
        ctx.asserted(2);
        ctx.class("rate:foreign-currency-is-none");
        match guarded(|| (fx.rate(&foreign, &ccys[0]).is_some(), fx.rate(&ccys[n - 1], &foreign).is_some(), fx.get_ccy_index(&foreign).is_some())) {
            Caught::Ok((false, false, false)) => {}
            Caught::Ok(got) => {
                ctx.violation("C09|rate-for-foreign-currency", json!({"market": m.describe(), "foreign": "xof", "rate(xof, first) / rate(last, xof) / index is Some": [got.0, got.1, got.2]}));
                return None;
            }
            Caught::Panic { loc, msg } => {
                if crate::sup::is_harness_location(&loc) {
                    ctx.harness_error(format!("{} {}", loc, msg));
                } else {
                    ctx.violation(&format!("C09|panic|rate-for-foreign-currency|{}", crate::sup::short_loc(&loc)), json!({"market": m.describe(), "message": msg}));
                }
                return None;
            }
        }
    }
    for a in 0..n {
        ctx.asserted(1);
        if vals[a][a] != 1.0 {
            ctx.violation("C09|diagonal-not-one", json!({"market": m.describe(), "currency": m.ccys[a], "observed": vals[a][a]}));
            return None;
        }
    }
    for q in m.quotes.iter() {
        ctx.asserted(1);
        if vals[q.lhs][q.rhs].to_bits() != q.val.value().to_bits() {
            ctx.violation("C09|quoted-pair-not-exact", json!({"market": m.describe(), "pair": m.pair_name(q), "quoted": q.val.value(), "observed": vals[q.lhs][q.rhs]}));
            return None;
        }
    }
    let mut max_ulps = 0u64;
    for a in 0..n {
        for b in 0..n {
            if a == b {
                continue;
            }
            let (want, path) = m.cross(a, b).expect("valid market is connected");
            let tol = (path.len() as u64 + 2) * 4;
            let d = ulp_diff(vals[a][b], want);
            max_ulps = max_ulps.max(d);
            ctx.asserted(2);
            if d > tol || !vals[a][b].is_finite() || vals[a][b] <= 0.0 {
                ctx.violation(
                    &format!("C09|cross-off-path-product|pathlen={}", path.len()),
                    json!({"market": m.describe(), "pair": format!("{}{}", m.ccys[a], m.ccys[b]), "observed": vals[a][b], "expected_path_product": want, "ulps": d, "tolerance_ulps": tol,
                           "path": path.iter().map(|(qi, s)| json!({"quote": m.pair_name(&m.quotes[*qi]), "direction": s})).collect::<Vec<_>>()}),
                );
                return None;
            }
            let inv = vals[a][b] * vals[b][a];
            if ulp_diff(inv, 1.0) > 8 {
                ctx.violation("C09|rate-times-inverse-not-one", json!({"market": m.describe(), "pair": format!("{}{}", m.ccys[a], m.ccys[b]), "r": vals[a][b], "r_inv": vals[b][a], "product": inv}));
                return None;
            }
        }
    }
    // the market is still complete and arbitrage-free after quotes have been re-marked through `update`
    // (whatever base it was built with): quoted pairs exactly as re-quoted, crosses = path products.  Three
    // ways: every quote moved (core update); through the Python-facing update with the full list in which
    // only some quotes moved and the others are re-submitted exactly as held; and through the Python-facing
    // update with only the moved quotes
    let held_quotes = rateslib::verif::fxrates_quotes(&fx);
    for style in 0..3usize {
        let mut m2 = m.clone();
        let mut ups = vec![];
        let nq = m2.quotes.len();
        let moved: Vec<bool> = (0..nq).map(|i| style == 0 || (i as u64 + tr_hash) % 2 == 0).collect();
        let moved: Vec<bool> = if moved.iter().any(|b| *b) { moved } else { (0..nq).map(|i| i == 0).collect() };
        for (i, q) in m2.quotes.iter_mut().enumerate() {
            if moved[i] {
                let nv = q.val.value() * (1.0 + 0.25 * ((i % 3) as f64 + 1.0));
                q.val = QuoteVal::F(nv);
                ups.push(rateslib::fx::rates::FXRate::try_new(&m.ccys[q.lhs], &m.ccys[q.rhs], rateslib::dual::Number::F64(nv), q.settlement.map(crate::calmodel::to_ndt)).unwrap());
            } else if style == 1 {
                let pair = format!("{}{}", m.ccys[q.lhs], m.ccys[q.rhs]);
                match held_quotes.iter().find(|h| h.0 == pair) {
                    Some(h) => ups.push(rateslib::fx::rates::FXRate::try_new(&m.ccys[q.lhs], &m.ccys[q.rhs], h.1.clone(), h.2).unwrap()),
                    None => {
                        ctx.violation("C09|quoted-pair-not-among-held-quotes", json!({"market": m.describe(), "pair": pair}));
                        return None;
                    }
                }
            }
        }
        let label = ["every-quote-moved", "python-layer:some-moved-others-resubmitted-as-held", "python-layer:only-the-moved-quotes"][style];
        let mut fx2 = fx.clone();
        ctx.eval(1);
        ctx.class(&format!("after-update:base-{}", if m.base.is_some() { "given" } else { "none" }));
        ctx.class(&format!("after-update:{}", label));
        match guarded(|| if style == 0 { fx2.update(ups).is_ok() } else { fx2.verif_py_update(ups).is_ok() }) {
            Caught::Ok(true) => {}
            Caught::Ok(false) => {
                ctx.violation("C09|after-update|update-of-quoted-pairs-refused", json!({"market": m.describe(), "update": label}));
                return None;
            }
            Caught::Panic { loc, msg } => {
                if is_harness_location(&loc) {
                    ctx.harness_error(format!("{} {}", loc, msg));
                } else {
                    ctx.violation(&format!("C09|after-update|panic|{}", short_loc(&loc)), json!({"market": m.describe(), "message": msg, "update": label}));
                }
                return None;
            }
        }
        let _ = rateslib::verif::fx_take_trace();
        for a in 0..n {
            for b in 0..n {
                ctx.asserted(1);
                let got = fx2.rate(&ccys[a], &ccys[b]).map(|x| num_value(&x));
                let want = if a == b { Some(1.0) } else { m2.cross(a, b).map(|(w, _)| w) };
                let quoted = m2.quotes.iter().find(|q| q.lhs == a && q.rhs == b).map(|q| q.val.value());
                let ok = match (got, want, quoted) {
                    (Some(g), _, Some(qv)) => g.to_bits() == qv.to_bits(),
                    (Some(g), Some(w), None) => ulp_diff(g, w) <= 4 * 14,
                    _ => false,
                };
                if !ok {
                    ctx.violation(
                        &format!("C09|after-update|{}", if quoted.is_some() { "quoted-pair-not-exact" } else { "cross-off-path-product" }),
                        json!({"market_before": m.describe(), "market_after_update": m2.describe(), "update": label, "pair": format!("{}{}", m.ccys[a], m.ccys[b]), "observed": got, "expected": quoted.or(want)}),
                    );
                    return None;
                }
            }
        }
    }
    // ... and after derivative-order switches (raised to 2, lowered to 1 or 0): every one of the n*n rates keeps
    // its value (the second-order build rounds each inversion along a path differently, DESIGN 9.3: up to a few
    // ulps per step of the path, 64 ulps allowed) - in particular it is not the transposed table
    {
        let mut fx3 = fx.clone();
        // first an update that has to be refused (a pair the market does not quote, or - when the quotes carry
        // one - a different settlement date for one quote): refused, and without any later effect
        {
            let q = &m.quotes[(tr_hash as usize) % m.quotes.len()];
            let (l, r2, st) = if q.settlement.is_some() && m.quotes.len() >= 2 {
                (m.ccys[q.lhs].clone(), m.ccys[q.rhs].clone(), q.settlement.map(|z| z + 3))
            } else {
                (m.ccys[q.rhs].clone(), m.ccys[q.lhs].clone(), q.settlement)
            };
            if let Ok(bad_quote) = rateslib::fx::rates::FXRate::try_new(&l, &r2, rateslib::dual::Number::F64(q.val.value() * 1.5), st.map(crate::calmodel::to_ndt)) {
                ctx.asserted(1);
                ctx.class("refused-update-before-order-switches");
                match guarded(|| fx3.update(vec![bad_quote]).is_ok()) {
                    Caught::Ok(false) => {}
                    Caught::Ok(true) => {
                        ctx.violation("C09|update-that-must-be-refused-accepted", json!({"market": m.describe(), "pair": format!("{}{}", l, r2), "settlement": st}));
                        return None;
                    }
                    Caught::Panic { loc, msg } => {
                        if is_harness_location(&loc) {
                            ctx.harness_error(format!("{} {}", loc, msg));
                        } else {
                            ctx.violation(&format!("C09|after-order-switches|panic|{}", short_loc(&loc)), json!({"market": m.describe(), "message": msg}));
                        }
                        return None;
                    }
                }
            }
        }
        let lower = if tr_hash % 2 == 0 { rateslib::dual::ADOrder::One } else { rateslib::dual::ADOrder::Zero };
        ctx.eval(1);
        ctx.class(&format!("after-order-switches:2-then-{}", if tr_hash % 2 == 0 { 1 } else { 0 }));
        match guarded(|| fx3.set_ad_order(rateslib::dual::ADOrder::Two).is_ok() && fx3.set_ad_order(lower).is_ok()) {
            Caught::Ok(true) => {}
            Caught::Ok(false) => {
                ctx.violation("C09|after-order-switches|refused", json!({"market": m.describe()}));
                return None;
            }
            Caught::Panic { loc, msg } => {
                if is_harness_location(&loc) {
                    ctx.harness_error(format!("{} {}", loc, msg));
                } else {
                    ctx.violation(&format!("C09|after-order-switches|panic|{}", short_loc(&loc)), json!({"market": m.describe(), "message": msg}));
                }
                return None;
            }
        }
        let _ = rateslib::verif::fx_take_trace();
        // the tables Python reads (fx_array, fx_vector) agree with rate() at the order the object is now in, and
        // did so at order two
        for (label, obj) in [("lowered", fx3.clone()), ("order-two", {
            let mut t = fx.clone();
            let _ = t.set_ad_order(rateslib::dual::ADOrder::Two);
            let _ = rateslib::verif::fx_take_trace();
            t
        })] {
            ctx.asserted((n * n) as u64);
            ctx.class(&format!("python-layer:accessors:{}", label));
            let tables = guarded(|| (obj.verif_py_fx_array(), obj.verif_py_fx_vector()));
            let ok = match &tables {
                Caught::Ok((arr, vecr)) => {
                    arr.len() == n
                        && vecr.len() == n
                        && (0..n).all(|a| {
                            (0..n).all(|b| {
                                let (ia, ib) = (obj.get_ccy_index(&ccys[a]).unwrap_or(usize::MAX), obj.get_ccy_index(&ccys[b]).unwrap_or(usize::MAX));
                                ia < n && ib < n && arr[ia].len() == n && obj.rate(&ccys[a], &ccys[b]).map_or(false, |x| num_value(&x).to_bits() == num_value(&arr[ia][ib]).to_bits())
                            })
                        })
                        && (0..n).all(|j| num_value(&vecr[j]).to_bits() == num_value(&arr[0][j]).to_bits())
                }
                _ => false,
            };
            if !ok {
                ctx.violation(&format!("C09|python-layer|accessors|{}", label), json!({"market": m.describe(), "what": "fx_array / fx_vector disagree with rate() after derivative-order switches"}));
                return None;
            }
        }
        for a in 0..n {
            for b in 0..n {
                ctx.asserted(1);
                let got = fx3.rate(&ccys[a], &ccys[b]).map(|x| num_value(&x));
                if !matches!(got, Some(g) if ulp_diff(g, vals[a][b]) <= 64) {
                    ctx.violation("C09|after-order-switches|rate-changed", json!({"market": m.describe(), "pair": format!("{}{}", m.ccys[a], m.ccys[b]), "as_built": vals[a][b], "after 1 -> 2 -> lower": got}));
                    return None;
                }
            }
        }
    }
    let (diam, maxdeg) = m.diameter_and_maxdeg();
    ctx.class(&format!("tree:n={}", n));
    ctx.class(&format!("tree:diameter={}:maxdeg={}", diam.min(6), maxdeg.min(6)));
    ctx.class(&format!("base:{}", if m.base.is_some() { "given" } else { "none" }));
    ctx.class(&format!("shape:{}", shape));
    ctx.distinct(tr_hash);
    ctx.extra.insert("max_cross_error_ulps".into(), json!(max_ulps.max(ctx.extra.get("max_cross_error_ulps").and_then(|v| v.as_u64()).unwrap_or(0))));
    Some(fx)
}

/// derive an invalid quote set from a valid one
fn make_invalid(r: &mut Rng, m: &Market) -> (Market, &'static str) {
    let mut x = m.clone();
    let n = m.n();
    match r.below(9) {
        0 if n >= 4 => {
            // delete an edge so that both components keep >= 2 vertices (under-specified forest)
            for _ in 0..20 {
                let k = r.usize(x.quotes.len());
                let mut y = m.clone();
                y.quotes.remove(k);
                let (a, b) = (m.quotes[k].lhs, m.quotes[k].rhs);
                let deg = |v: usize| y.quotes.iter().filter(|q| q.lhs == v || q.rhs == v).count();
                if deg(a) >= 1 && deg(b) >= 1 {
                    if y.base.is_none() || true {
                        return (y, "edge-deleted(forest)");
                    }
                }
            }
            x.quotes.clear();
            (x, "empty")
        }
        1 => {
            // a base currency that no quote mentions
            let extra = CCYS.iter().find(|c| !m.ccys.contains(&c.to_string())).unwrap();
            x.ccys.push(extra.to_string());
            x.base = Some(x.ccys.len() - 1);
            (x, "base-not-quoted")
        }
        2 if n >= 3 => {
            // add a chord (over-specified, cyclic)
            for _ in 0..50 {
                let (a, b) = (r.usize(n), r.usize(n));
                if a != b && !m.quotes.iter().any(|q| (q.lhs == a && q.rhs == b) || (q.lhs == b && q.rhs == a)) {
                    let s = m.quotes[0].settlement;
                    x.quotes.push(Quote { lhs: a, rhs: b, val: QuoteVal::F(gen_rate(r)), settlement: s });
                    r.shuffle(&mut x.quotes);
                    return (x, "chord-added(cycle)");
                }
            }
            x.quotes.clear();
            (x, "empty")
        }
        3 => {
            // an exact duplicate appended
            let k = r.usize(x.quotes.len());
            let d = x.quotes[k].clone();
            x.quotes.push(d);
            (x, "duplicate-pair-added")
        }
        4 => {
            // the inverse of an existing pair appended
            let k = r.usize(x.quotes.len());
            let mut d = x.quotes[k].clone();
            std::mem::swap(&mut d.lhs, &mut d.rhs);
            d.val = QuoteVal::F(1.0 / d.val.value());
            x.quotes.push(d);
            (x, "inverse-pair-added")
        }
        5 if n >= 3 => {
            // replace one edge by a duplicate / inverse of another: right count, not a tree
            let k = r.usize(x.quotes.len());
            let mut j = r.usize(x.quotes.len());
            if j == k {
                j = (j + 1) % x.quotes.len();
            }
            let mut d = x.quotes[j].clone();
            if r.bool() {
                std::mem::swap(&mut d.lhs, &mut d.rhs);
            }
            d.val = QuoteVal::F(gen_rate(r));
            x.quotes[k] = d;
            (x, "edge-replaced-by-duplicate(right-count)")
        }
        6 if n >= 4 => {
            // replace one edge by a chord between two vertices already connected: a cycle plus a
            // disconnected part, with exactly n-1 quotes
            for _ in 0..50 {
                let k = r.usize(x.quotes.len());
                let mut y = m.clone();
                y.quotes.remove(k);
                let (a, b) = (r.usize(n), r.usize(n));
                if a != b && !y.quotes.iter().any(|q| (q.lhs == a && q.rhs == b) || (q.lhs == b && q.rhs == a)) && y.path(a, b).is_some() {
                    let s = m.quotes[0].settlement;
                    y.quotes.insert(r.usize(y.quotes.len() + 1), Quote { lhs: a, rhs: b, val: QuoteVal::F(gen_rate(r)), settlement: s });
                    if !y.is_valid() {
                        return (y, "cycle-with-right-count");
                    }
                }
            }
            x.quotes.clear();
            (x, "empty")
        }
        7 if x.quotes.len() >= 2 => {
            // inconsistent settlement: another date, or Some/None mixed
            let k = r.usize(x.quotes.len());
            x.quotes[k].settlement = match x.quotes[k].settlement {
                Some(z) => {
                    if r.bool() {
                        Some(z + 1 + r.range_i(0, 30))
                    } else {
                        None
                    }
                }
                None => Some(crate::calmodel::days_from_civil(2025, 3, 3)),
            };
            (x, "inconsistent-settlement")
        }
        _ => {
            x.quotes.clear();
            (x, "empty")
        }
    }
}

impl Prop for C09 {
    fn id(&self) -> &'static str {
        "C09"
    }
    fn phases(&self, tier: Tier) -> Vec<PhaseSpec> {
        vec![
            ph("all labelled trees n<=4 x orientations x orders x bases", self.enum_small.len() as u64),
            ph("all labelled trees n=5 x orientations x orders x bases", tier.pick(0, self.enum_n5.len() as u64)),
            ph("random trees n=2..12 (chains, stars, caterpillars, brooms, Pruefer)", tier.pick(20_000, 2_000_000)),
            ph("invalid quote sets", tier.pick(10_000, 1_000_000)),
        ]
    }
    fn exhaustive(&self, _tier: Tier) -> bool {
        true
    }
    fn required_classes(&self, tier: Tier) -> Vec<String> {
        let mut v: Vec<String> = vec!["base:given".into(), "base:none".into(), "triangulation-steps".into()];
        for n in 2..=12 {
            v.push(format!("tree:n={}", n));
        }
        for s in ["chain", "star", "caterpillar", "broom", "pruefer", "enumerated"] {
            v.push(format!("shape:{}", s));
        }
        for s in ["edge-deleted(forest)", "base-not-quoted", "chord-added(cycle)", "duplicate-pair-added", "inverse-pair-added", "edge-replaced-by-duplicate(right-count)", "cycle-with-right-count", "inconsistent-settlement", "empty"] {
            v.push(format!("invalid:{}", s));
        }
        let _ = tier;
        v.push("after-update:base-given".to_string());
        v.push("after-update:base-none".to_string());
        v.push("after-update:every-quote-moved".to_string());
        v.push("after-update:python-layer:some-moved-others-resubmitted-as-held".to_string());
        v.push("after-update:python-layer:only-the-moved-quotes".to_string());
        v.push("after-order-switches:2-then-1".to_string());
        v.push("after-order-switches:2-then-0".to_string());
        v.push("python-layer:accessors".to_string());
        v.push("refused-update-before-order-switches".to_string());
        v.push("python-layer:accessors:lowered".to_string());
        v.push("python-layer:accessors:order-two".to_string());
        v
    }
    fn min_evaluations(&self, tier: Tier) -> u64 {
        tier.pick(100_000, 5_000_000)
    }
    fn rule(&self) -> String {
        "Enumeration: every labelled tree on n<=4 currencies (quick; thorough also n=5) x every orientation of every quoted pair x every ordering of the quote list x every base choice (none or each currency); rates seeded log-uniform in [1e-4,1e4], some quotes given as Dual/Dual2 with own variables. Sampling: random trees n=2..12 (chains, stars, caterpillars, brooms, Pruefer). For each: all n^2 rates present, quoted pairs bit-exact, diagonal 1, r*r^-1 within 8 ulp, every cross within (pathlen+2)*4 ulp of the BFS path product. Invalid sets derived from valid ones (forest, unquoted base, chord, duplicate / inverse pair, right-count non-trees, inconsistent settlement, empty) must be Err. Every valid market is re-checked after its quotes have been re-marked through update - all of them (core), and through the Python-facing update some of them with the others re-submitted exactly as held, or only the moved ones (quoted pairs exact, crosses = path products). distinct_nontrivial = distinct triangulation traces (sequence of nodes sampled by the real algorithm, from the verif hook) - i.e. how many different paths through the solver the workload drove.".into()
    }
    fn assumptions(&self) -> Vec<String> {
        vec!["validity oracle: union-find - the quote multigraph is a spanning tree of all currencies (incl. the base) and settlement dates agree".into(), "the trace hook is used only as coverage evidence, never for a verdict".into()]
    }
    fn run_case(&mut self, ctx: &mut Ctx, phase: usize, idx: u64, rng: &mut Rng) {
        match phase {
            0 | 1 => {
                let (n, s, o, p, b) = if phase == 0 { self.enum_small[idx as usize] } else { self.enum_n5[idx as usize] };
                let edges = prufer_edges(n, &seq_from_index(n, s));
                let perms = permutations(n - 1);
                let base = if b == n { None } else { Some(b) };
                let m = market_from_edges(rng, n, &edges, 0.2, Some(o), Some(&perms[p]), Some(base));
                ctx.crumb(&format!("enumerated market {}", m.describe()));
                if check_valid_market(ctx, &m, "enumerated").is_some() && idx % 997 == 0 {
                    ctx.sample("enumerated", || m.describe());
                }
            }
            2 => {
                let n = 2 + (idx % 11) as usize;
                let (edges, shape) = random_tree_edges(rng, n);
                let m = market_from_edges(rng, n, &edges, 0.3, None, None, None);
                ctx.crumb(&format!("random market {}", m.describe()));
                if !m.is_valid() {
                    ctx.harness_error("generated tree is not valid".into());
                    return;
                }
                if check_valid_market(ctx, &m, shape).is_some() {
                    // currency codes are case-insensitive
                    if idx % 7 == 0 {
                        let up = guarded(|| m.fx_rates(true).ok().and_then(|r| FXRates::try_new(r, m.base_ccy()).ok()).is_some());
                        ctx.eval(1);
                        ctx.asserted(1);
                        if !matches!(up, Caught::Ok(true)) {
                            ctx.violation("C09|upper-case-codes-rejected", json!({"market": m.describe()}));
                        }
                    }
                    ctx.sample(shape, || m.describe());
                }
            }
            _ => {
                let n = 2 + rng.usize(9);
                let (edges, _) = random_tree_edges(rng, n);
                let m = market_from_edges(rng, n, &edges, 0.2, None, None, None);
                let (bad, kind) = make_invalid(rng, &m);
                if bad.is_valid() {
                    ctx.skip("derived set happened to be a valid tree");
                    return;
                }
                ctx.crumb(&format!("invalid market {} {}", kind, bad.describe()));
                let r = guarded(|| bad.build());
                let _ = rateslib::verif::fx_take_trace();
                ctx.eval(1);
                ctx.asserted(1);
                ctx.class(&format!("invalid:{}", kind));
                ctx.distinct(hash_u64s(&[0xbad, idx]));
                match r {
                    Caught::Ok(Ok(Err(()))) => {}
                    Caught::Ok(Ok(Ok(_))) => ctx.violation(&format!("C09|invalid-set-accepted|{}", kind), json!({"market": bad.describe(), "kind": kind, "expected": "Err"})),
                    Caught::Ok(Err(e)) => ctx.harness_error(e),
                    Caught::Panic { loc, msg } => {
                        if is_harness_location(&loc) {
                            ctx.harness_error(format!("{} {}", loc, msg));
                        } else {
                            ctx.violation(&format!("C09|panic|invalid-set|{}|{}", kind, short_loc(&loc)), json!({"market": bad.describe(), "kind": kind, "location": loc, "message": msg}));
                        }
                    }
                }
                ctx.sample(&format!("invalid:{}", kind), || json!({"kind": kind, "market": bad.describe()}));
            }
        }
    }
}
