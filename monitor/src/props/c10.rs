//! C10 - FX sensitivities are exact and the market state follows its update history.

use super::fxgen::*;
use crate::rng::Rng;
use crate::sup::{guarded, is_harness_location, ph, short_loc, Caught, Ctx, PhaseSpec, Prop, Tier};
use crate::util::{hash_u64s, rel_close, ulp_diff};
use rateslib::dual::{ADOrder, Gradient1, Gradient2, Number, Vars};
use rateslib::fx::rates::{Ccy, FXRate, FXRates};
use serde_json::{json, Value};
use std::collections::BTreeMap;

pub struct C10 {}

impl C10 {
    pub fn new() -> Self {
        C10 {}
    }
}

/// closed-form sensitivities of cross a->b: d/d(name) and d2/d(name1)d(name2), keyed by variable name
fn expected_sens(m: &Market, a: usize, b: usize, second: bool) -> (f64, BTreeMap<String, f64>, BTreeMap<(String, String), f64>, f64, f64) {
    let (cross, path) = m.cross(a, b).unwrap();
    // exponent of each quote in the cross: +1, -1 or 0
    let mut s = vec![0i32; m.quotes.len()];
    for (qi, d) in path.iter() {
        s[*qi] = *d;
    }
    // each quote q_i depends on named variables: plain float -> fx_pair with coefficient 1;
    // dual quote -> its own variables with its own coefficients (first order only: d2 q_i = 0)
    let deps: Vec<Vec<(String, f64)>> = m
        .quotes
        .iter()
        .map(|q| match &q.val {
            QuoteVal::F(_) => vec![(format!("fx_{}", m.pair_name(q)), 1.0)],
            QuoteVal::D { vars, coef, .. } | QuoteVal::D2 { vars, coef, .. } => vars.iter().cloned().zip(coef.iter().cloned()).collect(),
        })
        .collect();
    let mut g: BTreeMap<String, f64> = BTreeMap::new();
    let mut h: BTreeMap<(String, String), f64> = BTreeMap::new();
    // magnitudes of the individual terms (shared variables can make terms cancel)
    let (mut gmag, mut hmag) = (0.0f64, 0.0f64);
    for (i, q) in m.quotes.iter().enumerate() {
        let qi = q.val.value();
        let di = s[i] as f64 * cross / qi; // d cross / d q_i
        for (n, c) in deps[i].iter() {
            *g.entry(n.clone()).or_insert(0.0) += di * c;
            gmag += (di * c).abs();
        }
        if second {
            for (j, q2) in m.quotes.iter().enumerate() {
                let qj = q2.val.value();
                let dij = if i == j { (s[i] * (s[i] - 1)) as f64 * cross / (qi * qi) } else { (s[i] * s[j]) as f64 * cross / (qi * qj) };
                // terms of this size are formed (and may cancel, e.g. s(s-1)=0 for s=+1) whenever both quotes are on the path
                let mag = (s[i] * s[j]).abs() as f64 * (cross / (qi * qj)).abs();
                for (n1, c1) in deps[i].iter() {
                    for (n2, c2) in deps[j].iter() {
                        hmag = hmag.max((mag * c1 * c2).abs());
                        if dij != 0.0 {
                            *h.entry((n1.clone(), n2.clone())).or_insert(0.0) += dij * c1 * c2;
                        }
                    }
                }
            }
        }
    }
    (cross, g, h, gmag, hmag)
}

fn all_names(m: &Market) -> Vec<String> {
    let mut v: Vec<String> = vec![];
    for q in m.quotes.iter() {
        match &q.val {
            QuoteVal::F(_) => v.push(format!("fx_{}", m.pair_name(q))),
            QuoteVal::D { vars, .. } | QuoteVal::D2 { vars, .. } => v.extend(vars.iter().cloned()),
        }
    }
    v.sort();
    v.dedup();
    v
}

fn check_sensitivities(ctx: &mut Ctx, m: &Market, fx: &FXRates, order: usize) -> bool {
    let n = m.n();
    let ccys: Vec<Ccy> = m.ccys.iter().map(|c| Ccy::try_new(c).unwrap()).collect();
    let names = all_names(m);
    for a in 0..n {
        for b in 0..n {
            let r = match fx.rate(&ccys[a], &ccys[b]) {
                Some(r) => r,
                None => {
                    ctx.violation("C10|rate-missing", json!({"market": m.describe()}));
                    return false;
                }
            };
            ctx.eval(1);
            let (cross, g, h, gmag, hmag) = expected_sens(m, a, b, order == 2);
            let scale = cross.abs();
            let pair = format!("{}{}", m.ccys[a], m.ccys[b]);
            let (got_vars, got_g, got_h): (Vec<String>, Vec<f64>, Option<Vec<Vec<f64>>>) = match (&r, order) {
                (Number::Dual(d), 1) => (d.vars().iter().cloned().collect(), d.gradient1(names.clone()).to_vec(), None),
                (Number::Dual2(d), 2) => {
                    let hm = d.gradient2(names.clone());
                    (d.vars().iter().cloned().collect(), d.gradient1(names.clone()).to_vec(), Some((0..names.len()).map(|i| (0..names.len()).map(|j| hm[[i, j]]).collect()).collect()))
                }
                (Number::F64(_), 0) => return true,
                _ => {
                    ctx.violation(&format!("C10|wrong-kind|order={}", order), json!({"market": m.describe(), "pair": pair, "order": order}));
                    return false;
                }
            };
            // no differently named variable may carry a sensitivity
            for v in got_vars.iter() {
                ctx.asserted(1);
                if !names.contains(v) {
                    let nonzero = match &r {
                        Number::Dual(d) => d.gradient1(vec![v.clone()])[0] != 0.0,
                        Number::Dual2(d) => d.gradient1(vec![v.clone()])[0] != 0.0,
                        _ => false,
                    };
                    if nonzero || a != b {
                        ctx.violation("C10|unexpected-variable-name", json!({"market": m.describe(), "pair": pair, "variable": v, "expected_names": names}));
                        return false;
                    }
                }
            }
            // first order
            let gsum: f64 = gmag.max(scale);
            for (k, nm) in names.iter().enumerate() {
                ctx.asserted(1);
                let want = g.get(nm).copied().unwrap_or(0.0);
                let on_path = want != 0.0;
                ctx.class(&format!("order{}:{}", order, if a == b { "diagonal" } else if on_path { "quote-on-path" } else { "quote-off-path" }));
                if !rel_close(got_g[k], want, 1e-11, 1e-13 * gsum) {
                    ctx.violation(
                        &format!("C10|gradient|order={}|{}", order, if on_path { "on-path" } else { "off-path" }),
                        json!({"market": m.describe(), "pair": pair, "variable": nm, "observed": got_g[k], "expected": want, "cross": cross}),
                    );
                    return false;
                }
            }
            if let Some(hm) = got_h {
                let hsum: f64 = hmag.max(scale);
                for (i, n1) in names.iter().enumerate() {
                    for (j, n2) in names.iter().enumerate() {
                        ctx.asserted(1);
                        let want = h.get(&(n1.clone(), n2.clone())).copied().unwrap_or(0.0);
                        if want != 0.0 {
                            ctx.class(if n1 == n2 { "second-order:same-quote" } else { "second-order:two-quotes" });
                        }
                        if !rel_close(hm[i][j], want, 1e-10, 1e-12 * hsum) {
                            ctx.violation(
                                &format!("C10|hessian|{}", if n1 == n2 { "same-variable" } else { "two-variables" }),
                                json!({"market": m.describe(), "pair": pair, "variables": [n1, n2], "observed": hm[i][j], "expected": want, "cross": cross}),
                            );
                            return false;
                        }
                    }
                }
            }
        }
    }
    true
}

fn ord(k: usize) -> ADOrder {
    [ADOrder::Zero, ADOrder::One, ADOrder::Two][k]
}

fn ord_idx(o: ADOrder) -> usize {
    match o {
        ADOrder::Zero => 0,
        ADOrder::One => 1,
        ADOrder::Two => 2,
    }
}

/// complete observable state of a market
#[derive(PartialEq, Debug)]
struct Snapshot {
    rates_bits: Vec<u64>,
    derivs_bits: Vec<u64>,
    quotes: String,
    currencies: Vec<String>,
    order: usize,
}

fn snapshot(fx: &FXRates) -> Snapshot {
    let cur = rateslib::verif::fxrates_currencies(fx);
    let ccys: Vec<Ccy> = cur.iter().map(|c| Ccy::try_new(c).unwrap()).collect();
    let mut rates_bits = vec![];
    let mut derivs_bits = vec![];
    for a in ccys.iter() {
        for b in ccys.iter() {
            match fx.rate(a, b) {
                Some(Number::F64(f)) => rates_bits.push(f.to_bits()),
                Some(Number::Dual(d)) => {
                    rates_bits.push(d.real().to_bits());
                    for v in d.vars().iter() {
                        derivs_bits.push(crate::util::hash_str(v));
                    }
                    derivs_bits.extend(d.dual().iter().map(|x| x.to_bits()));
                }
                Some(Number::Dual2(d)) => {
                    rates_bits.push(d.real().to_bits());
                    for v in d.vars().iter() {
                        derivs_bits.push(crate::util::hash_str(v));
                    }
                    derivs_bits.extend(d.dual().iter().map(|x| x.to_bits()));
                    derivs_bits.extend(d.dual2().iter().map(|x| x.to_bits()));
                }
                None => rates_bits.push(u64::MAX),
            }
        }
    }
    let quotes = format!("{:?}", rateslib::verif::fxrates_quotes(fx).iter().map(|(p, r, s)| (p.clone(), format!("{:?}", r), *s)).collect::<Vec<_>>());
    Snapshot { rates_bits, derivs_bits, quotes, currencies: cur, order: ord_idx(rateslib::verif::fxrates_ad(fx)) }
}

fn history_case(ctx: &mut Ctx, rng: &mut Rng, idx: u64) {
    let n = 2 + rng.usize(7);
    let (edges, _) = random_tree_edges(rng, n);
    let mut model = market_from_edges(rng, n, &edges, 0.25, None, None, None);
    // the model: latest quote per pair (in the original orientation and order), the base and the order
    let mut fx = match guarded(|| model.build()) {
        Caught::Ok(Ok(Ok(fx))) => fx,
        _ => {
            ctx.violation("C10|history|initial-build-failed", json!({"market": model.describe()}));
            return;
        }
    };
    let _ = rateslib::verif::fx_take_trace();
    // base used by the object: the given one, or the first currency of the first quote
    let base_idx = model.base.unwrap_or(model.quotes[0].lhs);
    let mut cur_order = 1usize;
    let ccys: Vec<Ccy> = model.ccys.iter().map(|c| Ccy::try_new(c).unwrap()).collect();
    let nops = 1 + rng.usize(30);
    let mut log: Vec<Value> = vec![];
    for step in 0..nops {
        let op = rng.below(10);
        // half of the operations go through the Python-facing methods (update_py, set_ad_order_py)
        let via_py = rng.bool();
        ctx.class(if via_py { "route:python-facing-methods" } else { "route:core-methods" });
        let before = snapshot(&fx);
        let (desc, expect_ok): (Value, bool) = match op {
            0..=3 => {
                // update a random non-empty subset with new rates
                let k = 1 + rng.usize(model.quotes.len());
                let mut ids: Vec<usize> = (0..model.quotes.len()).collect();
                rng.shuffle(&mut ids);
                ids.truncate(k);
                let mut ups = vec![];
                let mut newvals = vec![];
                for i in ids.iter() {
                    let q = &model.quotes[*i];
                    // mostly a new rate; sometimes the SAME value with other derivative content (plain <-> own
                    // variables, other variables / coefficients), or an identical re-statement of the quote
                    let nv = match rng.below(20) {
                        0..=3 => gen_quote_val(rng, 1.0, 100 + *i),
                        4 | 5 => {
                            ctx.class("update:same-value-other-derivative-content");
                            match &q.val {
                                QuoteVal::F(v) => super::fxgen::gen_quote_val_at(rng, 1.0, 200 + step * 16 + *i, *v),
                                other => if rng.bool() { QuoteVal::F(other.value()) } else { super::fxgen::gen_quote_val_at(rng, 1.0, 200 + step * 16 + *i, other.value()) },
                            }
                        }
                        6 => {
                            ctx.class("update:identical-quote");
                            q.val.clone()
                        }
                        _ => QuoteVal::F(gen_rate(rng)),
                    };
                    ups.push(FXRate::try_new(&model.ccys[q.lhs], &model.ccys[q.rhs], nv.number(), ndt_opt(q.settlement)).unwrap());
                    newvals.push((*i, nv));
                }
                let r = guarded(|| if via_py { fx.verif_py_update(ups).is_ok() } else { fx.update(ups).is_ok() });
                ctx.class("op:update");
                match r {
                    Caught::Ok(true) => {
                        for (i, nv) in newvals {
                            model.quotes[i].val = nv;
                        }
                        // an update rebuilds the matrix at the default first order
                        cur_order = 1;
                        (json!({"op": "update", "pairs": ids.iter().map(|i| model.pair_name(&model.quotes[*i])).collect::<Vec<_>>()}), true)
                    }
                    Caught::Ok(false) => {
                        ctx.violation("C10|history|valid-update-refused", json!({"market": model.describe(), "log": log}));
                        return;
                    }
                    Caught::Panic { loc, msg } => {
                        ctx.violation(&format!("C10|panic|update|{}", short_loc(&loc)), json!({"market": model.describe(), "message": msg}));
                        return;
                    }
                }
            }
            4 => {
                // a pair the market does not contain
                let (a, b) = loop {
                    let (a, b) = (rng.usize(n), rng.usize(n));
                    if a != b && !model.quotes.iter().any(|q| (q.lhs == a && q.rhs == b) || (q.lhs == b && q.rhs == a)) {
                        break (Some(a), b);
                    }
                    if n == 2 || rng.chance(0.2) {
                        break (None, 0);
                    }
                };
                let (l, r) = match a {
                    Some(a) => (model.ccys[a].clone(), model.ccys[b].clone()),
                    None => ("xau".to_string(), model.ccys[0].clone()),
                };
                let mut ups = vec![FXRate::try_new(&l, &r, Number::F64(gen_rate(rng)), ndt_opt(model.quotes[0].settlement)).unwrap()];
                if rng.bool() {
                    // together with a perfectly valid one: the whole update must still be refused
                    let q = &model.quotes[0];
                    ups.insert(0, FXRate::try_new(&model.ccys[q.lhs], &model.ccys[q.rhs], Number::F64(gen_rate(rng)), ndt_opt(q.settlement)).unwrap());
                }
                let res = guarded(|| if via_py { fx.verif_py_update(ups).is_ok() } else { fx.update(ups).is_ok() });
                ctx.class("op:update-unknown-pair");
                if !matches!(res, Caught::Ok(false)) {
                    ctx.violation("C10|history|unknown-pair-accepted", json!({"market": model.describe(), "pair": format!("{}{}", l, r), "result": format!("{:?}", matches!(res, Caught::Ok(true)))}));
                    return;
                }
                (json!({"op": "update-unknown-pair", "pair": format!("{}{}", l, r)}), false)
            }
            5 => {
                // a known pair in the inverse orientation is not the quoted pair
                let q = model.quotes[rng.usize(model.quotes.len())].clone();
                let ups = vec![FXRate::try_new(&model.ccys[q.rhs], &model.ccys[q.lhs], Number::F64(gen_rate(rng)), ndt_opt(q.settlement)).unwrap()];
                let res = guarded(|| if via_py { fx.verif_py_update(ups).is_ok() } else { fx.update(ups).is_ok() });
                ctx.class("op:update-inverse-orientation");
                if !matches!(res, Caught::Ok(false)) {
                    ctx.violation("C10|history|inverse-orientation-accepted", json!({"market": model.describe(), "pair": format!("{}{}", model.ccys[q.rhs], model.ccys[q.lhs])}));
                    return;
                }
                (json!({"op": "update-inverse-orientation"}), false)
            }
            6 if model.quotes.len() >= 2 => {
                // inconsistent settlement date on one updated quote
                let q = model.quotes[rng.usize(model.quotes.len())].clone();
                let other = match q.settlement {
                    Some(z) => Some(z + 5),
                    None => Some(crate::calmodel::days_from_civil(2026, 6, 1)),
                };
                let ups = vec![FXRate::try_new(&model.ccys[q.lhs], &model.ccys[q.rhs], Number::F64(gen_rate(rng)), ndt_opt(other)).unwrap()];
                let res = guarded(|| if via_py { fx.verif_py_update(ups).is_ok() } else { fx.update(ups).is_ok() });
                ctx.class("op:update-inconsistent-settlement");
                if !matches!(res, Caught::Ok(false)) {
                    ctx.violation("C10|history|inconsistent-settlement-accepted", json!({"market": model.describe()}));
                    return;
                }
                (json!({"op": "update-inconsistent-settlement"}), false)
            }
            _ => {
                let k = rng.usize(3);
                let res = guarded(|| if via_py { fx.verif_py_set_ad_order(ord(k)).is_ok() } else { fx.set_ad_order(ord(k)).is_ok() });
                ctx.class(&format!("op:set_ad_order:{}->{}", cur_order, k));
                if !matches!(res, Caught::Ok(true)) {
                    ctx.violation(&format!("C10|history|set_ad_order-failed|{}->{}", cur_order, k), json!({"market": model.describe()}));
                    return;
                }
                let from = cur_order;
                cur_order = k;
                // a derivative-order switch never changes a rate's value
                let after = snapshot(&fx);
                ctx.asserted(1);
                let moved = before.rates_bits.iter().zip(after.rates_bits.iter()).any(|(a, b)| ulp_diff(f64::from_bits(*a), f64::from_bits(*b)) > 4);
                if moved || after.order != k || after.currencies != before.currencies || after.quotes != before.quotes {
                    ctx.violation(&format!("C10|history|order-switch-changed-state|{}->{}", from, k), json!({"market": model.describe(), "log": log, "from": from, "to": k, "order_after": after.order}));
                    return;
                }
                (json!({"op": "set_ad_order", "to": k}), true)
            }
        };
        ctx.eval(1);
        log.push(desc.clone());
        if !expect_ok {
            // a refused update changes nothing observable
            let after = snapshot(&fx);
            ctx.asserted(1);
            if after != before {
                ctx.violation(
                    &format!("C10|history|refused-update-changed-state|{}", desc["op"].as_str().unwrap_or("?")),
                    json!({"market": model.describe(), "log": log, "changed": {"rates": after.rates_bits != before.rates_bits, "derivatives": after.derivs_bits != before.derivs_bits, "quotes": after.quotes != before.quotes, "currencies": after.currencies != before.currencies, "order": after.order != before.order}}),
                );
                return;
            }
        }
        // after every operation: same rates as a market built directly from the latest quotes
        let mut fresh_m = model.clone();
        fresh_m.base = Some(base_idx);
        let fresh = match guarded(|| fresh_m.build()) {
            Caught::Ok(Ok(Ok(f))) => f,
            _ => {
                ctx.harness_error("fresh build of the model failed".into());
                return;
            }
        };
        let _ = rateslib::verif::fx_take_trace();
        for a in 0..n {
            for b in 0..n {
                ctx.asserted(1);
                let (x, y) = (fx.rate(&ccys[a], &ccys[b]), fresh.rate(&ccys[a], &ccys[b]));
                let ok = match (&x, &y) {
                    (Some(x), Some(y)) => ulp_diff(num_value(x), num_value(y)) <= 4,
                    _ => false,
                };
                if !ok {
                    ctx.violation(
                        &format!("C10|history|differs-from-fresh-build|after-{}", desc["op"].as_str().unwrap_or("?")),
                        json!({"market_model_latest_quotes": fresh_m.describe(), "log": log, "step": step, "pair": format!("{}{}", model.ccys[a], model.ccys[b]),
                               "observed": x.as_ref().map(num_value), "fresh": y.as_ref().map(num_value)}),
                    );
                    return;
                }
            }
        }
        // and, where derivatives are on, the closed-form sensitivities of the latest quotes
        if cur_order >= 1 && step % 3 == 0 {
            if !check_sensitivities(ctx, &model, &fx, cur_order) {
                return;
            }
        }
    }
    ctx.class(&format!("history-length:{}", if nops <= 5 { "1-5" } else if nops <= 15 { "6-15" } else { "16-30" }));
    ctx.distinct(hash_u64s(&[0x415, idx]));
    if idx < 4 {
        ctx.sample("history", || json!({"initial_market": model.ccys, "operations": log}));
    }
}

impl Prop for C10 {
    fn id(&self) -> &'static str {
        "C10"
    }
    fn phases(&self, tier: Tier) -> Vec<PhaseSpec> {
        vec![ph("markets: every cross x every quote, orders 1 and 2", tier.pick(8_000, 600_000)), ph("operation histories", tier.pick(2_500, 300_000))]
    }
    fn required_classes(&self, _tier: Tier) -> Vec<String> {
        let mut v: Vec<String> = ["order1:quote-on-path", "order1:quote-off-path", "order2:quote-on-path", "order2:quote-off-path", "second-order:same-quote", "second-order:two-quotes", "quotes:plain", "quotes:with-dual",
            "op:update", "op:update-unknown-pair", "op:update-inverse-orientation", "op:update-inconsistent-settlement", "history-length:16-30"]
            .iter()
            .map(|s| s.to_string())
            .collect();
        for a in 0..3 {
            for b in 0..3 {
                v.push(format!("op:set_ad_order:{}->{}", a, b));
            }
        }
        v.push("update:same-value-other-derivative-content".to_string());
        v.push("update:identical-quote".to_string());
        v.push("route:python-facing-methods".to_string());
        v.push("route:core-methods".to_string());
        v
    }
    fn min_evaluations(&self, tier: Tier) -> u64 {
        tier.pick(100_000, 5_000_000)
    }
    fn rule(&self) -> String {
        "Markets from C09's generator (n=2..10, all shapes, quotes as floats or as Dual/Dual2 with own / shared variables). For every cross and every quote variable: gradient1 at order 1 and 2 against s*cross/q (s=+1/-1/0 by path direction; dual quotes scaled by their own coefficients), gradient2 at order 2 against s_i*s_j*cross/(q_i*q_j) and s_i(s_i-1)*cross/q_i^2, and no differently-named variable. Histories of 1-30 operations over {update of a random subset, update naming an unknown pair (alone or mixed with a valid one), update in inverse orientation, update with an inconsistent settlement date, set_ad_order 0/1/2}: after EVERY operation all n^2 rates are compared (<=4 ulp) with a market freshly built from the model's latest quotes, refused updates must leave the complete observable state (rates, derivatives, quotes, currency order, order) bit-identical, order switches must not move values. distinct_nontrivial = distinct markets / histories.".into()
    }
    fn assumptions(&self) -> Vec<String> {
        vec![
            "a successful update rebuilds the matrix at the default first order (as the constructor does)".into(),
            "state is read through rate() plus the read-only verif views of quotes / currency order / order".into(),
        ]
    }
    fn run_case(&mut self, ctx: &mut Ctx, phase: usize, idx: u64, rng: &mut Rng) {
        if phase == 0 {
            let n = 2 + (idx % 9) as usize;
            let (edges, shape) = random_tree_edges(rng, n);
            let dual_prob = if idx % 3 == 0 { 0.0 } else { 0.4 };
            let m = market_from_edges(rng, n, &edges, dual_prob, None, None, None);
            ctx.crumb(&format!("market {}", m.describe()));
            ctx.class(if m.quotes.iter().all(|q| matches!(q.val, QuoteVal::F(_))) { "quotes:plain" } else { "quotes:with-dual" });
            let mut fx = match guarded(|| m.build()) {
                Caught::Ok(Ok(Ok(fx))) => fx,
                Caught::Panic { loc, msg } if !is_harness_location(&loc) => {
                    ctx.violation(&format!("C10|panic|try_new|{}", short_loc(&loc)), json!({"market": m.describe(), "message": msg}));
                    return;
                }
                _ => {
                    ctx.violation("C10|valid-market-rejected", json!({"market": m.describe()}));
                    return;
                }
            };
            let _ = rateslib::verif::fx_take_trace();
            if !check_sensitivities(ctx, &m, &fx, 1) {
                return;
            }
            if fx.set_ad_order(ADOrder::Two).is_err() {
                ctx.violation("C10|set_ad_order-failed", json!({"market": m.describe()}));
                return;
            }
            if !check_sensitivities(ctx, &m, &fx, 2) {
                return;
            }
            // back down: 2 -> 1 keeps the first-order sensitivities
            if fx.set_ad_order(ADOrder::One).is_err() || !check_sensitivities(ctx, &m, &fx, 1) {
                return;
            }
            ctx.distinct(hash_u64s(&[0x5e5, idx]));
            ctx.sample(shape, || m.describe());
        } else {
            history_case(ctx, rng, idx);
        }
    }
}
