//! C11 - curve look-ups follow each interpolation rule at, between and beyond nodes.

use super::curvegen::*;
use crate::refad::{Noise, RNum};
use crate::rng::Rng;
use crate::sup::{guarded, is_harness_location, ph, short_loc, Caught, Ctx, PhaseSpec, Prop, Tier};
use crate::util::{hash_u64s, rel_close};
use chrono::NaiveDateTime;
use indexmap::IndexMap;
use rateslib::calendars::{get_calendar_by_name, Cal, CalType, Convention, Modifier};
use rateslib::curves::{CurveDF, CurveInterpolation, FlatBackwardInterpolator, FlatForwardInterpolator, LinearInterpolator, LinearZeroRateInterpolator, LogLinearInterpolator, Nodes};
use rateslib::dual::{ADOrder, Number};
use rateslib::verif::VerifCurve;
use serde_json::json;

pub struct C11 {}

impl C11 {
    pub fn new() -> Self {
        C11 {}
    }
}

fn nodes_f64(c: &CurveSpec) -> Nodes {
    let mut m: IndexMap<NaiveDateTime, f64> = IndexMap::new();
    for i in c.supply.iter() {
        m.insert(ts_to_ndt(c.ts[*i]), c.vals[*i]);
    }
    Nodes::F64(m)
}

pub fn nodes_numbers(c: &CurveSpec) -> IndexMap<NaiveDateTime, Number> {
    let mut m: IndexMap<NaiveDateTime, Number> = IndexMap::new();
    for i in c.supply.iter() {
        m.insert(ts_to_ndt(c.ts[*i]), Number::F64(c.vals[*i]));
    }
    m
}

fn tol_for(rule: &str) -> f64 {
    match rule {
        "linear" | "flat_forward" | "flat_backward" => 1e-13,
        _ => 1e-11,
    }
}

/// judge one looked-up value
#[allow(clippy::too_many_arguments)]
fn judge(ctx: &mut Ctx, c: &CurveSpec, via: &str, x: i64, cls: &str, got: f64, got_index: usize) -> bool {
    let vals: Vec<RNum> = c.vals.iter().map(|v| RNum::constant(*v)).collect();
    let want = closed_form(c.rule, &c.ts, &vals, x, &mut Noise::exact()).v;
    // conditioning of the exp/ln rules at this point (extreme spacings make r1 + (r2 - r1) cancel):
    // spread of noisy evaluations of the same closed form
    let mut spread = 0.0f64;
    if c.rule == "log_linear" || c.rule == "linear_zero_rate" {
        for s in 0..4u64 {
            let v = closed_form(c.rule, &c.ts, &vals, x, &mut Noise::noisy((x as u64).wrapping_mul(31).wrapping_add(s))).v;
            spread = spread.max((v - want).abs());
        }
        if !(spread.is_finite()) || spread > 1e-7 * want.abs() || !want.is_finite() || want == 0.0 {
            ctx.skip("ill-conditioned or out of floating range");
            return true;
        }
    }
    let i = interval_index(&c.ts, x);
    ctx.asserted(2);
    ctx.class(&format!("{}:{}", c.rule, cls));
    let case = || json!({"curve": c.describe(), "via": via, "query": ts_to_ndt(x).to_string(), "query_class": cls, "sorted_node_times": c.ts.iter().map(|t| ts_to_ndt(*t).to_string()).collect::<Vec<_>>(), "sorted_node_values": c.vals});
    if got_index != i {
        ctx.violation(&format!("C11|node_index|{}", cls), json!({"case": case(), "observed_index": got_index, "expected_index": i}));
        return false;
    }
    // magnitude of the two node values bounds the rounding of the linear forms
    let mag = c.vals[i].abs().max(c.vals[i + 1].abs());
    let tol = tol_for(c.rule);
    let ok = match c.rule {
        "linear" => {
            // extrapolation weight can be large: scale the absolute tolerance by it
            let w = ((x - c.ts[i]) as f64 / (c.ts[i + 1] - c.ts[i]) as f64).abs().max(1.0);
            rel_close(got, want, tol, tol * mag * w)
        }
        "flat_forward" | "flat_backward" => got.to_bits() == want.to_bits(),
        _ => rel_close(got, want, tol * (1.0 + want.ln().abs()), crate::refad::BAND_K * spread),
    };
    if !ok {
        ctx.violation(&format!("C11|value|{}|{}", c.rule, cls), json!({"case": case(), "interval": i, "observed": got, "expected": want}));
        return false;
    }
    // at a node: the node's value (zero-rate rule at its first node: 1)
    if let Some(k) = c.ts.iter().position(|t| *t == x) {
        let node_want = if c.rule == "linear_zero_rate" && k == 0 { 1.0 } else { c.vals[k] };
        ctx.asserted(1);
        let okn = match c.rule {
            "flat_forward" | "flat_backward" => got.to_bits() == node_want.to_bits(),
            "linear" => rel_close(got, node_want, 1e-13, 1e-13 * mag),
            _ => rel_close(got, node_want, tol * (1.0 + node_want.ln().abs()), crate::refad::BAND_K * spread),
        };
        if !okn {
            ctx.violation(&format!("C11|node-value|{}|{}", c.rule, cls), json!({"case": case(), "node": k, "observed": got, "expected_node_value": node_want}));
            return false;
        }
    }
    // in range, the first two rules stay between the two node values
    if (c.rule == "linear" || c.rule == "log_linear") && x >= c.ts[0] && x <= c.ts[c.n() - 1] {
        let (lo, hi) = (c.vals[i].min(c.vals[i + 1]), c.vals[i].max(c.vals[i + 1]));
        ctx.asserted(1);
        // rounding of y1 + (y2 - y1) * w is relative to the larger node value
        let slack = 1e-13 * hi.abs().max(lo.abs()) + if c.rule == "log_linear" { crate::refad::BAND_K * spread + 1e-11 * hi * (1.0 + hi.ln().abs()) } else { 0.0 };
        if got < lo - slack || got > hi + slack {
            ctx.violation(&format!("C11|outside-node-range|{}", c.rule), json!({"case": case(), "observed": got, "between": [lo, hi]}));
            return false;
        }
    }
    true
}

fn num_val(n: &Number) -> f64 {
    match n {
        Number::F64(f) => *f,
        Number::Dual(d) => d.real(),
        Number::Dual2(d) => d.real(),
    }
}

fn run_generic<T: CurveInterpolation>(ctx: &mut Ctx, c: &CurveSpec, interp: T, qs: &[(i64, &'static str)], cal: Cal) -> bool {
    let curve = match CurveDF::try_new(nodes_f64(c), interp, &c.id, Convention::Act360, Modifier::ModF, c.index_base, cal) {
        Ok(cv) => cv,
        Err(_) => {
            ctx.violation("C11|constructor-error|CurveDF", json!({"curve": c.describe()}));
            return false;
        }
    };
    for (x, cls) in qs.iter() {
        let dt = ts_to_ndt(*x);
        let got = guarded(|| (curve.interpolated_value(&dt), curve.node_index(*x)));
        ctx.eval(2);
        match got {
            Caught::Ok((v, idx)) => {
                if !matches!(v, Number::F64(_)) {
                    ctx.violation("C11|wrong-kind", json!({"curve": c.describe()}));
                    return false;
                }
                if !judge(ctx, c, "CurveDF::try_new", *x, cls, num_val(&v), idx) {
                    return false;
                }
            }
            Caught::Panic { loc, msg } => {
                if is_harness_location(&loc) {
                    ctx.harness_error(format!("{} {}", loc, msg));
                } else {
                    ctx.violation(&format!("C11|panic|{}|{}", cls, short_loc(&loc)), json!({"curve": c.describe(), "query": dt.to_string(), "message": msg}));
                }
                return false;
            }
        }
    }
    true
}

impl Prop for C11 {
    fn id(&self) -> &'static str {
        "C11"
    }
    fn phases(&self, tier: Tier) -> Vec<PhaseSpec> {
        vec![ph("curves x 5 rules (both constructors)", tier.pick(40_000, 1_500_000)), ph("index_left on float lists", tier.pick(20_000, 500_000))]
    }
    fn required_classes(&self, _tier: Tier) -> Vec<String> {
        let mut v = vec![];
        for r in RULES {
            for c in ["before-first-node", "at-first-node", "at-interior-node", "at-last-node", "between-nodes", "after-last-node"] {
                v.push(format!("{}:{}", r, c));
            }
            v.push(format!("constructor:{}:CurveDF", r));
            v.push(format!("constructor:{}:python-facing", r));
        }
        for c in ["supply:shuffled", "supply:sorted", "supply:shuffled-equals-sorted:python-facing", "nodes:2", "nodes:3", "nodes:many", "index_left:len2", "index_left:len3", "index_left:long", "index_left:at-element", "index_left:below", "index_left:above"] {
            v.push(c.to_string());
        }
        for h in ["as-built", "restored-from-json", "restored-from-pickle-state"] {
            v.push(format!("looked-up:{}", h));
        }
        for k in ["float", "Dual", "Dual2"] {
            v.push(format!("node-kind:{}", k));
        }
        v
    }
    fn min_evaluations(&self, tier: Tier) -> u64 {
        tier.pick(500_000, 50_000_000)
    }
    fn rule(&self) -> String {
        "Seeded curves for each of the 5 rules: 2..12 (thorough 2..40) nodes, spacings from 1 second and 1 day to 10 years (second-resolution timestamps), positive values (discount-factor-like, near one, arbitrary, spanning 1e-6..1e6), shuffled supply order, built through CurveDF::try_new and through the Python-facing constructor (verif hook); two in three of the latter are looked up only after being restored from JSON or from the pickle state; a Python-facing curve whose nodes were supplied shuffled is also compared with the one built from the same nodes in date order (node table, ==, and every looked-up number with names and derivative parts bit for bit, at node kinds float / Dual / Dual2). Queries: every node, +-1 s and +-1 day around every node, midpoints, random interior points, far before / after. Each value against the rule's closed form on the oracle-selected interval (linear scan), node values at node dates, [min,max] containment for linear / log-linear, and node_index; separately index_left on strictly increasing random float lists of length 2..64. distinct_nontrivial = distinct (rule, node count, spacing kind, value kind, supply permutation hash).".into()
    }
    fn assumptions(&self) -> Vec<String> {
        vec![
            "node dates are distinct; values positive".into(),
            "tolerances: flat rules bit-exact; linear 1e-13 relative to the node magnitudes (times the extrapolation weight); exp/ln rules 1e-11 scaled by (1+|ln value|)".into(),
            "the zero-rate rule returns 1 at its first node whatever that node's value (as the statement says)".into(),
        ]
    }
    fn run_case(&mut self, ctx: &mut Ctx, phase: usize, idx: u64, rng: &mut Rng) {
        if phase == 0 {
            let rule = RULES[(idx % 5) as usize];
            let maxn = ctx.tier.pick(12, 40);
            let mut c = gen_curve(rng, rule, maxn);
            // class forcing: the first cases of every rule have 2 and 3 nodes, sorted and shuffled supply
            match idx / 5 {
                0 => {
                    c.ts.truncate(2);
                    c.vals.truncate(2);
                    c.supply = vec![0, 1];
                }
                1 => {
                    let mut c3 = gen_curve(rng, rule, 3);
                    while c3.n() != 3 {
                        c3 = gen_curve(rng, rule, 3);
                    }
                    c3.supply = vec![2, 0, 1];
                    c = c3;
                }
                _ => {}
            }
            let qs = queries(&c, rng);
            ctx.crumb(&format!("curve {}", c.describe()));
            ctx.class(if c.supply.windows(2).all(|w| w[0] < w[1]) { "supply:sorted" } else { "supply:shuffled" });
            ctx.class(match c.n() {
                2 => "nodes:2",
                3 => "nodes:3",
                _ => "nodes:many",
            });
            let cal = get_calendar_by_name("bus").unwrap();
            ctx.class(&format!("constructor:{}:CurveDF", rule));
            let ok = match rule {
                "linear" => run_generic(ctx, &c, LinearInterpolator::new(), &qs, cal.clone()),
                "log_linear" => run_generic(ctx, &c, LogLinearInterpolator::new(), &qs, cal.clone()),
                "linear_zero_rate" => run_generic(ctx, &c, LinearZeroRateInterpolator::new(), &qs, cal.clone()),
                "flat_forward" => run_generic(ctx, &c, FlatForwardInterpolator::new(), &qs, cal.clone()),
                _ => run_generic(ctx, &c, FlatBackwardInterpolator::new(), &qs, cal.clone()),
            };
            if !ok {
                return;
            }
            // the Python-facing constructor sorts mixed-kind node maps itself
            ctx.class(&format!("constructor:{}:python-facing", rule));
            // node values may be held as floats or as first- / second-order dual numbers: the looked-up VALUE follows
            // the same rule whatever the kind (the sensitivities are C12's business)
            let ad_kind = [ADOrder::Zero, ADOrder::One, ADOrder::Two][((idx / 3) % 3) as usize];
            ctx.class(&format!("node-kind:{}", ["float", "Dual", "Dual2"][((idx / 3) % 3) as usize]));
            match guarded(|| VerifCurve::new(nodes_numbers(&c), rule, ad_kind, &c.id, Convention::Act365F, Modifier::F, CalType::Cal(cal.clone()), c.index_base)) {
                Caught::Ok(Ok(vc)) => {
                    // a curve that has been saved and restored is still a curve: two in three of these are looked
                    // up only after a trip through JSON or through the pickle state
                    let how = ["as-built", "restored-from-json", "restored-from-pickle-state"][(idx % 3) as usize];
                    ctx.class(&format!("looked-up:{}", how));
                    let restored = guarded(|| match idx % 3 {
                        1 => vc.to_json_plain().and_then(|j| VerifCurve::from_json_plain(&j)),
                        2 => VerifCurve::from_state_bytes(&vc.getstate_bytes()),
                        _ => Ok(vc.clone()),
                    });
                    let vc = match restored {
                        Caught::Ok(Ok(v)) => v,
                        Caught::Ok(Err(e)) => {
                            ctx.violation(&format!("C11|{}|error", how), json!({"curve": c.describe(), "error": e}));
                            return;
                        }
                        Caught::Panic { loc, msg } => {
                            if is_harness_location(&loc) {
                                ctx.harness_error(format!("{} {}", loc, msg));
                            } else {
                                ctx.violation(&format!("C11|panic|{}|{}", how, short_loc(&loc)), json!({"curve": c.describe(), "message": msg}));
                            }
                            return;
                        }
                    };
                    // "the order in which nodes are supplied does not matter": the same nodes given in date order
                    // make the same curve - node table, every looked-up number with its variable names and
                    // derivative parts bit for bit, and == - at whatever derivative order it was built
                    if !c.supply.windows(2).all(|w| w[0] < w[1]) {
                        let mut sorted_spec = c.clone();
                        sorted_spec.supply = (0..c.n()).collect();
                        ctx.class("supply:shuffled-equals-sorted:python-facing");
                        match guarded(|| VerifCurve::new(nodes_numbers(&sorted_spec), rule, ad_kind, &c.id, Convention::Act365F, Modifier::F, CalType::Cal(cal.clone()), c.index_base)) {
                            Caught::Ok(Ok(vs)) => {
                                ctx.eval(1);
                                ctx.asserted(2 + qs.len() as u64);
                                let (na, nb) = (vc.nodes(), vs.nodes());
                                let table_same = na.len() == nb.len() && na.iter().zip(nb.iter()).all(|((k1, v1), (k2, v2))| k1 == k2 && super::c16::number_identical(v1, v2));
                                if !table_same || !vc.eq(&vs) {
                                    ctx.violation(
                                        &format!("C11|supply-order-matters|{}", if table_same { "curves-compare-unequal" } else { "node-table-differs" }),
                                        json!({"curve": c.describe(), "node_kind": format!("{:?}", ad_kind), "nodes_when_supplied_shuffled": na.iter().map(|(k, v)| format!("{} {:?}", k, v)).take(6).collect::<Vec<_>>(), "nodes_when_supplied_in_date_order": nb.iter().map(|(k, v)| format!("{} {:?}", k, v)).take(6).collect::<Vec<_>>()}),
                                    );
                                    return;
                                }
                                for (x, cls) in qs.iter() {
                                    let dt = ts_to_ndt(*x);
                                    if let Caught::Ok((a, b)) = guarded(|| (vc.value(&dt), vs.value(&dt))) {
                                        if !super::c16::number_identical(&a, &b) {
                                            ctx.violation("C11|supply-order-matters|looked-up-number-differs", json!({"curve": c.describe(), "query": dt.to_string(), "query_class": cls, "shuffled_supply": format!("{:?}", a), "date_order_supply": format!("{:?}", b)}));
                                            return;
                                        }
                                    }
                                }
                            }
                            Caught::Ok(Err(e)) => {
                                ctx.violation("C11|constructor-error|python-facing", json!({"curve": sorted_spec.describe(), "error": e}));
                                return;
                            }
                            Caught::Panic { loc, msg } => {
                                ctx.violation(&format!("C11|panic|python-facing-constructor|{}", short_loc(&loc)), json!({"curve": sorted_spec.describe(), "message": msg}));
                                return;
                            }
                        }
                    }
                    let label = format!("Python-facing Curve ({})", how);
                    for (x, cls) in qs.iter() {
                        let dt = ts_to_ndt(*x);
                        match guarded(|| (vc.value(&dt), vc.node_index(*x))) {
                            Caught::Ok((v, i)) => {
                                ctx.eval(2);
                                if !judge(ctx, &c, &label, *x, cls, num_val(&v), i) {
                                    return;
                                }
                            }
                            Caught::Panic { loc, msg } => {
                                if is_harness_location(&loc) {
                                    ctx.harness_error(format!("{} {}", loc, msg));
                                } else {
                                    ctx.violation(&format!("C11|panic|python-facing|{}", short_loc(&loc)), json!({"curve": c.describe(), "query": dt.to_string(), "message": msg}));
                                }
                                return;
                            }
                        }
                    }
                }
                Caught::Ok(Err(e)) => {
                    ctx.violation("C11|constructor-error|python-facing", json!({"curve": c.describe(), "error": e}));
                    return;
                }
                Caught::Panic { loc, msg } => {
                    ctx.violation(&format!("C11|panic|python-facing-constructor|{}", short_loc(&loc)), json!({"curve": c.describe(), "message": msg}));
                    return;
                }
            }
            ctx.distinct(hash_u64s(&[crate::util::hash_str(rule), c.n() as u64, crate::util::hash_str(c.spacing), crate::util::hash_str(c.values_kind), hash_u64s(&c.supply.iter().map(|x| *x as u64).collect::<Vec<_>>())]));
            ctx.sample(rule, || json!({"curve": c.describe(), "queries": qs.iter().take(8).map(|(t, k)| json!([ts_to_ndt(*t).to_string(), k])).collect::<Vec<_>>()}));
        } else {
            // index_left on strictly increasing float lists
            let n = match idx % 4 {
                0 => 2,
                1 => 3,
                _ => 2 + rng.usize(63),
            };
            let mut v: Vec<f64> = Vec::with_capacity(n);
            let mut x = rng.real();
            for _ in 0..n {
                v.push(x);
                x += match rng.below(3) {
                    0 => f64::EPSILON * x.abs().max(1.0) * 4.0,
                    1 => rng.log_uniform(1e-3, 10.0),
                    _ => rng.log_uniform(1e-9, 1e6),
                };
            }
            if v.windows(2).any(|w| w[0] >= w[1]) {
                ctx.skip("list not strictly increasing after rounding");
                return;
            }
            ctx.class(match n {
                2 => "index_left:len2",
                3 => "index_left:len3",
                _ => "index_left:long",
            });
            let mut probes: Vec<(f64, &str)> = vec![(v[0] - 1.0, "index_left:below"), (v[n - 1] + 1.0, "index_left:above")];
            for k in 0..n {
                probes.push((v[k], "index_left:at-element"));
                if k + 1 < n {
                    probes.push((0.5 * (v[k] + v[k + 1]), "index_left:between"));
                }
            }
            ctx.crumb("index_left");
            for (p, cls) in probes {
                let want = interval_index_f64(&v, p);
                let got = guarded(|| rateslib::verif::index_left_f64(&v, &p));
                ctx.eval(1);
                ctx.asserted(1);
                ctx.class(cls);
                match got {
                    Caught::Ok(g) if g == want => {}
                    Caught::Ok(g) => {
                        ctx.violation(&format!("C11|index_left|{}", cls), json!({"list": v, "value": p, "observed": g, "expected": want}));
                        return;
                    }
                    Caught::Panic { loc, msg } => {
                        ctx.violation(&format!("C11|panic|index_left|{}", short_loc(&loc)), json!({"list": v, "value": p, "message": msg}));
                        return;
                    }
                }
            }
            ctx.distinct(hash_u64s(&[0x1d, idx]));
        }
    }
}
