//! C12 - curve values carry exact sensitivities to their nodes at every derivative order.

use super::adtree::ADNum;
use super::c11::nodes_numbers;
use super::curvegen::*;
use crate::refad::{within, Banded, Noise, RNum};
use crate::rng::Rng;
use crate::sup::{guarded, is_harness_location, ph, short_loc, Caught, Ctx, PhaseSpec, Prop, Tier};
use crate::util::{hash_u64s, ulp_diff};
use chrono::NaiveDateTime;
use indexmap::IndexMap;
use rateslib::calendars::{get_calendar_by_name, CalType, Convention, Modifier};
use rateslib::dual::{ADOrder, Dual, Dual2, Number};
use rateslib::verif::VerifCurve;
use serde_json::{json, Value};
use std::collections::BTreeSet;

pub struct C12 {}

impl C12 {
    pub fn new() -> Self {
        C12 {}
    }
}

fn ord(k: usize) -> ADOrder {
    [ADOrder::Zero, ADOrder::One, ADOrder::Two][k]
}
fn ord_idx(o: ADOrder) -> usize {
    match o {
        ADOrder::Zero => 0,
        ADOrder::One => 1,
        ADOrder::Two => 2,
    }
}

fn num_to_rnum(n: &Number) -> Result<RNum, String> {
    match n {
        Number::F64(f) => Ok(RNum::constant(*f)),
        Number::Dual(d) => d.to_rnum(),
        Number::Dual2(d) => d.to_rnum(),
    }
}

fn kind(n: &Number) -> usize {
    match n {
        Number::F64(_) => 0,
        Number::Dual(_) => 1,
        Number::Dual2(_) => 2,
    }
}

fn nj(n: &Number) -> Value {
    match n {
        Number::F64(f) => json!({"F64": f}),
        Number::Dual(d) => json!({"Dual": d.describe()}),
        Number::Dual2(d) => json!({"Dual2": d.describe()}),
    }
}

/// the model: node values as reference numbers (value + current names/derivatives), current order
struct Model {
    vals: Vec<RNum>,
    order: usize,
}

fn banded_cf(rule: &str, ts: &[i64], vals: &[RNum], x: i64, seed: u64) -> Banded {
    let mut b = Banded::new(closed_form(rule, ts, vals, x, &mut Noise::exact()));
    for s in 0..6 {
        b.absorb(&closed_form(rule, ts, vals, x, &mut Noise::noisy(seed.wrapping_add(s))));
    }
    b
}

fn compare(real: &RNum, b: &Banded, second: bool) -> Option<String> {
    let scale = b.norm_inf(second);
    if !within(real.v, b.exact.v, b.sv, scale) && ulp_diff(real.v, b.exact.v) > 16 {
        return Some("value".into());
    }
    let names: BTreeSet<String> = real.names().union(&b.exact.names()).cloned().collect();
    for n in names.iter() {
        if !within(real.gd(n), b.exact.gd(n), b.spread_g(n), scale) {
            return Some(format!("gradient wrt {}", n));
        }
        if second {
            for m in names.iter() {
                if !within(real.hd(n, m), b.exact.hd(n, m), b.spread_h(n, m), scale) {
                    return Some(format!("hessian wrt {},{}", n, m));
                }
            }
        }
    }
    None
}

impl Prop for C12 {
    fn id(&self) -> &'static str {
        "C12"
    }
    fn phases(&self, tier: Tier) -> Vec<PhaseSpec> {
        vec![ph("curves x switch sequences x queries", tier.pick(4_000, 300_000))]
    }
    fn required_classes(&self, _tier: Tier) -> Vec<String> {
        let mut v = vec![];
        for a in 0..3 {
            for b in 0..3 {
                v.push(format!("switch:{}->{}", a, b));
            }
        }
        for r in RULES {
            v.push(format!("sens:{}:order1", r));
            v.push(format!("sens:{}:order2", r));
        }
        for c in ["built:ad0", "built:ad1", "built:ad2", "nodes:float", "nodes:dual-with-foreign-names", "nodes:mixed-kinds", "index:with-base", "index:without-base", "index:before-first-node", "tags:checked", "outside-interval-zero", "readers:names-requested-in-another-order", "node-count:up-to-10", "node-count:11-to-100", "node-count:more-than-100"] {
            v.push(c.to_string());
        }
        v
    }
    fn min_evaluations(&self, tier: Tier) -> u64 {
        tier.pick(200_000, 20_000_000)
    }
    fn rule(&self) -> String {
        "C11's curves (unsorted supply on purpose; mostly 2..8 nodes (thorough 2..14), one in eight with 12..26 and one in 128 with more than 100 nodes, so that node numbers in the tags have two and three digits) built through the Python-facing constructor with ad in {0,1,2} from float nodes, from Dual/Dual2 nodes carrying foreign variable names and coefficients, and from mixed kinds; random sequences of 1-8 derivative-order switches among 0,1,2. After every switch: ad() is right, every looked-up value is unchanged (<=4 ulp), node i (date order) of a float curve is tagged '<id><i>' with unit sensitivity, names survive 1<->2 switches, the library's own gradient1 / gradient2 readers asked for the names in another order than stored agree by name, and gradient / Hessian of every looked-up value equal the derivatives of the rule's closed form w.r.t. the node values (reference AD with noise band; zero for nodes outside the interval). index_value = base/value, 0 before the first node, Err without a base. A history model (node values as reference numbers + current names) predicts every read. distinct_nontrivial = distinct (rule, node count, build order, node kind, switch sequence).".into()
    }
    fn assumptions(&self) -> Vec<String> {
        vec![
            "a switch 1->0 or 2->0 forgets the variables, so a later switch up re-tags nodes '<id><i>'; switches between 1 and 2 keep the names present; 2->1 drops second-order terms only".into(),
            "closed forms as in C11, evaluated in reference AD".into(),
        ]
    }
    fn run_case(&mut self, ctx: &mut Ctx, _phase: usize, idx: u64, rng: &mut Rng) {
        let rule = RULES[(idx % 5) as usize];
        // one case in eight has many nodes (12..26: two-digit node numbers in the tags), one in 128 more than a
        // hundred (three-digit numbers); the rest stay small
        let c = if idx % 128 == 127 {
            loop {
                let c = gen_curve(rng, rule, 112);
                if c.n() > 100 {
                    break c;
                }
            }
        } else if idx % 8 == 7 {
            loop {
                let c = gen_curve(rng, rule, 26);
                if c.n() >= 12 {
                    break c;
                }
            }
        } else {
            gen_curve(rng, rule, ctx.tier.pick(8, 14))
        };
        let n = c.n();
        ctx.class(match n {
            0..=10 => "node-count:up-to-10",
            11..=100 => "node-count:11-to-100",
            _ => "node-count:more-than-100",
        });
        let build_ad = ((idx / 5) % 3) as usize;
        let node_kind = match (idx / 15) % 3 {
            0 => "float",
            1 => "dual-with-foreign-names",
            _ => "mixed-kinds",
        };
        // node inputs in supply order; the model holds them in date order
        let mut model_vals: Vec<RNum> = vec![];
        let mut inputs: Vec<Number> = vec![];
        for k in 0..n {
            let v = c.vals[k];
            let use_dual = match node_kind {
                "float" => false,
                "dual-with-foreign-names" => true,
                _ => rng.bool(),
            };
            if !use_dual {
                inputs.push(Number::F64(v));
                // a float node raised to order >= 1 at construction is tagged <id><k>
                model_vals.push(if build_ad == 0 { RNum::constant(v) } else { RNum::var(v, &format!("{}{}", c.id, k)) });
            } else {
                let names: Vec<String> = if rng.bool() { vec![format!("foreign{}", rng.usize(3))] } else { vec!["fa".to_string(), format!("fb{}", k % 2)] };
                let coef: Vec<f64> = names.iter().map(|_| rng.real()).collect();
                // the kind of the supplied dual does not have to match the build order
                let as_d2 = rng.bool();
                if as_d2 {
                    let nn = names.len();
                    let mut d2 = vec![0.0; nn * nn];
                    let mut h = vec![vec![0.0; nn]; nn];
                    for i in 0..nn {
                        for j in i..nn {
                            let x = if rng.bool() { 0.0 } else { rng.real() };
                            d2[i * nn + j] = x;
                            d2[j * nn + i] = x;
                            h[i][j] = 2.0 * x;
                            h[j][i] = 2.0 * x;
                        }
                    }
                    inputs.push(Number::Dual2(Dual2::try_new(v, names.clone(), coef.clone(), d2).unwrap()));
                    model_vals.push(match build_ad {
                        0 => RNum::constant(v),
                        1 => RNum::from_parts(v, &names, &coef, None),
                        _ => RNum::from_parts(v, &names, &coef, Some(&h)),
                    });
                } else {
                    inputs.push(Number::Dual(Dual::try_new(v, names.clone(), coef.clone()).unwrap()));
                    model_vals.push(if build_ad == 0 { RNum::constant(v) } else { RNum::from_parts(v, &names, &coef, None) });
                }
            }
        }
        let mut m: IndexMap<NaiveDateTime, Number> = IndexMap::new();
        for i in c.supply.iter() {
            m.insert(ts_to_ndt(c.ts[*i]), inputs[*i].clone());
        }
        let _ = nodes_numbers;
        let cal = CalType::Cal(get_calendar_by_name("all").unwrap());
        let case = |extra: Value| json!({"curve": c.describe(), "built_with_ad": build_ad, "node_kind": node_kind, "node_inputs_date_order": inputs.iter().map(nj).collect::<Vec<_>>(), "detail": extra});
        ctx.crumb(&format!("curve {} ad{} {}", c.describe(), build_ad, node_kind));
        let mut curve = match guarded(|| VerifCurve::new(m, rule, ord(build_ad), &c.id, Convention::Act365F, Modifier::ModF, cal, c.index_base)) {
            Caught::Ok(Ok(cv)) => cv,
            Caught::Ok(Err(e)) => {
                ctx.violation("C12|constructor-error", case(json!({"error": e})));
                return;
            }
            Caught::Panic { loc, msg } => {
                if is_harness_location(&loc) {
                    ctx.harness_error(format!("{} {}", loc, msg));
                } else {
                    ctx.violation(&format!("C12|panic|constructor|{}", short_loc(&loc)), case(json!({"message": msg})));
                }
                return;
            }
        };
        ctx.class(&format!("built:ad{}", build_ad));
        ctx.class(&format!("nodes:{}", node_kind));
        let mut model = Model { vals: model_vals, order: build_ad };
        let qs = queries(&c, rng);
        let nswitch = 1 + rng.usize(8);
        let mut seq: Vec<usize> = vec![];
        for step in 0..=nswitch {
            if step > 0 {
                let k = rng.usize(3);
                seq.push(k);
                ctx.class(&format!("switch:{}->{}", model.order, k));
                match guarded(|| curve.set_ad_order(ord(k))) {
                    Caught::Ok(()) => {}
                    Caught::Panic { loc, msg } => {
                        ctx.violation(&format!("C12|panic|set_ad_order|{}", short_loc(&loc)), case(json!({"sequence": seq, "message": msg})));
                        return;
                    }
                }
                // the model's transition
                match (model.order, k) {
                    (a, b) if a == b => {}
                    (_, 0) => model.vals = model.vals.iter().map(|v| RNum::constant(v.v)).collect(),
                    (0, _) => model.vals = model.vals.iter().enumerate().map(|(i, v)| RNum::var(v.v, &format!("{}{}", c.id, i))).collect(),
                    (1, 2) => {}
                    (2, 1) => model.vals = model.vals.iter().map(|v| v.first_order()).collect(),
                    _ => {}
                }
                model.order = k;
            }
            ctx.eval(1);
            ctx.asserted(1);
            if ord_idx(curve.ad()) != model.order {
                ctx.violation("C12|ad-wrong", case(json!({"sequence": seq, "observed": ord_idx(curve.ad()), "expected": model.order})));
                return;
            }
            // node read-back: tags, names and values in date order
            let nodes = curve.nodes();
            ctx.asserted(1);
            let keys: Vec<i64> = nodes.keys().map(|k| k.and_utc().timestamp()).collect();
            if keys != c.ts {
                ctx.violation("C12|nodes-not-in-date-order", case(json!({"sequence": seq, "observed_keys": keys})));
                return;
            }
            for (i, (_, v)) in nodes.iter().enumerate() {
                ctx.asserted(1);
                let got = match num_to_rnum(v) {
                    Ok(g) => g,
                    Err(e) => {
                        ctx.violation("C12|shape|node", case(json!({"what": e})));
                        return;
                    }
                };
                let want = &model.vals[i];
                let second = model.order == 2;
                let names_ok = {
                    // names carrying a non-zero derivative must be exactly the model's
                    let gn: BTreeSet<String> = got.g.iter().filter(|(_, x)| **x != 0.0).map(|(k, _)| k.clone()).collect();
                    let wn: BTreeSet<String> = want.g.iter().filter(|(_, x)| **x != 0.0).map(|(k, _)| k.clone()).collect();
                    gn == wn
                };
                let vals_ok = got.v.to_bits() == want.v.to_bits() && want.g.iter().all(|(k, x)| got.gd(k) == *x) && (!second || want.h.iter().all(|((a, b), x)| got.hd(a, b) == *x)) && (second || got.h.values().all(|x| *x == 0.0));
                if kind(v) != model.order || !names_ok || !vals_ok {
                    let what = if kind(v) != model.order {
                        "kind"
                    } else if !names_ok {
                        "variable-names"
                    } else {
                        "content"
                    };
                    ctx.violation(
                        &format!("C12|node-{}|after-{}", what, seq.last().map(|k| format!("switch-to-{}", k)).unwrap_or("construction".into())),
                        case(json!({"sequence": seq, "node_index_in_date_order": i, "observed": nj(v), "expected_value": want.v, "expected_grad": want.g, "expected_order": model.order})),
                    );
                    return;
                }
            }
            if node_kind == "float" && model.order >= 1 {
                ctx.class("tags:checked");
            }
            // looked-up values: unchanged, with the derivatives of the closed form
            for (x, cls) in qs.iter() {
                let dt = ts_to_ndt(*x);
                let got = match guarded(|| curve.value(&dt)) {
                    Caught::Ok(g) => g,
                    Caught::Panic { loc, msg } => {
                        ctx.violation(&format!("C12|panic|value|{}", short_loc(&loc)), case(json!({"sequence": seq, "query": dt.to_string(), "message": msg})));
                        return;
                    }
                };
                ctx.eval(1);
                let second = model.order == 2;
                let band = banded_cf(rule, &c.ts, &model.vals, *x, rng.next());
                if band.ill_conditioned(second) {
                    ctx.skip("ill-conditioned");
                    continue;
                }
                let mag = band.norm_inf(true);
                if !(mag < 1e100) || band.exact.v.abs() < 1e-100 {
                    ctx.skip("out of floating range (extreme extrapolation)");
                    continue;
                }
                let real = match num_to_rnum(&got) {
                    Ok(r) => r,
                    Err(e) => {
                        ctx.violation("C12|shape|value", case(json!({"what": e})));
                        return;
                    }
                };
                ctx.asserted(1);
                if kind(&got) != model.order {
                    ctx.violation("C12|value-kind", case(json!({"sequence": seq, "query": dt.to_string(), "observed": nj(&got), "expected_order": model.order})));
                    return;
                }
                // the value itself never moves: compare with the float closed form of the ORIGINAL values
                let floats: Vec<RNum> = c.vals.iter().map(|v| RNum::constant(*v)).collect();
                let v0 = closed_form(rule, &c.ts, &floats, *x, &mut Noise::exact()).v;
                if ulp_diff(real.v, v0) > 4 && !crate::util::rel_close(real.v, v0, 1e-11 * (1.0 + v0.ln().abs()), 0.0) {
                    ctx.violation(&format!("C12|value-moved|order{}", model.order), case(json!({"sequence": seq, "query": dt.to_string(), "observed": real.v, "float_value": v0})));
                    return;
                }
                if model.order >= 1 {
                    ctx.class(&format!("sens:{}:order{}", rule, model.order));
                    if let Some(what) = compare(&real, &band, second) {
                        ctx.violation(
                            &format!("C12|sensitivity|{}|order{}|{}", rule, model.order, cls),
                            case(json!({"sequence": seq, "query": dt.to_string(), "query_class": cls, "component": what, "observed": nj(&got),
                                        "expected_value": band.exact.v, "expected_grad": band.exact.g,
                                        "expected_hess": band.exact.h.iter().map(|((a, b), v)| (format!("{},{}", a, b), json!(v))).collect::<serde_json::Map<_, _>>()})),
                        );
                        return;
                    }
                    // the library's own readers, asked for the names the value carries in ANOTHER order than it stores
                    // them (sorted, reverse-sorted: an interpolated value holds its two nodes right node first), give the
                    // same derivatives by name
                    {
                        use rateslib::dual::{Gradient1, Gradient2};
                        let sorted: Vec<String> = real.names().into_iter().collect();
                        let mut reversed = sorted.clone();
                        reversed.reverse();
                        for req in [sorted, reversed] {
                            if req.is_empty() {
                                continue;
                            }
                            ctx.eval(1);
                            ctx.asserted(1);
                            ctx.class("readers:names-requested-in-another-order");
                            let (g1, g2): (Vec<f64>, Option<Vec<Vec<f64>>>) = match &got {
                                Number::Dual(d) => (d.gradient1(req.clone()).to_vec(), None),
                                Number::Dual2(d) => {
                                    let h = d.gradient2(req.clone());
                                    (d.gradient1(req.clone()).to_vec(), Some((0..req.len()).map(|i| (0..req.len()).map(|j| h[[i, j]]).collect()).collect()))
                                }
                                Number::F64(_) => (vec![], None),
                            };
                            let same = |a: f64, b: f64| a == b || crate::util::close_ulps(a, b, 2, 0.0) || (a.is_nan() && b.is_nan());
                            let mut bad = g1.len() != req.len() || req.iter().enumerate().any(|(i, a)| !same(g1[i], real.gd(a)));
                            if let Some(h) = &g2 {
                                for (i, a) in req.iter().enumerate() {
                                    for (j, b) in req.iter().enumerate() {
                                        if !same(h[i][j], real.hd(a, b)) {
                                            bad = true;
                                        }
                                    }
                                }
                            }
                            if bad {
                                ctx.violation(
                                    &format!("C12|readers|derivatives-by-name-differ|order{}", model.order),
                                    case(json!({"sequence": seq, "query": dt.to_string(), "requested": req, "value": nj(&got), "gradient1": g1, "gradient2": g2})),
                                );
                                return;
                            }
                        }
                    }
                    // zero for nodes outside the interval used (float curves: one variable per node)
                    if node_kind == "float" {
                        let i = interval_index(&c.ts, *x);
                        for k in 0..n {
                            if k != i && k != i + 1 {
                                ctx.asserted(1);
                                if real.gd(&format!("{}{}", c.id, k)) != 0.0 {
                                    ctx.violation("C12|sensitivity-outside-interval", case(json!({"sequence": seq, "query": dt.to_string(), "node": k, "observed": nj(&got)})));
                                    return;
                                }
                            }
                        }
                        if n > 2 {
                            ctx.class("outside-interval-zero");
                        }
                    }
                }
                // index value = base / value, 0 before the first node, Err without a base
                if *x % 3 == 0 || *x < c.ts[0] {
                    let iv = guarded(|| curve.index_value(&dt));
                    ctx.eval(1);
                    ctx.asserted(1);
                    match (c.index_base, iv) {
                        (None, Caught::Ok(Err(()))) => ctx.class("index:without-base"),
                        (None, Caught::Ok(Ok(v))) => {
                            ctx.violation("C12|index_value|no-base-but-ok", case(json!({"observed": nj(&v)})));
                            return;
                        }
                        (Some(base), Caught::Ok(Ok(v))) => {
                            if *x < c.ts[0] {
                                ctx.class("index:before-first-node");
                                let z = num_to_rnum(&v).map(|r| r.v == 0.0 && r.g.values().all(|g| *g == 0.0)).unwrap_or(false);
                                if !z {
                                    ctx.violation("C12|index_value|before-first-node-not-zero", case(json!({"query": dt.to_string(), "observed": nj(&v)})));
                                    return;
                                }
                            } else {
                                ctx.class("index:with-base");
                                let f = |nz: &mut Noise| {
                                    let cf = closed_form(rule, &c.ts, &model.vals, *x, nz);
                                    RNum::div(&RNum::constant(base), &cf, nz)
                                };
                                let mut b2 = Banded::new(f(&mut Noise::exact()));
                                for s in 0..6 {
                                    b2.absorb(&f(&mut Noise::noisy(rng.next() ^ s)));
                                }
                                if !b2.ill_conditioned(second) && b2.norm_inf(true) < 1e100 {
                                    let r = num_to_rnum(&v).unwrap_or(RNum::constant(f64::NAN));
                                    if let Some(what) = compare(&r, &b2, second) {
                                        ctx.violation(&format!("C12|index_value|{}|order{}", rule, model.order), case(json!({"sequence": seq, "query": dt.to_string(), "component": what, "observed": nj(&v), "expected_value": b2.exact.v, "index_base": base})));
                                        return;
                                    }
                                }
                            }
                        }
                        (Some(_), Caught::Ok(Err(()))) => {
                            ctx.violation("C12|index_value|err-with-base", case(json!({"query": dt.to_string()})));
                            return;
                        }
                        (_, Caught::Panic { loc, msg }) => {
                            ctx.violation(&format!("C12|panic|index_value|{}", short_loc(&loc)), case(json!({"query": dt.to_string(), "message": msg})));
                            return;
                        }
                    }
                }
            }
        }
        ctx.distinct(hash_u64s(&[crate::util::hash_str(rule), n as u64, build_ad as u64, crate::util::hash_str(node_kind), hash_u64s(&seq.iter().map(|x| *x as u64).collect::<Vec<_>>())]));
        if idx < 30 {
            ctx.sample(&format!("{}:ad{}:{}", rule, build_ad, node_kind), || json!({"curve": c.describe(), "built_with_ad": build_ad, "node_kind": node_kind, "switch_sequence": seq}));
        }
    }
}
