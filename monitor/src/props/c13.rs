//! C13 - the linear solver returns the true solution together with its derivatives.

use super::adtree::ADNum;
use crate::refad::{Noise, RNum};
use crate::rng::Rng;
use crate::sup::{guarded, is_harness_location, ph, short_loc, Caught, Ctx, PhaseSpec, Prop, Tier};
use crate::util::hash_u64s;
use ndarray::{Array1, Array2};
use rateslib::dual::linalg::{dmul21_, dsolve, fdsolve};
use rateslib::dual::{Dual, Dual2, Number};
use serde_json::{json, Value};
use std::collections::BTreeSet;

pub struct C13 {}

impl C13 {
    pub fn new() -> Self {
        C13 {}
    }
}

const NAMES: [&str; 5] = ["a", "b", "c", "d", "e"];

/// abstract entry: value + optional derivative content keyed by name index
#[derive(Clone, Debug)]
struct Entry {
    v: f64,
    /// (name indices in layout order, first derivatives, symmetric full second partials)
    d: Option<(Vec<usize>, Vec<f64>, Vec<Vec<f64>>)>,
}

fn gen_deriv(r: &mut Rng, np: usize) -> (Vec<usize>, Vec<f64>, Vec<Vec<f64>>) {
    let mut idx: Vec<usize> = (0..np).collect();
    r.shuffle(&mut idx);
    idx.truncate(1 + r.usize(np));
    let n = idx.len();
    let g: Vec<f64> = (0..n).map(|_| r.real() * 0.3).collect();
    let mut h = vec![vec![0.0; n]; n];
    for i in 0..n {
        for j in i..n {
            let x = if r.chance(0.4) { 0.0 } else { r.real() * 0.1 };
            h[i][j] = x;
            h[j][i] = x;
        }
    }
    (idx, g, h)
}

impl Entry {
    fn rnum(&self, order: usize) -> RNum {
        match (&self.d, order) {
            (Some((idx, g, h)), o) if o >= 1 => {
                let names: Vec<String> = idx.iter().map(|i| NAMES[*i].to_string()).collect();
                RNum::from_parts(self.v, &names, g, if o == 2 { Some(h) } else { None })
            }
            _ => RNum::constant(self.v),
        }
    }
    fn dual(&self) -> Dual {
        match &self.d {
            Some((idx, g, _)) => Dual::try_new(self.v, idx.iter().map(|i| NAMES[*i].to_string()).collect(), g.clone()).unwrap(),
            None => Dual::new(self.v, vec![]),
        }
    }
    fn dual2(&self) -> Dual2 {
        match &self.d {
            Some((idx, g, h)) => {
                let d2: Vec<f64> = h.iter().flat_map(|r| r.iter().map(|x| 0.5 * x)).collect();
                Dual2::try_new(self.v, idx.iter().map(|i| NAMES[*i].to_string()).collect(), g.clone(), d2).unwrap()
            }
            None => Dual2::new(self.v, vec![]),
        }
    }
}

/// own float LU with partial pivoting: (row swaps, min |pivot| / max |pivot|)
fn lu_stats(a: &[Vec<f64>]) -> (usize, f64) {
    let n = a.len();
    let mut m: Vec<Vec<f64>> = a.to_vec();
    let mut swaps = 0;
    let (mut pmin, mut pmax) = (f64::INFINITY, 0.0f64);
    for j in 0..n {
        let mut k = j;
        for i in j + 1..n {
            if m[i][j].abs() > m[k][j].abs() {
                k = i;
            }
        }
        if k != j {
            m.swap(k, j);
            swaps += 1;
        }
        let p = m[j][j].abs();
        pmin = pmin.min(p);
        pmax = pmax.max(p);
        if p == 0.0 {
            return (swaps, 0.0);
        }
        for i in j + 1..n {
            let f = m[i][j] / m[j][j];
            for c in j..n {
                m[i][c] -= f * m[j][c];
            }
        }
    }
    (swaps, pmin / pmax)
}

/// 1-norm condition number of a square matrix by explicit Gauss-Jordan inversion (sizes <= 12)
pub fn cond1(a: &[Vec<f64>]) -> f64 {
    let n = a.len();
    let mut m: Vec<Vec<f64>> = a.iter().enumerate().map(|(i, r)| { let mut v = r.clone(); v.extend((0..n).map(|j| if i == j { 1.0 } else { 0.0 })); v }).collect();
    for j in 0..n {
        let mut k = j;
        for i in j + 1..n {
            if m[i][j].abs() > m[k][j].abs() {
                k = i;
            }
        }
        m.swap(k, j);
        let p = m[j][j];
        if p == 0.0 || !p.is_finite() {
            return f64::INFINITY;
        }
        for c in 0..2 * n {
            m[j][c] /= p;
        }
        for i in 0..n {
            if i != j {
                let f = m[i][j];
                if f != 0.0 {
                    for c in 0..2 * n {
                        m[i][c] -= f * m[j][c];
                    }
                }
            }
        }
    }
    let norm1 = |get: &dyn Fn(usize, usize) -> f64| (0..n).map(|c| (0..n).map(|r| get(r, c).abs()).sum::<f64>()).fold(0.0f64, f64::max);
    norm1(&|r, c| a[r][c]) * norm1(&|r, c| m[r][n + c])
}

fn gen_matrix(r: &mut Rng, rows: usize, cols: usize) -> (Vec<Vec<f64>>, &'static str) {
    let pattern = r.below(6);
    let mut a = vec![vec![0.0; cols]; rows];
    let name = match pattern {
        0 => {
            for i in 0..rows {
                for j in 0..cols {
                    a[i][j] = r.real();
                }
            }
            "dense"
        }
        1 => {
            // zero diagonal forces pivoting at the first, middle and last columns
            for i in 0..rows {
                for j in 0..cols {
                    a[i][j] = if i == j { 0.0 } else { r.real() };
                }
            }
            "zero-diagonal"
        }
        2 => {
            // permuted diagonal plus sparse fill
            let mut p: Vec<usize> = (0..cols).collect();
            r.shuffle(&mut p);
            for i in 0..rows {
                for j in 0..cols {
                    if i < cols && p[i] == j {
                        a[i][j] = r.sign() * r.uniform(1.0, 5.0);
                    } else if r.chance(0.25) {
                        a[i][j] = r.real() * 0.3;
                    }
                }
            }
            "permuted-diagonal-plus-fill"
        }
        3 => {
            // ties in absolute value within columns
            for i in 0..rows {
                for j in 0..cols {
                    a[i][j] = r.sign() * [1.0, 2.0, 0.5][r.usize(3)];
                }
            }
            for i in 0..rows.min(cols) {
                a[i][i] += r.uniform(0.1, 0.9);
            }
            "ties-in-absolute-value"
        }
        4 => {
            // large entries below a small diagonal
            for i in 0..rows {
                for j in 0..cols {
                    a[i][j] = if i == j { r.real() * 1e-3 } else { r.real() };
                }
            }
            "small-diagonal"
        }
        _ => {
            // banded
            for i in 0..rows {
                for j in 0..cols {
                    if (i as i64 - j as i64).abs() <= 1 {
                        a[i][j] = r.real();
                    }
                }
            }
            "tridiagonal"
        }
    };
    (a, name)
}

fn mat_t_mat(a: &[Vec<f64>]) -> Vec<Vec<f64>> {
    let (m, n) = (a.len(), a[0].len());
    let mut r = vec![vec![0.0; n]; n];
    for i in 0..n {
        for j in 0..n {
            for k in 0..m {
                r[i][j] += a[k][i] * a[k][j];
            }
        }
    }
    r
}

fn abs_rnum(x: &RNum) -> RNum {
    RNum { v: x.v.abs(), g: x.g.iter().map(|(k, v)| (k.clone(), v.abs())).collect(), h: x.h.iter().map(|(k, v)| (k.clone(), v.abs())).collect() }
}

/// residual A x - b (or A^T A x - A^T b) in reference AD, and the per-component magnitude of its terms
fn residual(a: &[Vec<RNum>], x: &[RNum], b: &[RNum], lsq: bool) -> (Vec<RNum>, Vec<RNum>) {
    let nz = &mut Noise::exact();
    let (m, n) = (a.len(), a[0].len());
    let ax = |a: &[Vec<RNum>], x: &[RNum], nz: &mut Noise| -> Vec<RNum> {
        (0..a.len())
            .map(|i| {
                let mut acc = RNum::constant(0.0);
                for j in 0..x.len() {
                    acc = RNum::add(&acc, &RNum::mul(&a[i][j], &x[j], nz), nz);
                }
                acc
            })
            .collect()
    };
    let at = |a: &[Vec<RNum>]| -> Vec<Vec<RNum>> { (0..n).map(|j| (0..m).map(|i| a[i][j].clone()).collect()).collect() };
    let aa: Vec<Vec<RNum>> = a.iter().map(|r| r.iter().map(abs_rnum).collect()).collect();
    let xa: Vec<RNum> = x.iter().map(abs_rnum).collect();
    let ba: Vec<RNum> = b.iter().map(abs_rnum).collect();
    if !lsq {
        let r: Vec<RNum> = ax(a, x, nz).iter().zip(b.iter()).map(|(l, r)| RNum::sub(l, r, nz)).collect();
        let s: Vec<RNum> = ax(&aa, &xa, nz).iter().zip(ba.iter()).map(|(l, r)| RNum::add(l, r, nz)).collect();
        (r, s)
    } else {
        let t = at(a);
        let ta = at(&aa);
        let l1 = ax(&t, &ax(a, x, nz), nz);
        let l2 = ax(&t, b, nz);
        let r: Vec<RNum> = l1.iter().zip(l2.iter()).map(|(l, r)| RNum::sub(l, r, nz)).collect();
        let s1 = ax(&ta, &ax(&aa, &xa, nz), nz);
        let s2 = ax(&ta, &ba, nz);
        let s: Vec<RNum> = s1.iter().zip(s2.iter()).map(|(l, r)| RNum::add(l, r, nz)).collect();
        (r, s)
    }
}

const TOL: f64 = 1e-9;

fn residual_bad(r: &[RNum], s: &[RNum], order: usize) -> Option<String> {
    residual_bad_scaled(r, s, order, 1.0)
}

/// `glob`: allowance relative to the largest term of a kind anywhere in the system, in units of TOL
/// (1 for square systems, 100 for the normal equations whose conditioning is squared)
fn residual_bad_scaled(r: &[RNum], s: &[RNum], order: usize, glob: f64) -> Option<String> {
    // Rounding noise left by the elimination in one row comes from the other rows too, so each
    // component is allowed 1e-9 of its own terms or 1e-9 (normal equations: 1e-7, their conditioning is squared)
    // of the largest term of its kind anywhere (second derivatives see the conditioning twice).
    let gv = s.iter().fold(0.0f64, |m, x| m.max(x.v));
    let gg = s.iter().flat_map(|x| x.g.values()).fold(gv * 1e-3, |m, x| m.max(*x));
    let gh = s.iter().flat_map(|x| x.h.values()).fold(gg * 1e-3, |m, x| m.max(*x));
    for (i, (ri, si)) in r.iter().zip(s.iter()).enumerate() {
        if !(ri.v.abs() <= TOL * si.v.max(glob * gv).max(1e-300)) {
            return Some(format!("row {} value residual {:e} (terms {:e})", i, ri.v, si.v));
        }
        if order >= 1 {
            let names: BTreeSet<String> = ri.names().union(&si.names()).cloned().collect();
            for n in names.iter() {
                if !(ri.gd(n).abs() <= TOL * si.gd(n).max(glob * gg).max(1e-300)) {
                    return Some(format!("row {} d/d{} residual {:e} (terms {:e}, largest anywhere {:e})", i, n, ri.gd(n), si.gd(n), gg));
                }
                if order >= 2 {
                    for m in names.iter() {
                        if !(ri.hd(n, m).abs() <= TOL * si.hd(n, m).max(glob * gh).max(1e-300)) {
                            return Some(format!("row {} d2/d{}d{} residual {:e} (terms {:e}, largest anywhere {:e})", i, n, m, ri.hd(n, m), si.hd(n, m), gh));
                        }
                    }
                }
            }
        }
    }
    None
}

fn num_rnum(n: &Number) -> Result<RNum, String> {
    match n {
        Number::F64(f) => Ok(RNum::constant(*f)),
        Number::Dual(d) => d.to_rnum(),
        Number::Dual2(d) => d.to_rnum(),
    }
}

const KINDS: [&str; 9] = ["dsolve:f64", "dsolve:Dual", "dsolve:Dual2", "dsolve:Number(F64/Dual)", "dsolve:Number(F64/Dual2)", "fdsolve:f64", "fdsolve:Dual", "fdsolve:Dual2", "fdsolve:Number"];

thread_local! {
    /// memory layout in which the system is handed to the solver (0 row-major, 1 column-major, 2 transposed view of
    /// an owned transpose, 3 strided window of a larger array); the answer must not depend on it
    static LAYOUT: std::cell::Cell<usize> = std::cell::Cell::new(0);
}
const LAYOUTS: [&str; 4] = ["row-major", "column-major", "transposed-view", "strided-window"];

fn with_layout<T: Clone, R>(am: &Array2<T>, f: impl FnOnce(&ndarray::ArrayView2<T>) -> R) -> R {
    use ndarray::{s, ShapeBuilder};
    let (m, n) = am.dim();
    match LAYOUT.with(|l| l.get()) {
        1 => {
            let cm = Array2::from_shape_vec((m, n).f(), am.t().iter().cloned().collect()).unwrap();
            f(&cm.view())
        }
        2 => {
            let at = Array2::from_shape_vec((n, m), am.t().iter().cloned().collect()).unwrap();
            f(&at.t())
        }
        3 => {
            let fill = am[[0, 0]].clone();
            let mut big = Array2::from_elem((m + 1, n + 2), fill);
            big.slice_mut(s![..m, 1..n + 1]).assign(am);
            f(&big.slice(s![..m, 1..n + 1]))
        }
        _ => f(&am.view()),
    }
}

fn with_layout1<T: Clone, R>(bv: &Array1<T>, f: impl FnOnce(&ndarray::ArrayView1<T>) -> R) -> R {
    use ndarray::s;
    if LAYOUT.with(|l| l.get()) == 3 && !bv.is_empty() {
        // every second element of a longer vector
        let mut big = Array1::from_elem(2 * bv.len(), bv[0].clone());
        big.slice_mut(s![..;2]).assign(bv);
        f(&big.slice(s![..;2]))
    } else {
        f(&bv.view())
    }
}

fn arr2<T: Clone>(v: &[Vec<T>]) -> Array2<T> {
    let (m, n) = (v.len(), v[0].len());
    Array2::from_shape_vec((m, n), v.iter().flat_map(|r| r.iter().cloned()).collect()).unwrap()
}

/// run the real solver for the chosen kind; returns (A, x, b) as reference numbers and the AD order
fn solve_kind(kind: usize, a: &[Vec<Entry>], b: &[Entry], lsq: bool, ord8: usize) -> Result<(Vec<Vec<RNum>>, Vec<RNum>, Vec<RNum>, usize, Option<Vec<RNum>>), String> {
    let fa: Vec<Vec<f64>> = a.iter().map(|r| r.iter().map(|e| e.v).collect()).collect();
    macro_rules! back {
        ($x:expr, $conv:expr) => {{
            let mut out = vec![];
            for e in $x.iter() {
                out.push($conv(e)?);
            }
            out
        }};
    }
    match kind {
        0 => {
            let am = arr2(&fa);
            let bv = Array1::from_vec(b.iter().map(|e| e.v).collect());
            let x = with_layout(&am, |av| with_layout1(&bv, |bw| dsolve(av, bw, lsq)));
            Ok((fa.iter().map(|r| r.iter().map(|v| RNum::constant(*v)).collect()).collect(), x.iter().map(|v| RNum::constant(*v)).collect(), b.iter().map(|e| RNum::constant(e.v)).collect(), 0, None))
        }
        1 => {
            let am = arr2(&a.iter().map(|r| r.iter().map(|e| e.dual()).collect::<Vec<_>>()).collect::<Vec<_>>());
            let bv = Array1::from_vec(b.iter().map(|e| e.dual()).collect());
            let x = with_layout(&am, |av| with_layout1(&bv, |bw| dsolve(av, bw, lsq)));
            // the residual through the real multiplication as well (never alone)
            let rr = if !lsq { Some(back!(dmul21_(&am.view(), &x.view()), |d: &Dual| d.to_rnum())) } else { None };
            Ok((a.iter().map(|r| r.iter().map(|e| e.rnum(1)).collect()).collect(), back!(x, |d: &Dual| d.to_rnum()), b.iter().map(|e| e.rnum(1)).collect(), 1, rr))
        }
        2 => {
            let am = arr2(&a.iter().map(|r| r.iter().map(|e| e.dual2()).collect::<Vec<_>>()).collect::<Vec<_>>());
            let bv = Array1::from_vec(b.iter().map(|e| e.dual2()).collect());
            let x = with_layout(&am, |av| with_layout1(&bv, |bw| dsolve(av, bw, lsq)));
            let rr = if !lsq { Some(back!(dmul21_(&am.view(), &x.view()), |d: &Dual2| d.to_rnum())) } else { None };
            Ok((a.iter().map(|r| r.iter().map(|e| e.rnum(2)).collect()).collect(), back!(x, |d: &Dual2| d.to_rnum()), b.iter().map(|e| e.rnum(2)).collect(), 2, rr))
        }
        3 | 4 => {
            let order = if kind == 3 { 1 } else { 2 };
            // entries without derivative content stay plain floats inside the container
            let mk = |e: &Entry| -> Number {
                match (&e.d, order) {
                    (None, _) => Number::F64(e.v),
                    (Some(_), 1) => Number::Dual(e.dual()),
                    _ => Number::Dual2(e.dual2()),
                }
            };
            let am = arr2(&a.iter().map(|r| r.iter().map(mk).collect::<Vec<_>>()).collect::<Vec<_>>());
            let bv = Array1::from_vec(b.iter().map(mk).collect());
            let x = with_layout(&am, |av| with_layout1(&bv, |bw| dsolve(av, bw, lsq)));
            Ok((a.iter().map(|r| r.iter().map(|e| e.rnum(order)).collect()).collect(), back!(x, num_rnum), b.iter().map(|e| e.rnum(order)).collect(), order, None))
        }
        5 => {
            let am = arr2(&fa);
            let bv = Array1::from_vec(b.iter().map(|e| e.v).collect());
            let x = with_layout(&am, |av| with_layout1(&bv, |bw| fdsolve(av, bw, lsq)));
            Ok((fa.iter().map(|r| r.iter().map(|v| RNum::constant(*v)).collect()).collect(), x.iter().map(|v| RNum::constant(*v)).collect(), b.iter().map(|e| RNum::constant(e.v)).collect(), 0, None))
        }
        6 => {
            let am = arr2(&fa);
            let bv = Array1::from_vec(b.iter().map(|e| e.dual()).collect());
            let x = with_layout(&am, |av| with_layout1(&bv, |bw| fdsolve(av, bw, lsq)));
            Ok((fa.iter().map(|r| r.iter().map(|v| RNum::constant(*v)).collect()).collect(), back!(x, |d: &Dual| d.to_rnum()), b.iter().map(|e| e.rnum(1)).collect(), 1, None))
        }
        7 => {
            let am = arr2(&fa);
            let bv = Array1::from_vec(b.iter().map(|e| e.dual2()).collect());
            let x = with_layout(&am, |av| with_layout1(&bv, |bw| fdsolve(av, bw, lsq)));
            Ok((fa.iter().map(|r| r.iter().map(|v| RNum::constant(*v)).collect()).collect(), back!(x, |d: &Dual2| d.to_rnum()), b.iter().map(|e| e.rnum(2)).collect(), 2, None))
        }
        _ => {
            let order = ord8;
            let mk = |e: &Entry| -> Number {
                match (&e.d, order) {
                    (None, _) => Number::F64(e.v),
                    (Some(_), 1) => Number::Dual(e.dual()),
                    _ => Number::Dual2(e.dual2()),
                }
            };
            let am = arr2(&fa);
            let bv = Array1::from_vec(b.iter().map(mk).collect());
            let x = with_layout(&am, |av| with_layout1(&bv, |bw| fdsolve(av, bw, lsq)));
            Ok((fa.iter().map(|r| r.iter().map(|v| RNum::constant(*v)).collect()).collect(), back!(x, num_rnum), b.iter().map(|e| e.rnum(order)).collect(), order, None))
        }
    }
}

fn describe(a: &[Vec<Entry>], b: &[Entry]) -> Value {
    let e = |x: &Entry| match &x.d {
        None => json!(x.v),
        Some((idx, g, h)) => json!({"real": x.v, "vars": idx.iter().map(|i| NAMES[*i]).collect::<Vec<_>>(), "dual": g, "second_partials": h}),
    };
    json!({"A": a.iter().map(|r| r.iter().map(e).collect::<Vec<_>>()).collect::<Vec<_>>(), "b": b.iter().map(e).collect::<Vec<_>>()})
}

impl Prop for C13 {
    fn id(&self) -> &'static str {
        "C13"
    }
    fn phases(&self, tier: Tier) -> Vec<PhaseSpec> {
        vec![ph("square systems n=1..8", tier.pick(15_000, 600_000)), ph("tall least-squares systems up to 12x6", tier.pick(5_000, 200_000))]
    }
    fn required_classes(&self, _tier: Tier) -> Vec<String> {
        let mut v = vec![];
        for k in KINDS {
            v.push(format!("kind:{}", k));
            v.push(format!("lsq:{}", k));
        }
        for l in LAYOUTS {
            v.push(format!("layout:{}", l));
        }
        for s in ["swaps:0", "swaps:1", "swaps:2+", "row-permutation", "pattern:zero-diagonal", "pattern:permuted-diagonal-plus-fill", "pattern:ties-in-absolute-value", "pattern:dense", "n:1", "n:8"] {
            v.push(s.to_string());
        }
        v
    }
    fn min_evaluations(&self, tier: Tier) -> u64 {
        tier.pick(10_000, 600_000)
    }
    fn rule(&self) -> String {
        "Seeded well-conditioned systems (own float LU: smallest pivot >= 0.02 of the largest; normal equations >= 0.01): n = 1..8 square, tall up to 12x6 with allow_lsq; sparsity patterns forcing pivoting at the first, middle and last columns (zero diagonal, permuted diagonal plus fill, ties in absolute value, small diagonal, tridiagonal, dense); entries f64 / Dual / Dual2 / Number(F64 mixed with Dual or Dual2) for dsolve, float matrix with each right-hand-side type for fdsolve; derivative parts over 3-5 names in varied layouts. Oracle: residual A x - b (A^T A x - A^T b for lsq) computed in reference-AD arithmetic for value, every first and every second derivative, accepted within 1e-9 of the summed magnitude of its terms or 1e-9 (least squares: 1e-7) of the largest such magnitude in the system; plus the real dmul21_ residual (never alone) and invariance under a row permutation of (A,b). distinct_nontrivial = distinct (kind, size, pattern, swap count, lsq) x case.".into()
    }
    fn assumptions(&self) -> Vec<String> {
        vec!["singular / ill-conditioned systems are outside the property and are regenerated".into(), "Gaussian elimination with partial pivoting is backward stable for these sizes; derivative residuals get the same relative allowance".into()]
    }
    fn run_case(&mut self, ctx: &mut Ctx, phase: usize, idx: u64, rng: &mut Rng) {
        let lsq = phase == 1;
        let kind = (idx % 9) as usize;
        let (rows, cols) = if !lsq {
            let n = match (idx / 9) % 10 {
                0 => 1,
                1 => 8,
                _ => 1 + rng.usize(8),
            };
            (n, n)
        } else {
            let c = 1 + rng.usize(6);
            (c + 1 + rng.usize(12 - c), c)
        };
        let np = 3 + rng.usize(3);
        // a well-conditioned matrix
        let mut found = None;
        for _ in 0..400 {
            let (fa, pat) = gen_matrix(rng, rows, cols);
            let (swaps, ratio) = if lsq { lu_stats(&mat_t_mat(&fa)) } else { lu_stats(&fa) };
            if ratio >= if lsq { 0.01 } else { 0.02 } && ratio.is_finite() {
                // "well-conditioned" is the statement's own restriction: the matrix actually eliminated
                // (A, or A^T A for least squares) must have a 1-norm condition number of at most 1e4
                let cond = if lsq { cond1(&mat_t_mat(&fa)) } else { cond1(&fa) };
                if cond <= 1e4 {
                    found = Some((fa, pat, swaps, cond));
                    break;
                }
            }
            ctx.skip("ill-conditioned draw regenerated");
        }
        let (fa, pat, swaps, cond) = match found {
            Some(f) => f,
            None => return,
        };
        let with_derivs = kind != 0 && kind != 5;
        let a: Vec<Vec<Entry>> = fa.iter().map(|r| r.iter().map(|v| Entry { v: *v, d: if with_derivs && kind < 5 && rng.chance(0.5) { Some(gen_deriv(rng, np)) } else { None } }).collect()).collect();
        let b: Vec<Entry> = (0..rows).map(|_| Entry { v: if rng.chance(0.1) { 0.0 } else { rng.real() }, d: if with_derivs && rng.chance(0.7) { Some(gen_deriv(rng, np)) } else { None } }).collect();
        ctx.crumb(&format!("{} {}x{} {} lsq={}", KINDS[kind], rows, cols, pat, lsq));
        let case = || json!({"kind": KINDS[kind], "rows": rows, "cols": cols, "pattern": pat, "allow_lsq": lsq, "oracle_lu_row_swaps": swaps, "system": describe(&a, &b)});
        let ord8 = 1 + rng.usize(2);
        let layout = ((idx / 9) % 4) as usize;
        LAYOUT.with(|l| l.set(layout));
        ctx.class(&format!("layout:{}", LAYOUTS[layout]));
        let case = || {
            let mut c = case();
            c["memory_layout_of_A_and_b"] = json!(LAYOUTS[layout]);
            c
        };
        let solved = guarded(|| solve_kind(kind, &a, &b, lsq, ord8));
        ctx.eval(1);
        let (ra, x, rb, order, real_ax) = match solved {
            Caught::Ok(Ok(t)) => t,
            Caught::Ok(Err(e)) => {
                ctx.violation(&format!("C13|shape|{}", KINDS[kind]), json!({"case": case(), "what": e}));
                return;
            }
            Caught::Panic { loc, msg } => {
                if is_harness_location(&loc) {
                    ctx.harness_error(format!("{} {}", loc, msg));
                } else {
                    ctx.violation(&format!("C13|panic|{}|{}", KINDS[kind], short_loc(&loc)), json!({"case": case(), "location": loc, "message": msg}));
                }
                return;
            }
        };
        ctx.class(&format!("{}:{}", if lsq { "lsq" } else { "kind" }, KINDS[kind]));
        ctx.class(&format!("swaps:{}", if swaps >= 2 { "2+".to_string() } else { swaps.to_string() }));
        ctx.class(&format!("pattern:{}", pat));
        ctx.class(&format!("n:{}", cols));
        ctx.asserted(1);
        if x.len() != cols {
            ctx.violation(&format!("C13|solution-length|{}", KINDS[kind]), json!({"case": case(), "len": x.len()}));
            return;
        }
        let (r, s) = residual(&ra, &x, &rb, lsq);
        if let Some(what) = residual_bad_scaled(&r, &s, order, if lsq { 100.0 } else { 1.0 }) {
            ctx.violation(
                &format!("C13|residual|{}|{}|{}", if lsq { "lsq" } else { "square" }, KINDS[kind], pat),
                json!({"case": case(), "what": what, "x_values": x.iter().map(|v| v.v).collect::<Vec<_>>()}),
            );
            return;
        }
        if let Some(ax) = real_ax {
            // A x through the real multiplication must reproduce b as well
            let diff: Vec<RNum> = ax.iter().zip(rb.iter()).map(|(l, rr)| RNum::sub(l, rr, &mut Noise::exact())).collect();
            ctx.asserted(1);
            if let Some(what) = residual_bad(&diff, &s, order) {
                ctx.violation(&format!("C13|residual-via-dmul21|{}", KINDS[kind]), json!({"case": case(), "what": what}));
                return;
            }
        }
        // row order of the system does not change the answer
        if rows > 1 {
            let mut perm: Vec<usize> = (0..rows).collect();
            rng.shuffle(&mut perm);
            let a2: Vec<Vec<Entry>> = perm.iter().map(|i| a[*i].clone()).collect();
            let b2: Vec<Entry> = perm.iter().map(|i| b[*i].clone()).collect();
            // (the permuted system is handed over in another layout as well)
            LAYOUT.with(|l| l.set((layout + 1 + rng.usize(3)) % 4));
            let second = guarded(|| solve_kind(kind, &a2, &b2, lsq, ord8));
            LAYOUT.with(|l| l.set(layout));
            ctx.eval(1);
            ctx.class("row-permutation");
            ctx.class(&format!("row-permutation:cond<=1e{}", (cond.max(1.0).log10().ceil() as i32).max(0)));
            if order == 2 {
                ctx.class(if 64.0 * f64::EPSILON * cond.max(1.0).powi(3) <= 1e-5 { "row-permutation:second-derivatives-compared" } else { "row-permutation:second-derivatives-left-to-residual-check" });
            }
            match second {
                Caught::Ok(Ok((_, x2, _, _, _))) => {
                    let xs = x.iter().fold(0.0f64, |m, v| m.max(v.v.abs()));
                    for (u, w) in x.iter().zip(x2.iter()) {
                        ctx.asserted(1);
                        let names: BTreeSet<String> = u.names().union(&w.names()).cloned().collect();
                        let gs = x.iter().flat_map(|v| v.g.values()).fold(xs, |m, v| m.max(v.abs()));
                        let hs = x.iter().flat_map(|v| v.h.values()).fold(gs, |m, v| m.max(v.abs()));
                        // two correct eliminations of the same system in another row order differ by rounding
                        // amplified by the conditioning, once per derivative order on top of the value (the k-th
                        // derivative of the solution contains k+1 factors of the inverse); 1/pivot_ratio is the
                        // conditioning proxy the generator already bounds (of A, or of A^T A for least squares)
                        let amp = cond.max(1.0);
                        // beyond 1e-5 of the largest entry the comparison says nothing; that derivative order is
                        // then left to the residual check above
                        let tol = |k: i32| (64.0 * f64::EPSILON * amp.powi(k + 1)).max(1e-10);
                        let mut worst: Option<Value> = None;
                        let mut bad = tol(0) <= 1e-5 && (u.v - w.v).abs() > tol(0) * xs.max(1e-300);
                        if bad {
                            worst = Some(json!({"component": "value", "a": u.v, "b": w.v, "allowed": tol(0) * xs}));
                        }
                        for n in names.iter() {
                            if tol(1) <= 1e-5 && (u.gd(n) - w.gd(n)).abs() > tol(1) * gs.max(1e-300) {
                                bad = true;
                                worst = Some(json!({"component": format!("d/d{}", n), "a": u.gd(n), "b": w.gd(n), "allowed": tol(1) * gs}));
                            }
                            for m in names.iter() {
                                if tol(2) <= 1e-5 && (u.hd(n, m) - w.hd(n, m)).abs() > tol(2) * hs.max(1e-300) {
                                    bad = true;
                                    worst = Some(json!({"component": format!("d2/d{}d{}", n, m), "a": u.hd(n, m), "b": w.hd(n, m), "allowed": tol(2) * hs}));
                                }
                            }
                        }
                        if bad {
                            ctx.violation(&format!("C13|row-permutation-changes-answer|{}", KINDS[kind]), json!({"differs": worst, "condition_number_1norm_of_eliminated_matrix": cond, "permutation": perm, "x": x.iter().map(|v| v.v).collect::<Vec<_>>(), "x_permuted": x2.iter().map(|v| v.v).collect::<Vec<_>>(), "case": case()}));
                            return;
                        }
                    }
                }
                Caught::Ok(Err(e)) => {
                    ctx.violation(&format!("C13|shape|{}", KINDS[kind]), json!({"case": case(), "what": e}));
                    return;
                }
                Caught::Panic { loc, msg } => {
                    if is_harness_location(&loc) {
                        ctx.harness_error(format!("{} {}", loc, msg));
                    } else {
                        ctx.violation(&format!("C13|panic|{}|{}", KINDS[kind], short_loc(&loc)), json!({"case": case(), "permutation": perm, "message": msg}));
                    }
                    return;
                }
            }
        }
        ctx.distinct(hash_u64s(&[kind as u64, rows as u64, cols as u64, crate::util::hash_str(pat), swaps as u64, idx]));
        ctx.sample(&format!("{}:{}", KINDS[kind], pat), case);
    }
}
