//! C14 - B-spline basis: non-negative local partition of unity, correct derivatives.

use crate::polyspline::basis_deriv;
use crate::rng::Rng;
use crate::sup::{guarded, is_harness_location, ph, short_loc, Caught, Ctx, PhaseSpec, Prop, Tier};
use crate::util::hash_u64s;
use rateslib::splines::{bspldnev_single_f64, bsplev_single_f64};
use serde_json::json;

pub struct C14 {}

impl C14 {
    pub fn new() -> Self {
        C14 {}
    }
}

/// a knot vector with k-fold end knots and 0..8 interior knots of multiplicity 1..k-1
pub fn gen_knots(r: &mut Rng, k: usize, max_interior: usize) -> (Vec<f64>, &'static str) {
    let kind = r.below(3);
    let step = |r: &mut Rng| -> f64 {
        match kind {
            0 => (1 + r.usize(5)) as f64,                         // integers
            1 => [0.25, 0.5, 0.125, 1.5, 2.0, 0.75][r.usize(6)], // binary fractions
            _ => r.uniform(0.05, 20.0),                           // non-representable decimals
        }
    };
    let a = match kind {
        0 => r.range_i(-5, 5) as f64,
        1 => r.range_i(-8, 8) as f64 * 0.25,
        _ => r.uniform(-10.0, 10.0),
    };
    let mut t = vec![a; k];
    let mut x = a;
    let nint = r.usize(max_interior + 1);
    let mut placed = 0;
    while placed < nint {
        x += step(r);
        let mult = if k > 1 && r.chance(0.3) { 1 + r.usize(k - 1) } else { 1 };
        for _ in 0..mult.min(k.saturating_sub(1)).max(1) {
            t.push(x);
        }
        placed += 1;
    }
    x += step(r);
    for _ in 0..k {
        t.push(x);
    }
    // the whole sequence at another absolute scale (an exact power of two, so the shape is unchanged): a domain
    // narrower than machine epsilon, or wider than 2^60, is still an admissible knot sequence
    if r.chance(0.2) {
        let s = [-60, -30, 30, 60][r.usize(4)];
        let f = 2f64.powi(s);
        for v in t.iter_mut() {
            *v *= f;
        }
        return (t, ["integer knots x 2^s", "binary-fraction knots x 2^s", "decimal knots x 2^s"][kind as usize]);
    }
    (t, ["integer knots", "binary-fraction knots", "decimal knots"][kind as usize])
}

pub fn next_up(x: f64) -> f64 {
    if x == 0.0 {
        return f64::MIN_POSITIVE;
    }
    let b = x.to_bits();
    f64::from_bits(if x > 0.0 { b + 1 } else { b - 1 })
}

pub fn next_down(x: f64) -> f64 {
    -next_up(-x)
}

pub fn eval_points(r: &mut Rng, t: &[f64], nrand: usize) -> Vec<(f64, &'static str)> {
    let a = t[0];
    let b = t[t.len() - 1];
    let mut v: Vec<(f64, &'static str)> = vec![(a, "left-end"), (b, "right-end")];
    let mut uniq: Vec<f64> = t.to_vec();
    uniq.dedup();
    for (i, x) in uniq.iter().enumerate() {
        if i > 0 && i + 1 < uniq.len() {
            v.push((*x, "interior-knot"));
        }
        if *x < b {
            v.push((next_up(*x), "just-above-knot"));
        }
        if *x > a {
            v.push((next_down(*x), "just-below-knot"));
        }
        if i + 1 < uniq.len() {
            v.push((0.5 * (x + uniq[i + 1]), "midpoint"));
        }
    }
    for _ in 0..nrand {
        v.push((r.uniform(a, b), "random"));
    }
    v
}

impl Prop for C14 {
    fn id(&self) -> &'static str {
        "C14"
    }
    fn phases(&self, tier: Tier) -> Vec<PhaseSpec> {
        vec![ph("knot vectors x all basis indices x derivative orders x evaluation points", tier.pick(3_000, 400_000))]
    }
    fn required_classes(&self, _tier: Tier) -> Vec<String> {
        let mut v = vec![];
        for k in 1..=6 {
            v.push(format!("order:{}", k));
        }
        for p in ["left-end", "right-end", "interior-knot", "just-above-knot", "just-below-knot", "midpoint", "random"] {
            v.push(format!("point:{}", p));
        }
        for s in ["repeated-interior-knot", "no-interior-knots", "m>=k", "m=k-1", "outside-support", "array-form", "python-layer", "python-layer:typed-evaluators", "dual-abscissa", "dual-abscissa:curved", "matrix-form", "scale:tiny-domain", "scale:huge-domain", "knot-at-signed-zero:right-end", "knot-at-signed-zero:left-end", "knot-at-signed-zero:interior-knot"] {
            v.push(s.to_string());
        }
        v
    }
    fn min_evaluations(&self, tier: Tier) -> u64 {
        tier.pick(1_000_000, 50_000_000)
    }
    fn rule(&self) -> String {
        "Seeded knot vectors for every order k=1..6: k-fold end knots, 0..8 interior knots with multiplicities 1..k-1, spacings in [0.05,20] (integers, binary fractions, arbitrary decimals; one case in seven shifted so that the right end, the left end or an interior knot is exactly zero, written +0.0 or -0.0, with both zeros as evaluation points); ALL basis indices i; derivative orders m=0..k+1; evaluation points: every knot, both end points, the floats immediately above / below every knot, midpoints, 20 random points. bsplev_single_f64 and bspldnev_single_f64 against the piecewise-polynomial oracle (Cox-de Boor on coefficient vectors, polynomial differentiation, Horner) with a Horner-magnitude tolerance; the container form PPSpline::bspldnev over all points at once must return the same numbers as the single-point evaluators; non-negativity, exact zero outside the support, partition of unity to 1e-12, zero for m>=k. distinct_nontrivial = distinct (k, knot multiplicity pattern, spacing kind) x case.".into()
    }
    fn assumptions(&self) -> Vec<String> {
        vec!["derivatives are taken from the right, from the left at the right end point (as the statement says)".into(), "tolerance = 64 eps x Horner bound on absolute values of the local polynomial + 1e-14".into()]
    }
    fn run_case(&mut self, ctx: &mut Ctx, _phase: usize, idx: u64, rng: &mut Rng) {
        let k = 1 + (idx % 6) as usize;
        let (t, spacing) = if (idx / 6) % 10 == 0 { gen_knots(rng, k, 0) } else { gen_knots(rng, k, 8) };
        // one case in seven: the sequence is shifted so that one of its knots (the right end, the left end or an
        // interior one) is exactly zero, written +0.0 or -0.0; both zeros are then evaluation points (they are the
        // same number, whichever way the knot was written)
        let mut t = t;
        let mut zero_pts: Vec<(f64, &'static str)> = vec![];
        if (idx / 6) % 7 == 3 && !spacing.ends_with("2^s") {
            let which = rng.below(3);
            let mut uniq = t.clone();
            uniq.dedup();
            let pivot = match which {
                0 => t[t.len() - 1],
                1 => t[0],
                _ => uniq[rng.usize(uniq.len())],
            };
            let shifted: Vec<f64> = t.iter().map(|v| v - pivot).collect();
            // the shift must keep the knots' order and multiplicities (exact for whole and binary-fraction knots)
            let same_shape = (1..t.len()).all(|i| (t[i] == t[i - 1]) == (shifted[i] == shifted[i - 1]) && shifted[i] >= shifted[i - 1]);
            if same_shape {
                let z = if rng.bool() { 0.0 } else { -0.0 };
                t = shifted.iter().map(|v| if *v == 0.0 { z } else { *v }).collect();
                let label = if t[t.len() - 1] == 0.0 { "right-end" } else if t[0] == 0.0 { "left-end" } else { "interior-knot" };
                ctx.class(&format!("knot-at-signed-zero:{}", label));
                zero_pts.push((0.0, label));
                zero_pts.push((-0.0, label));
            }
        }
        let n = t.len() - k;
        let mut pts = eval_points(rng, &t, 20);
        pts.extend(zero_pts);
        ctx.crumb(&format!("k={} t={:?}", k, t));
        ctx.class(&format!("order:{}", k));
        if spacing.ends_with("2^s") {
            ctx.class(if (t[t.len() - 1] - t[0]).abs() < 1e-6 { "scale:tiny-domain" } else { "scale:huge-domain" });
        }
        let mut uniq = t.clone();
        uniq.dedup();
        if t.len() == 2 * k {
            ctx.class("no-interior-knots");
        }
        if uniq.len() + 2 * (k - 1) < t.len() {
            ctx.class("repeated-interior-knot");
        }
        let case = |x: f64, i: usize, m: usize| json!({"k": k, "t": t, "i": i, "m": m, "x": x, "x_bits": format!("{:#018x}", x.to_bits())});
        for (x, pcls) in pts.iter() {
            ctx.class(&format!("point:{}", pcls));
            let mut sum0 = 0.0;
            for i in 0..n {
                for m in 0..=k + 1 {
                    let got = guarded(|| if m == 0 { bsplev_single_f64(x, i, &k, &t, None) } else { bspldnev_single_f64(x, i, &k, &t, m, None) });
                    ctx.eval(1);
                    ctx.asserted(1);
                    let got = match got {
                        Caught::Ok(g) => g,
                        Caught::Panic { loc, msg } => {
                            if is_harness_location(&loc) {
                                ctx.harness_error(format!("{} {}", loc, msg));
                            } else {
                                ctx.violation(&format!("C14|panic|{}", short_loc(&loc)), json!({"case": case(*x, i, m), "message": msg}));
                            }
                            return;
                        }
                    };
                    let (want, bound) = basis_deriv(&t, i, k, m, *x);
                    let tol = 64.0 * f64::EPSILON * bound + 1e-14 * if m == 0 { 1.0 } else { bound.max(1e-300).min(1.0) };
                    if m >= k {
                        ctx.class("m>=k");
                    } else if m + 1 == k {
                        ctx.class("m=k-1");
                    }
                    if !((got - want).abs() <= tol) {
                        let cls = if m >= k { "m>=k".to_string() } else if m == 0 { "value".to_string() } else { format!("derivative-{}", m.min(3)) };
                        ctx.violation(&format!("C14|basis|{}|{}|k={}", cls, pcls, k), json!({"case": case(*x, i, m), "point_class": pcls, "observed": got, "expected": want, "tolerance": tol}));
                        return;
                    }
                    if m == 0 {
                        sum0 += got;
                        // non-negative, and exactly zero outside [t_i, t_{i+k}]
                        ctx.asserted(2);
                        if got < -1e-14 {
                            ctx.violation(&format!("C14|negative|{}", pcls), json!({"case": case(*x, i, m), "observed": got}));
                            return;
                        }
                        if *x < t[i] || *x > t[i + k] {
                            ctx.class("outside-support");
                            if got != 0.0 {
                                ctx.violation(&format!("C14|nonzero-outside-support|{}", pcls), json!({"case": case(*x, i, m), "observed": got}));
                                return;
                            }
                        }
                    }
                }
            }
            ctx.asserted(1);
            if (sum0 - 1.0).abs() > 1e-12 {
                ctx.violation(&format!("C14|partition-of-unity|{}|k={}", pcls, k), json!({"k": k, "t": t, "x": x, "sum": sum0}));
                return;
            }
        }
        // the container form PPSpline::bspldnev(xs, i, m) (what Python's bsplev / bspldnev call): the same
        // numbers as the single-point evaluators, for every basis index, derivative order and point at once
        {
            let sp = rateslib::splines::PPSpline::<f64>::new(k, t.clone(), None);
            let xs: Vec<f64> = pts.iter().map(|(x, _)| *x).collect();
            for i in 0..n {
                for m in 0..=k + 1 {
                    let got = match guarded(|| sp.bspldnev(&xs, &i, &m)) {
                        Caught::Ok(g) => g,
                        Caught::Panic { loc, msg } => {
                            if is_harness_location(&loc) {
                                ctx.harness_error(format!("{} {}", loc, msg));
                            } else {
                                ctx.violation(&format!("C14|panic|array-form|{}", short_loc(&loc)), json!({"k": k, "t": t, "i": i, "m": m, "message": msg}));
                            }
                            return;
                        }
                    };
                    ctx.eval(xs.len() as u64);
                    ctx.asserted(xs.len() as u64);
                    ctx.class("array-form");
                    let mut bad = got.len() != xs.len();
                    if !bad {
                        for (j, x) in xs.iter().enumerate() {
                            let single = if m == 0 { bsplev_single_f64(x, i, &k, &t, None) } else { bspldnev_single_f64(x, i, &k, &t, m, None) };
                            if got[j].to_bits() != single.to_bits() && !(got[j] == single) {
                                ctx.violation(
                                    &format!("C14|array-form-differs|{}|{}", pts[j].1, if m == 0 { "value".to_string() } else { format!("derivative-{}", m.min(3)) }),
                                    json!({"case": case(*x, i, m), "point_class": pts[j].1, "array_form": got[j], "single_point_form": single}),
                                );
                                return;
                            }
                        }
                    } else {
                        bad = true;
                    }
                    if bad {
                        ctx.violation("C14|array-form-length", json!({"k": k, "t": t, "i": i, "m": m, "returned": got.len(), "points": xs.len()}));
                        return;
                    }
                }
            }
        }
        // the matrix form PPSpline::bsplmatrix(tau, left_n, right_n): row j holds every basis function at site j
        // (the left_n-th / right_n-th derivative in the first / last row) - for ANY sites, not only interlacing ones
        {
            let sp = rateslib::splines::PPSpline::<f64>::new(k, t.clone(), None);
            let mut tau: Vec<f64> = pts.iter().map(|(x, _)| *x).collect();
            tau.sort_by(|a, b| a.partial_cmp(b).unwrap());
            let (ln, rn) = (rng.usize(k + 1), rng.usize(k + 1));
            ctx.eval((tau.len() * n) as u64);
            ctx.asserted((tau.len() * n) as u64);
            ctx.class("matrix-form");
            match guarded(|| sp.bsplmatrix(&tau, ln, rn)) {
                Caught::Ok(mat) => {
                    let same = |a: f64, b: f64| a.to_bits() == b.to_bits() || a == b;
                    let mut bad = mat.dim() != (tau.len(), n);
                    if !bad {
                        'rows: for j in 0..tau.len() {
                            let m = if j == 0 { ln } else if j + 1 == tau.len() { rn } else { 0 };
                            for i in 0..n {
                                let single = if m == 0 { bsplev_single_f64(&tau[j], i, &k, &t, None) } else { bspldnev_single_f64(&tau[j], i, &k, &t, m, None) };
                                if !same(mat[[j, i]], single) {
                                    ctx.violation(
                                        &format!("C14|matrix-form-differs|{}", if j == 0 || j + 1 == tau.len() { "end-row" } else { "interior-row" }),
                                        json!({"k": k, "t": t, "sites": tau, "left_n": ln, "right_n": rn, "row": j, "column": i, "matrix_entry": mat[[j, i]], "single_point_form": single}),
                                    );
                                    return;
                                }
                            }
                            if false {
                                break 'rows;
                            }
                        }
                    } else {
                        bad = true;
                    }
                    if bad {
                        ctx.violation("C14|matrix-form-shape", json!({"k": k, "t": t, "sites": tau.len(), "returned_dim": [mat.dim().0, mat.dim().1], "expected_dim": [tau.len(), n]}));
                        return;
                    }
                }
                Caught::Panic { loc, msg } => {
                    if is_harness_location(&loc) {
                        ctx.harness_error(format!("{} {}", loc, msg));
                    } else {
                        ctx.violation(&format!("C14|panic|matrix-form|{}", short_loc(&loc)), json!({"k": k, "t": t, "sites": tau, "left_n": ln, "right_n": rn, "message": msg}));
                    }
                    return;
                }
            }
        }
        // the basis functions evaluated at a dual-number point (bspldnev_single_dual / _dual2, any derivative
        // order): the real part is the float evaluator's m-th derivative, the sensitivities are the (m+1)-th and
        // (m+2)-th derivatives (chain rule with a unit abscissa), zero beyond the order
        {
            use rateslib::dual::{Dual, Dual2, Gradient1, Gradient2};
            let same = |a: f64, b: f64| a.to_bits() == b.to_bits() || a == b;
            for (x, pcls) in pts.iter().take(6) {
                let xd = Dual::new(*x, vec!["x".to_string()]);
                let xd2 = Dual2::new(*x, vec!["x".to_string()]);
                // ... and an abscissa that is itself a curved function of its variable: X' = a, X'' = 2h
                let (a1, h1) = (rng.real(), rng.real());
                let xc = Dual2::try_new(*x, vec!["x".to_string()], vec![a1], vec![h1]).unwrap();
                for i in 0..n {
                    for m in 0..=k {
                        {
                            let d0 = if m == 0 { bsplev_single_f64(x, i, &k, &t, None) } else { bspldnev_single_f64(x, i, &k, &t, m, None) };
                            let d1 = bspldnev_single_f64(x, i, &k, &t, m + 1, None);
                            let d2 = bspldnev_single_f64(x, i, &k, &t, m + 2, None);
                            if let Caught::Ok(c) = guarded(|| rateslib::splines::bspldnev_single_dual2(&xc, i, &k, &t, m, None)) {
                                ctx.eval(1);
                                ctx.asserted(1);
                                ctx.class("dual-abscissa:curved");
                                let g = c.gradient1(vec!["x".to_string()])[0];
                                let hh = c.gradient2(vec!["x".to_string()])[[0, 0]];
                                let want_h = d2 * a1 * a1 + d1 * 2.0 * h1;
                                let sc = (d2 * a1 * a1).abs() + (d1 * 2.0 * h1).abs();
                                if !(same(c.real(), d0) && (g - d1 * a1).abs() <= 8.0 * f64::EPSILON * (d1 * a1).abs() + 1e-300 && (hh - want_h).abs() <= 16.0 * f64::EPSILON * sc + 1e-300) {
                                    ctx.violation(
                                        &format!("C14|dual-abscissa|curved|{}|m={}", pcls, m.min(3)),
                                        json!({"case": case(*x, i, m), "point_class": pcls, "abscissa (X', X''/2)": [a1, h1], "Dual2 (real, d/dx, d2/dx2)": [c.real(), g, hh], "expected": [d0, d1 * a1, want_h]}),
                                    );
                                    return;
                                }
                            }
                        }
                        let r = guarded(|| (rateslib::splines::bspldnev_single_dual(&xd, i, &k, &t, m, None), rateslib::splines::bspldnev_single_dual2(&xd2, i, &k, &t, m, None)));
                        ctx.eval(2);
                        ctx.asserted(2);
                        ctx.class("dual-abscissa");
                        let d0 = if m == 0 { bsplev_single_f64(x, i, &k, &t, None) } else { bspldnev_single_f64(x, i, &k, &t, m, None) };
                        let d1 = bspldnev_single_f64(x, i, &k, &t, m + 1, None);
                        let d2 = bspldnev_single_f64(x, i, &k, &t, m + 2, None);
                        match r {
                            Caught::Ok((a, b)) => {
                                let ga = a.gradient1(vec!["x".to_string()]);
                                let gb = b.gradient1(vec!["x".to_string()]);
                                let hb = b.gradient2(vec!["x".to_string()]);
                                let ok = same(a.real(), d0) && same(b.real(), d0) && same(ga[0], d1) && same(gb[0], d1) && (hb[[0, 0]] - d2).abs() <= 4.0 * f64::EPSILON * d2.abs() + 1e-300;
                                if !ok {
                                    ctx.violation(
                                        &format!("C14|dual-abscissa|{}|m={}", pcls, m.min(3)),
                                        json!({"case": case(*x, i, m), "point_class": pcls, "Dual (real, d/dx)": [a.real(), ga[0]], "Dual2 (real, d/dx, d2/dx2)": [b.real(), gb[0], hb[[0, 0]]], "float evaluator derivatives m, m+1, m+2": [d0, d1, d2]}),
                                    );
                                    return;
                                }
                            }
                            Caught::Panic { loc, msg } => {
                                if is_harness_location(&loc) {
                                    ctx.harness_error(format!("{} {}", loc, msg));
                                } else {
                                    ctx.violation(&format!("C14|panic|dual-abscissa|{}", short_loc(&loc)), json!({"case": case(*x, i, m), "message": msg}));
                                }
                                return;
                            }
                        }
                    }
                }
            }
        }
        // the Python-facing layer: PPSplineF64.bsplev / bspldnev over arrays of points and the module-level
        // bsplev_single / bspldnev_single - the numbers of the core single-point evaluators, bit for bit
        {
            let py = rateslib::splines::PPSplineF64::verif_py_new(k, t.clone(), None);
            let xs: Vec<f64> = pts.iter().map(|(x, _)| *x).collect();
            for i in 0..n {
                for m in 0..=k + 1 {
                    let got = guarded(|| (py.verif_py_bspldnev(xs.clone(), i, m), if m == 0 { py.verif_py_bsplev(xs.clone(), i).ok() } else { None }));
                    ctx.eval(xs.len() as u64);
                    ctx.asserted(xs.len() as u64);
                    ctx.class("python-layer");
                    match got {
                        Caught::Ok((Ok(v), v0)) => {
                            for (j, x) in xs.iter().enumerate() {
                                let single = if m == 0 { bsplev_single_f64(x, i, &k, &t, None) } else { bspldnev_single_f64(x, i, &k, &t, m, None) };
                                let free = if m == 0 { rateslib::verif::verif_py_bsplev_single(*x, i, k, t.clone(), None) } else { rateslib::verif::verif_py_bspldnev_single(*x, i, k, t.clone(), m, None) };
                                let same = |a: f64, b: f64| a.to_bits() == b.to_bits() || a == b;
                                if v.len() != xs.len() || !same(v[j], single) || !same(free, single) || v0.as_ref().map_or(false, |w| w.len() != xs.len() || !same(w[j], single)) {
                                    ctx.violation(
                                        &format!("C14|python-layer-differs|{}|{}", pts[j].1, if m == 0 { "value".to_string() } else { format!("derivative-{}", m.min(3)) }),
                                        json!({"case": case(*x, i, m), "point_class": pts[j].1, "PPSplineF64.bspldnev": v.get(j), "PPSplineF64.bsplev": v0.as_ref().and_then(|w| w.get(j)), "module_level_single": free, "core_single_point_form": single}),
                                    );
                                    return;
                                }
                            }
                        }
                        Caught::Ok(_) => {
                            ctx.violation("C14|python-layer|error", json!({"k": k, "t": t, "i": i, "m": m}));
                            return;
                        }
                        Caught::Panic { loc, msg } => {
                            if is_harness_location(&loc) {
                                ctx.harness_error(format!("{} {}", loc, msg));
                            } else {
                                ctx.violation(&format!("C14|panic|python-layer|{}", short_loc(&loc)), json!({"k": k, "t": t, "i": i, "m": m, "message": msg}));
                            }
                            return;
                        }
                    }
                }
            }
        }
        // the Python spline object with a unit coefficient vector IS basis function i: its typed evaluators at a
        // float abscissa and any derivative order give that basis function's derivative
        {
            use rateslib::dual::{Gradient1, Number};
            let same = |a: f64, b: f64| a.to_bits() == b.to_bits() || a == b;
            for i in [0usize, n / 2, n - 1] {
                let mut c = vec![0.0; n];
                c[i] = 1.0;
                let py = rateslib::splines::PPSplineF64::verif_py_new(k, t.clone(), Some(c));
                for (x, pcls) in pts.iter().take(5) {
                    for m in 0..=k {
                        let want = if m == 0 { bsplev_single_f64(x, i, &k, &t, None) } else { bspldnev_single_f64(x, i, &k, &t, m, None) };
                        let got = guarded(|| (py.verif_py_ppdnev_single(Number::F64(*x), m).ok(), py.verif_py_ppdnev_single_dual(Number::F64(*x), m).ok().map(|d| d.real()), py.verif_py_ppdnev_single_dual2(Number::F64(*x), m).ok().map(|d| d.real())));
                        ctx.eval(3);
                        ctx.asserted(3);
                        ctx.class("python-layer:typed-evaluators");
                        match got {
                            Caught::Ok((Some(a), Some(b), Some(c2))) if same(a, want) && same(b, want) && same(c2, want) => {}
                            Caught::Ok(other) => {
                                ctx.violation(
                                    &format!("C14|python-layer|typed-evaluators|{}|m={}", pcls, m.min(3)),
                                    json!({"case": case(*x, i, m), "ppdnev_single / ppdnev_single_dual / ppdnev_single_dual2 at a float abscissa": format!("{:?}", other), "core_single_point_form": want}),
                                );
                                return;
                            }
                            Caught::Panic { loc, msg } => {
                                if is_harness_location(&loc) {
                                    ctx.harness_error(format!("{} {}", loc, msg));
                                } else {
                                    ctx.violation(&format!("C14|panic|python-layer|{}", short_loc(&loc)), json!({"case": case(*x, i, m), "message": msg}));
                                }
                                return;
                            }
                        }
                    }
                }
            }
        }
        // multiplicity pattern fingerprint
        let mut pat: Vec<u64> = vec![k as u64, crate::util::hash_str(spacing)];
        let mut c = 1u64;
        for w in t.windows(2) {
            if w[0] == w[1] {
                c += 1;
            } else {
                pat.push(c);
                c = 1;
            }
        }
        pat.push(idx);
        ctx.distinct(hash_u64s(&pat));
        ctx.sample(&format!("k={}:{}", k, spacing), || json!({"k": k, "t": t, "spacing": spacing, "points": pts.len(), "basis_functions": n, "derivative_orders": k + 2}));
    }
}
