//! C15 - a solved spline reproduces data, end conditions and polynomials, with exact AD.

use super::adtree::ADNum;
use super::c14::{eval_points, gen_knots};
use crate::polyspline::basis_deriv;
use crate::rng::Rng;
use crate::sup::{guarded, is_harness_location, ph, short_loc, Caught, Ctx, PhaseSpec, Prop, Tier};
use crate::util::hash_u64s;
use rateslib::dual::{Dual, Dual2, Gradient1, Gradient2, Number, NumberMapping, Vars};
use rateslib::splines::PPSpline;
use serde_json::{json, Value};

pub struct C15 {}

impl C15 {
    pub fn new() -> Self {
        C15 {}
    }
}

#[derive(Clone, Debug)]
struct Layout {
    k: usize,
    t: Vec<f64>,
    tau: Vec<f64>,
    left_n: usize,
    right_n: usize,
    lsq: bool,
    name: &'static str,
}

impl Layout {
    fn n(&self) -> usize {
        self.t.len() - self.k
    }
    fn describe(&self) -> Value {
        json!({"k": self.k, "t": self.t, "tau": self.tau, "left_n": self.left_n, "right_n": self.right_n, "allow_lsq": self.lsq, "layout": self.name})
    }
    /// collocation matrix by the independent oracle
    fn matrix(&self) -> Vec<Vec<f64>> {
        let n = self.n();
        let m = self.tau.len();
        (0..m)
            .map(|j| {
                let d = if j == 0 {
                    self.left_n
                } else if j == m - 1 {
                    self.right_n
                } else {
                    0
                };
                (0..n).map(|i| basis_deriv(&self.t, i, self.k, d, self.tau[j]).0).collect()
            })
            .collect()
    }
}

fn greville(t: &[f64], k: usize) -> Vec<f64> {
    let n = t.len() - k;
    (0..n)
        .map(|i| {
            if k == 1 {
                t[i]
            } else {
                // the mean of equal knots can round one ulp outside the domain: clamp
                (t[i + 1..i + k].iter().sum::<f64>() / (k - 1) as f64).max(t[0]).min(t[t.len() - 1])
            }
        })
        .collect()
}

fn lu_ratio(a: &[Vec<f64>]) -> f64 {
    let n = a.len();
    if n == 0 || a[0].len() != n {
        return 0.0;
    }
    let mut m: Vec<Vec<f64>> = a.to_vec();
    let (mut pmin, mut pmax) = (f64::INFINITY, 0.0f64);
    for j in 0..n {
        let mut p = j;
        for i in j + 1..n {
            if m[i][j].abs() > m[p][j].abs() {
                p = i;
            }
        }
        m.swap(p, j);
        let pv = m[j][j].abs();
        pmin = pmin.min(pv);
        pmax = pmax.max(pv);
        if pv == 0.0 {
            return 0.0;
        }
        for i in j + 1..n {
            let f = m[i][j] / m[j][j];
            for c in j..n {
                m[i][c] -= f * m[j][c];
            }
        }
    }
    pmin / pmax
}

fn gen_layout(r: &mut Rng, k: usize, which: u64) -> Option<Layout> {
    let (t, _) = gen_knots(r, k, 6);
    let n = t.len() - k;
    let (a, b) = (t[0], t[t.len() - 1]);
    let g = greville(&t, k);
    match which % 5 {
        0 => Some(Layout { k, t, tau: g, left_n: 0, right_n: 0, lsq: false, name: "greville" }),
        4 => {
            // the first k sites bunched at the start of the first knot interval, the rest at the Greville
            // abscissae: admissible (t_i < tau_i < t_{i+k}) but far from the comfortable layouts - row
            // exchanges in the banded collocation matrix, negative fill-in next to structural zeros
            let mut tau = g.clone();
            let t1 = t[k];
            for i in 1..k.min(n.saturating_sub(1)) {
                tau[i] = a + (t1 - a) * (i as f64) / (k as f64 + 1.0);
            }
            if tau.windows(2).any(|w| w[0] >= w[1]) {
                return None;
            }
            Some(Layout { k, t, tau, left_n: 0, right_n: 0, lsq: false, name: "bunched-in-first-interval" })
        }
        1 => {
            // natural / clamped / mixed end conditions with repeated end sites
            if n < 4 || k < 3 {
                return None;
            }
            let (l, rr, name) = match r.below(3) {
                0 => (2.min(k - 1), 2.min(k - 1), "natural(2,2)"),
                1 => (1, 1, "clamped(1,1)"),
                _ => (1 + r.usize(k - 1), 1 + r.usize(k - 1), "mixed-end-derivatives"),
            };
            // for cubic splines use the classical layout: data sites are the interior knots
            let mut tau = vec![a, a];
            if k == 4 {
                let mut uniq: Vec<f64> = t[k..t.len() - k].to_vec();
                uniq.dedup();
                if uniq.len() == n - 4 {
                    tau.extend(uniq);
                } else {
                    tau.extend(g[2..n - 2].iter());
                }
            } else {
                tau.extend(g[2..n - 2].iter());
            }
            tau.push(b);
            tau.push(b);
            Some(Layout { k, t, tau, left_n: l, right_n: rr, lsq: false, name })
        }
        2 => {
            // least squares with extra sites
            let extra = 1 + r.usize(6);
            let mut tau: Vec<f64> = g.clone();
            for _ in 0..extra {
                tau.push(r.uniform(a, b));
            }
            tau.sort_by(|x, y| x.partial_cmp(y).unwrap());
            tau.dedup();
            if tau.len() <= n {
                return None;
            }
            Some(Layout { k, t, tau, left_n: 0, right_n: 0, lsq: true, name: "least-squares" })
        }
        _ => {
            // perturbed Greville sites (still Schoenberg-Whitney admissible, screened below)
            let mut tau = g.clone();
            for i in 1..n.saturating_sub(1) {
                let lo = tau[i - 1].max(t[i]);
                let hi = g[i + 1].min(t[i + k]);
                if hi > lo {
                    tau[i] = lo + (hi - lo) * r.uniform(0.3, 0.7);
                }
            }
            Some(Layout { k, t, tau, left_n: 0, right_n: 0, lsq: false, name: "perturbed-greville" })
        }
    }
}

fn poly_eval(c: &[f64], x: f64, m: usize) -> f64 {
    // m-th derivative of sum c_n (x - x0)^n with x0 = 0
    let mut q: Vec<f64> = c.to_vec();
    for _ in 0..m {
        if q.len() <= 1 {
            return 0.0;
        }
        q = q.iter().enumerate().skip(1).map(|(n, a)| n as f64 * a).collect();
    }
    q.iter().rev().fold(0.0, |acc, a| acc * x + a)
}

/// spline value / derivative from coefficients through the independent basis oracle
fn oracle_eval(l: &Layout, c: &[f64], x: f64, m: usize) -> (f64, f64) {
    let mut v = 0.0;
    let mut mag = 0.0;
    for (i, ci) in c.iter().enumerate() {
        let (b, bound) = basis_deriv(&l.t, i, l.k, m, x);
        v += ci * b;
        mag += ci.abs() * bound;
    }
    (v, mag)
}

const TOL: f64 = 1e-9;

fn on_panic(ctx: &mut Ctx, what: &str, loc: &str, msg: &str, case: Value) {
    if is_harness_location(loc) {
        ctx.harness_error(format!("{} {}", loc, msg));
    } else {
        ctx.violation(&format!("C15|panic|{}|{}", what, short_loc(loc)), json!({"case": case, "message": msg}));
    }
}

impl Prop for C15 {
    fn id(&self) -> &'static str {
        "C15"
    }
    fn phases(&self, tier: Tier) -> Vec<PhaseSpec> {
        vec![ph("splines: layouts x data kinds", tier.pick(8_000, 300_000))]
    }
    fn required_classes(&self, _tier: Tier) -> Vec<String> {
        let mut v = vec![];
        for k in 2..=6 {
            v.push(format!("order:{}", k));
        }
        for l in ["greville", "natural(2,2)", "clamped(1,1)", "mixed-end-derivatives", "least-squares", "perturbed-greville", "bunched-in-first-interval"] {
            v.push(format!("layout:{}", l));
        }
        for d in ["random", "polynomial", "dual-data", "dual2-data", "dual-abscissa", "dual2-abscissa", "python-layer", "dual-data-at-dual-abscissa", "dual2-data-at-dual2-abscissa", "basis-dual-abscissa", "basis-dual2-abscissa", "solved-again-on-same-object", "solved-on-object-created-with-coefficients", "mismatched-counts-rejected", "evaluate-before-solve-rejected"] {
            v.push(format!("check:{}", d));
        }
        v.push("sites:interior-sites-not-in-ascending-order".to_string());
        for c in ["f64xF64", "f64xDual", "f64xDual2", "DualxF64", "DualxDual", "DualxDual2(refused)", "Dual2xF64", "Dual2xDual(refused)", "Dual2xDual2"] {
            v.push(format!("table:{}", c));
        }
        v
    }
    fn min_evaluations(&self, tier: Tier) -> u64 {
        tier.pick(200_000, 10_000_000)
    }
    fn rule(&self) -> String {
        "Seeded splines of order 2..6 on knot vectors as in C14; site layouts: Greville, perturbed Greville, the first k sites bunched at the start of the first knot interval, repeated end sites with natural (2,2) / clamped (1,1) / mixed end-derivative conditions (the classical cubic layout with data at the interior knots), least squares with extra sites; one case in three with the interior sites handed over in shuffled order; collocation matrices pre-screened by their 1-norm condition number (<= 1e5, computed by an own Gauss-Jordan inversion; ill-conditioned draws skipped and counted). Data: random, polynomial of degree < k, Dual / Dual2 with one variable per datum. After csolve: interior sites and end conditions reproduced (also through the independent piecewise-polynomial basis oracle on the returned coefficients), polynomial data reproduced in value and all derivatives at knots, end points, neighbouring floats, midpoints and random points; sensitivity to datum j == value of the float spline solved on the unit vector e_j; Dual / Dual2 abscissae give the spline's own first / second derivative as sensitivities (with non-zero own Hessian of the abscissa); mismatched site counts (fewer sites, fewer or more values than sites, an extra site without least squares - through the core solver and the Python-facing solver of all three spline types) and evaluation before solving are errors; the 3x3 (spline type x abscissa type) table of mapped_value. distinct_nontrivial = distinct (k, layout, knot count) x case.".into()
    }
    fn assumptions(&self) -> Vec<String> {
        vec!["tolerance 1e-9 relative to the summed magnitude |c_i| |B_i| of the terms".into(), "site sets violating Schoenberg-Whitney (singular collocation) are outside the property and are skipped".into()]
    }
    fn run_case(&mut self, ctx: &mut Ctx, _phase: usize, idx: u64, rng: &mut Rng) {
        let k = 2 + (idx % 5) as usize;
        let l = match gen_layout(rng, k, idx / 5) {
            Some(l) => l,
            None => {
                ctx.skip("layout not available for this knot vector");
                return;
            }
        };
        // the solver does not ask for its data sites in any order: one case in three hands the interior sites over
        // shuffled (the first and last site keep their places - they carry the end conditions); everything below
        // pairs data with sites by index, so the same checks apply
        let mut l = l;
        if (idx / 5) % 3 == 1 && l.tau.len() >= 4 {
            let m = l.tau.len();
            let mut inner: Vec<f64> = l.tau[1..m - 1].to_vec();
            rng.shuffle(&mut inner);
            if inner.windows(2).any(|w| w[0] > w[1]) {
                l.tau.splice(1..m - 1, inner);
                ctx.class("sites:interior-sites-not-in-ascending-order");
            }
        }
        let l = l;
        let n = l.n();
        let m = l.tau.len();
        let bm = l.matrix();
        // "admissible" site sets give a regular collocation matrix; how regular decides how exactly the forward
        // quantities (coefficients, reproduced polynomials, sensitivities) can come out. The 1-norm condition
        // number of the matrix actually eliminated (B, or B^T B for least squares) is bounded at 1e5, so that
        // n * eps * cond stays two orders below the 1e-8 / 1e-9 tolerances used below.
        let cond = if l.lsq {
            let mut g = vec![vec![0.0; n]; n];
            for i in 0..n {
                for j in 0..n {
                    for r in 0..m {
                        g[i][j] += bm[r][i] * bm[r][j];
                    }
                }
            }
            super::c13::cond1(&g)
        } else {
            super::c13::cond1(&bm)
        };
        if !(cond <= 1e5) {
            ctx.skip("ill-conditioned or singular collocation matrix");
            return;
        }
        ctx.crumb(&format!("spline {}", l.describe()));
        ctx.class(&format!("order:{}", k));
        ctx.class(&format!("layout:{}", l.name));
        let case = |extra: Value| json!({"spline": l.describe(), "detail": extra});
        let pts = eval_points(rng, &l.t, 6);

        // ---------------- float spline on random data
        let y: Vec<f64> = (0..m).map(|_| rng.real()).collect();
        let mut sp = PPSpline::<f64>::new(k, l.t.clone(), None);
        // evaluation before solving is an error, not a panic
        match guarded(|| sp.ppdnev_single(&l.tau[0], 0).is_err()) {
            Caught::Ok(true) => ctx.class("check:evaluate-before-solve-rejected"),
            Caught::Ok(false) => {
                ctx.violation("C15|evaluate-before-solve-accepted", case(json!({})));
                return;
            }
            Caught::Panic { loc, msg } => {
                on_panic(ctx, "evaluate-before-solve", &loc, &msg, case(json!({})));
                return;
            }
        }
        // mismatched site counts are errors
        {
            let mut sp2 = PPSpline::<f64>::new(k, l.t.clone(), None);
            let bad: Vec<(Vec<f64>, Vec<f64>, bool, &str)> = vec![
                (l.tau[..m - 1].to_vec(), y[..m - 1].to_vec(), l.lsq && m - 1 >= n, "one-site-fewer"),
                (l.tau.clone(), y[..m - 1].to_vec(), false, "y-shorter-than-tau"),
                ([l.tau.clone(), vec![l.tau[m - 1]]].concat(), [y.clone(), vec![0.5]].concat(), false, "one-site-more-without-lsq"),
                (l.tau.clone(), [y.clone(), vec![0.5]].concat(), false, "y-longer-than-tau"),
                (l.tau.clone(), [y.clone(), vec![0.5, -0.25, 2.0]].concat(), false, "y-longer-than-tau"),
            ];
            for (tau, yy, ok_expected, what) in bad {
                let allow = if what == "one-site-more-without-lsq" { false } else { l.lsq };
                if tau.len() < 2 {
                    continue;
                }
                // the core solver, and the Python-facing one on a fresh object of each spline type
                let r = guarded(|| {
                    let core = sp2.csolve(&tau, &yy, l.left_n, l.right_n, allow).is_ok();
                    let mut pf = rateslib::splines::PPSplineF64::verif_py_new(k, l.t.clone(), None);
                    let pyf = pf.verif_py_csolve(tau.clone(), yy.clone(), l.left_n, l.right_n, allow).is_ok();
                    let mut pd = rateslib::splines::PPSplineDual::verif_py_new(k, l.t.clone(), None);
                    let pyd = pd.verif_py_csolve(tau.clone(), yy.iter().map(|v| Dual::new(*v, vec![])).collect(), l.left_n, l.right_n, allow).is_ok();
                    let mut pd2 = rateslib::splines::PPSplineDual2::verif_py_new(k, l.t.clone(), None);
                    let pyd2 = pd2.verif_py_csolve(tau.clone(), yy.iter().map(|v| Dual2::new(*v, vec![])).collect(), l.left_n, l.right_n, allow).is_ok();
                    (core, pyf, pyd, pyd2)
                });
                ctx.eval(4);
                ctx.asserted(4);
                match r {
                    Caught::Ok((okv, pyf, pyd, pyd2)) => {
                        if okv && !ok_expected {
                            ctx.violation(&format!("C15|mismatched-counts-accepted|{}", what), case(json!({"tau_len": tau.len(), "y_len": yy.len(), "n": n, "allow_lsq": allow})));
                            return;
                        }
                        if (pyf || pyd || pyd2) && !ok_expected {
                            ctx.violation(&format!("C15|mismatched-counts-accepted|python-layer|{}", what), case(json!({"tau_len": tau.len(), "y_len": yy.len(), "n": n, "allow_lsq": allow, "accepted_by": {"PPSplineF64": pyf, "PPSplineDual": pyd, "PPSplineDual2": pyd2}})));
                            return;
                        }
                        // (an admissible count may still be refused for other reasons; the Python-facing solvers must decide as the core does)
                        if pyf != okv || pyd != okv || pyd2 != okv {
                            ctx.violation(&format!("C15|python-layer-csolve-decides-differently|{}", what), case(json!({"tau_len": tau.len(), "y_len": yy.len(), "n": n, "allow_lsq": allow, "accepted_by": {"core": okv, "PPSplineF64": pyf, "PPSplineDual": pyd, "PPSplineDual2": pyd2}})));
                            return;
                        }
                        ctx.class("check:mismatched-counts-rejected");
                    }
                    Caught::Panic { loc, msg } => {
                        on_panic(ctx, &format!("csolve-mismatched-{}", what), &loc, &msg, case(json!({"tau_len": tau.len(), "y_len": yy.len(), "n": n})));
                        return;
                    }
                }
            }
        }
        match guarded(|| sp.csolve(&l.tau, &y, l.left_n, l.right_n, l.lsq).is_ok()) {
            Caught::Ok(true) => {}
            Caught::Ok(false) => {
                ctx.violation(&format!("C15|csolve-rejected|{}", l.name), case(json!({"y": y})));
                return;
            }
            Caught::Panic { loc, msg } => {
                on_panic(ctx, "csolve", &loc, &msg, case(json!({"y": y})));
                return;
            }
        }
        ctx.eval(1);
        let c: Vec<f64> = match sp.c() {
            Some(c) if c.len() == n => c.to_vec(),
            _ => {
                ctx.violation("C15|coefficients-shape", case(json!({})));
                return;
            }
        };
        ctx.class("check:random");
        // the Python-facing spline object solved on the same data: the same coefficients, and its evaluators
        // (single value, arrays, typed abscissae with their refusals) give the core's numbers bit for bit
        {
            let mut py = rateslib::splines::PPSplineF64::verif_py_new(k, l.t.clone(), None);
            let same = |a: f64, b: f64| a.to_bits() == b.to_bits() || a == b;
            let xs: Vec<f64> = pts.iter().map(|(x, _)| *x).collect();
            let r = guarded(|| {
                let solved = py.verif_py_csolve(l.tau.clone(), y.clone(), l.left_n, l.right_n, l.lsq).is_ok();
                let shape = py.verif_py_shape();
                let mm = 1 + (idx % 3) as usize;
                let ev: Vec<(f64, Option<f64>, Option<f64>)> = xs.iter().map(|x| (*x, py.verif_py_ppev_single(Number::F64(*x)).ok(), py.verif_py_ppdnev_single(Number::F64(*x), mm).ok())).collect();
                let arr0 = py.verif_py_ppev(xs.clone()).ok();
                let arrm = py.verif_py_ppdnev(xs.clone(), mm).ok();
                let xd = Dual::new(xs[xs.len() / 2], vec!["x".into()]);
                let xd2 = Dual2::new(xs[xs.len() / 2], vec!["x".into()]);
                let refusals = [
                    py.verif_py_ppev_single(Number::Dual(xd.clone())).is_err(),
                    py.verif_py_ppev_single(Number::Dual2(xd2.clone())).is_err(),
                    py.verif_py_ppdnev_single(Number::Dual(xd.clone()), 1).is_err(),
                    py.verif_py_ppev_single_dual(Number::Dual2(xd2.clone())).is_err(),
                    py.verif_py_ppev_single_dual2(Number::Dual(xd.clone())).is_err(),
                    py.verif_py_ppdnev_single_dual(Number::Dual2(xd2.clone()), 1).is_err(),
                    py.verif_py_ppdnev_single_dual2(Number::Dual(xd.clone()), 1).is_err(),
                ];
                let typed = (
                    py.verif_py_ppev_single_dual(Number::Dual(xd.clone())).ok(),
                    py.verif_py_ppdnev_single_dual(Number::Dual(xd.clone()), mm).ok(),
                    py.verif_py_ppev_single_dual2(Number::Dual2(xd2.clone())).ok(),
                    py.verif_py_ppdnev_single_dual2(Number::Dual2(xd2.clone()), mm).ok(),
                    py.verif_py_ppev_single_dual(Number::F64(xd.real())).ok(),
                    py.verif_py_ppev_single_dual2(Number::F64(xd.real())).ok(),
                    py.verif_py_ppdnev_single_dual(Number::F64(xd.real()), mm).ok(),
                    py.verif_py_ppdnev_single_dual2(Number::F64(xd.real()), mm).ok(),
                );
                (solved, shape, mm, ev, arr0, arrm, refusals, typed, xd, xd2)
            });
            ctx.eval(1);
            ctx.class("check:python-layer");
            match r {
                Caught::Ok((solved, (pn, pk, pt, pc), mm, ev, arr0, arrm, refusals, typed, xd, xd2)) => {
                    ctx.asserted((4 + 4 * xs.len() + 13) as u64);
                    let mut bad: Option<String> = None;
                    if !solved {
                        bad = Some("csolve refused".into());
                    } else if pn != n || pk != k || pt != l.t || pc.as_ref().map_or(true, |pc| pc.len() != c.len() || pc.iter().zip(c.iter()).any(|(a, b)| !same(*a, *b))) {
                        bad = Some("n / k / t / c differ from the core spline solved on the same data".into());
                    } else {
                        for (j, (x, v0, vm)) in ev.iter().enumerate() {
                            let w0 = sp.ppdnev_single(x, 0).ok();
                            let wm = sp.ppdnev_single(x, mm).ok();
                            let a0 = arr0.as_ref().and_then(|a| a.get(j).cloned());
                            let am = arrm.as_ref().and_then(|a| a.get(j).cloned());
                            let eq = |p: Option<f64>, q: Option<f64>| matches!((p, q), (Some(a), Some(b)) if same(a, b));
                            if !eq(*v0, w0) || !eq(*vm, wm) || !eq(a0, w0) || !eq(am, wm) {
                                bad = Some(format!("evaluation at x={} differs: ppev_single {:?} / ppdnev_single {:?} / ppev[j] {:?} / ppdnev[j] {:?} vs core {:?} {:?}", x, v0, vm, a0, am, w0, wm));
                                break;
                            }
                        }
                        if bad.is_none() && refusals.iter().any(|r| !*r) {
                            bad = Some(format!("an abscissa of the wrong kind was accepted: {:?}", refusals));
                        }
                        if bad.is_none() {
                            let d_ok = |g: &Option<Dual>, w: Result<Dual, pyo3::PyErr>| matches!((g, w), (Some(a), Ok(b)) if super::pylayer::same_dual(a, &b));
                            let d2_ok = |g: &Option<Dual2>, w: Result<Dual2, pyo3::PyErr>| matches!((g, w), (Some(a), Ok(b)) if super::pylayer::same_dual2(a, &b));
                            if !d_ok(&typed.0, sp.ppdnev_single_dual(&xd, 0))
                                || !d_ok(&typed.1, sp.ppdnev_single_dual(&xd, mm))
                                || !d2_ok(&typed.2, sp.ppdnev_single_dual2(&xd2, 0))
                                || !d2_ok(&typed.3, sp.ppdnev_single_dual2(&xd2, mm))
                                || !d_ok(&typed.4, sp.ppdnev_single_dual(&Dual::new(xd.real(), vec![]), 0))
                                || !d2_ok(&typed.5, sp.ppdnev_single_dual2(&Dual2::new(xd2.real(), vec![]), 0))
                                || !d_ok(&typed.6, sp.ppdnev_single_dual(&Dual::new(xd.real(), vec![]), mm))
                                || !d2_ok(&typed.7, sp.ppdnev_single_dual2(&Dual2::new(xd2.real(), vec![]), mm))
                            {
                                bad = Some("typed evaluators (ppev_single_dual / ppdnev_single_dual / ..dual2) differ from the core".into());
                            }
                        }
                    }
                    if let Some(w) = bad {
                        ctx.violation("C15|python-layer", case(json!({"what": w, "y": y})));
                        return;
                    }
                }
                Caught::Panic { loc, msg } => {
                    on_panic(ctx, "python-layer", &loc, &msg, case(json!({"y": y})));
                    return;
                }
            }
        }
        if !l.lsq {
            for j in 0..m {
                let d = if j == 0 {
                    l.left_n
                } else if j == m - 1 {
                    l.right_n
                } else {
                    0
                };
                let got = match guarded(|| sp.ppdnev_single(&l.tau[j], d)) {
                    Caught::Ok(Ok(g)) => g,
                    Caught::Ok(Err(_)) => {
                        ctx.violation("C15|evaluate-after-solve-error", case(json!({})));
                        return;
                    }
                    Caught::Panic { loc, msg } => {
                        on_panic(ctx, "ppdnev_single", &loc, &msg, case(json!({"x": l.tau[j], "m": d})));
                        return;
                    }
                };
                let (orc, _) = oracle_eval(&l, &c, l.tau[j], d);
                // backward error of the solve: a row's residual is small relative to (row of |B|) x max|c|,
                // not relative to the terms that happen to be non-zero in that row
                let cmax = c.iter().fold(0.0f64, |m, v| m.max(v.abs()));
                let mag: f64 = (0..n).map(|i| basis_deriv(&l.t, i, k, d, l.tau[j]).1).sum::<f64>() * cmax;
                ctx.eval(1);
                ctx.asserted(2);
                let tol = TOL * mag.max(y[j].abs());
                let site_kind = if d > 0 { "end-derivative-condition" } else if j == 0 || j == m - 1 || (j == 1 && l.left_n > 0) || (j == m - 2 && l.right_n > 0) { "end-value" } else { "interior-site" };
                if !((got - y[j]).abs() <= tol) {
                    ctx.violation(&format!("C15|data-not-reproduced|{}|{}", site_kind, l.name), case(json!({"site_index": j, "site": l.tau[j], "derivative_order": d, "datum": y[j], "observed": got, "tolerance": tol, "y": y})));
                    return;
                }
                if !((orc - y[j]).abs() <= tol) {
                    ctx.violation(&format!("C15|coefficients-do-not-interpolate|{}|{}", site_kind, l.name), case(json!({"site_index": j, "site": l.tau[j], "derivative_order": d, "datum": y[j], "oracle_value_from_coefficients": orc, "coefficients": c})));
                    return;
                }
            }
        } else {
            // normal equations B^T B c = B^T y through the oracle's collocation matrix
            for i in 0..n {
                let mut lhs = 0.0;
                let mut rhs = 0.0;
                let mut mag = 0.0;
                for r in 0..m {
                    let bc: f64 = (0..n).map(|q| bm[r][q] * c[q]).sum();
                    lhs += bm[r][i] * bc;
                    rhs += bm[r][i] * y[r];
                    mag += bm[r][i].abs() * ((0..n).map(|q| (bm[r][q] * c[q]).abs()).sum::<f64>() + y[r].abs());
                }
                ctx.asserted(1);
                if !((lhs - rhs).abs() <= TOL * mag.max(1e-300)) {
                    ctx.violation("C15|normal-equations", case(json!({"row": i, "lhs": lhs, "rhs": rhs, "coefficients": c, "y": y})));
                    return;
                }
            }
        }

        // ---------------- polynomial data of degree < k is reproduced everywhere
        {
            let deg = rng.usize(k);
            let pc: Vec<f64> = (0..=deg).map(|_| rng.real() * 0.5).collect();
            // keep magnitudes sane: evaluate in a shifted / scaled variable
            let (a, b) = (l.t[0], l.t[l.t.len() - 1]);
            let s = 2.0 / (b - a);
            let pv = |x: f64, mm: usize| poly_eval(&pc, (x - a) * s - 1.0, mm) * s.powi(mm as i32);
            let yp: Vec<f64> = (0..m)
                .map(|j| {
                    let d = if j == 0 {
                        l.left_n
                    } else if j == m - 1 {
                        l.right_n
                    } else {
                        0
                    };
                    pv(l.tau[j], d)
                })
                .collect();
            // the polynomial is solved on a fresh object, on one that was already solved for other data, or on
            // one created with coefficients: solving again must replace what was there
            let mut spp = match idx % 3 {
                0 => PPSpline::<f64>::new(k, l.t.clone(), None),
                1 => {
                    let mut s0 = PPSpline::<f64>::new(k, l.t.clone(), None);
                    let _ = guarded(|| s0.csolve(&l.tau, &y, l.left_n, l.right_n, l.lsq).is_ok());
                    ctx.class("check:solved-again-on-same-object");
                    s0
                }
                _ => {
                    ctx.class("check:solved-on-object-created-with-coefficients");
                    PPSpline::<f64>::new(k, l.t.clone(), Some((0..n).map(|i| 0.5 + i as f64).collect()))
                }
            };
            match guarded(|| spp.csolve(&l.tau, &yp, l.left_n, l.right_n, l.lsq).is_ok()) {
                Caught::Ok(true) => {}
                Caught::Ok(false) => {
                    ctx.violation("C15|csolve-rejected|polynomial", case(json!({"y": yp})));
                    return;
                }
                Caught::Panic { loc, msg } => {
                    on_panic(ctx, "csolve", &loc, &msg, case(json!({"y": yp})));
                    return;
                }
            }
            ctx.class("check:polynomial");
            let cmag: f64 = spp.c().as_ref().map(|c| c.iter().fold(0.0f64, |mx, v| mx.max(v.abs()))).unwrap_or(1.0).max(1.0);
            for (x, _) in pts.iter() {
                for mm in 0..k {
                    let got = match guarded(|| spp.ppdnev_single(x, mm)) {
                        Caught::Ok(Ok(g)) => g,
                        Caught::Ok(Err(_)) => {
                            ctx.violation("C15|evaluate-after-solve-error", case(json!({})));
                            return;
                        }
                        Caught::Panic { loc, msg } => {
                            on_panic(ctx, "ppdnev_single", &loc, &msg, case(json!({"x": x, "m": mm})));
                            return;
                        }
                    };
                    let want = pv(*x, mm);
                    // magnitude of the basis derivatives involved
                    let mag: f64 = (0..n).map(|i| basis_deriv(&l.t, i, k, mm, *x).1).sum::<f64>() * cmag;
                    ctx.eval(1);
                    ctx.asserted(1);
                    if !((got - want).abs() <= 1e-8 * mag.max(want.abs()).max(1e-300)) {
                        ctx.violation(&format!("C15|polynomial-not-reproduced|derivative-{}|{}", mm.min(3), l.name), case(json!({"polynomial_degree": deg, "x": x, "derivative": mm, "observed": got, "expected": want, "allowed_error": 1e-8 * mag.max(want.abs()), "data": yp})));
                        return;
                    }
                }
            }
        }

        // ---------------- dual data: sensitivity to datum j == float spline solved on e_j
        let second = (idx / 20) % 2 == 1;
        let units: Vec<PPSpline<f64>> = {
            let mut v = vec![];
            for j in 0..m {
                let mut e = vec![0.0; m];
                e[j] = 1.0;
                let mut s = PPSpline::<f64>::new(k, l.t.clone(), None);
                if !matches!(guarded(|| s.csolve(&l.tau, &e, l.left_n, l.right_n, l.lsq).is_ok()), Caught::Ok(true)) {
                    ctx.violation("C15|csolve-rejected|unit-vector", case(json!({"j": j})));
                    return;
                }
                v.push(s);
            }
            v
        };
        let names: Vec<String> = (0..m).map(|j| format!("y{}", j)).collect();
        let xq: Vec<f64> = pts.iter().map(|p| p.0).collect();
        if !second {
            let yd: Vec<Dual> = (0..m).map(|j| Dual::new(y[j], vec![names[j].clone()])).collect();
            let mut sd = PPSpline::<Dual>::new(k, l.t.clone(), None);
            match guarded(|| sd.csolve(&l.tau, &yd, l.left_n, l.right_n, l.lsq).is_ok()) {
                Caught::Ok(true) => {}
                Caught::Ok(false) => {
                    ctx.violation("C15|csolve-rejected|dual-data", case(json!({})));
                    return;
                }
                Caught::Panic { loc, msg } => {
                    on_panic(ctx, "csolve-dual", &loc, &msg, case(json!({})));
                    return;
                }
            }
            ctx.class("check:dual-data");
            for x in xq.iter() {
                let v = match guarded(|| sd.ppdnev_single(x, 0)) {
                    Caught::Ok(Ok(v)) => v,
                    _ => {
                        ctx.violation("C15|evaluate-dual-spline-failed", case(json!({"x": x})));
                        return;
                    }
                };
                // the same point reached as a dual-number abscissa (constant, and with a variable of its own):
                // same value and data sensitivities, and d/dxv = the spline's own first derivative
                {
                    let r = guarded(|| (sd.ppdnev_single_dual(&Dual::new(*x, vec![]), 0).ok(), sd.ppdnev_single_dual(&Dual::new(*x, vec!["xv".to_string()]), 0).ok(), sd.ppdnev_single(x, 1).ok()));
                    ctx.eval(2);
                    ctx.asserted(2);
                    ctx.class("check:dual-data-at-dual-abscissa");
                    let close = |a: f64, b: f64, sc: f64| (a - b).abs() <= 1e-10 * sc.max(a.abs()).max(b.abs()) + 1e-300;
                    let ok = match &r {
                        Caught::Ok((Some(c), Some(w), Some(d1))) => {
                            let sc = v.real().abs().max(v.gradient1(names.clone()).iter().fold(0.0f64, |m, g| m.max(g.abs())));
                            let gc = c.gradient1(names.clone());
                            let gw = w.gradient1(names.clone());
                            let gv = v.gradient1(names.clone());
                            close(c.real(), v.real(), sc) && close(w.real(), v.real(), sc) && (0..m).all(|j| close(gc[j], gv[j], sc) && close(gw[j], gv[j], sc)) && close(w.gradient1(vec!["xv".to_string()])[0], d1.real(), d1.real().abs().max(sc))
                        }
                        _ => false,
                    };
                    if !ok {
                        ctx.violation("C15|dual-data-at-dual-abscissa", case(json!({"x": x, "float_abscissa_value": v.real(), "what": "value / data sensitivities / own derivative differ, or the evaluation failed"})));
                        return;
                    }
                }
                let grad = v.gradient1(names.clone());
                let f = sp.ppdnev_single(x, 0).unwrap_or(f64::NAN);
                ctx.eval(1);
                ctx.asserted(1 + m as u64);
                let scale = units.iter().map(|u| u.ppdnev_single(x, 0).unwrap_or(0.0).abs()).fold(0.0f64, f64::max).max(1e-300);
                if !((v.real() - f).abs() <= TOL * f.abs().max(scale)) {
                    ctx.violation("C15|dual-data-value", case(json!({"x": x, "dual_spline_value": v.real(), "float_spline_value": f})));
                    return;
                }
                for j in 0..m {
                    let want = units[j].ppdnev_single(x, 0).unwrap_or(f64::NAN);
                    if !((grad[j] - want).abs() <= 1e-8 * scale) {
                        ctx.violation("C15|sensitivity-to-datum|Dual", case(json!({"x": x, "datum": j, "observed": grad[j], "unit_spline_value": want})));
                        return;
                    }
                }
            }
            // 3x3 table, row PPSpline<Dual>
            let xd = Dual::try_new(xq[xq.len() / 2], vec!["xv".into()], vec![1.5]).unwrap();
            let x2 = Dual2::new(xq[xq.len() / 2], vec!["xv".into()]);
            for (cell, arg, want_kind) in [("DualxF64", Number::F64(xq[1]), Some(1)), ("DualxDual", Number::Dual(xd), Some(1)), ("DualxDual2(refused)", Number::Dual2(x2), None)] {
                let r = guarded(|| sd.mapped_value(&arg).ok());
                ctx.eval(1);
                ctx.asserted(1);
                ctx.class(&format!("table:{}", cell));
                match (r, want_kind) {
                    (Caught::Ok(Some(Number::Dual(_))), Some(1)) => {}
                    (Caught::Ok(None), None) => {}
                    (Caught::Panic { loc, msg }, _) => {
                        on_panic(ctx, &format!("mapped_value-{}", cell), &loc, &msg, case(json!({})));
                        return;
                    }
                    (Caught::Ok(other), _) => {
                        ctx.violation(&format!("C15|table|{}", cell), case(json!({"returned_kind": other.map(|n| match n { Number::F64(_) => "F64", Number::Dual(_) => "Dual", Number::Dual2(_) => "Dual2" })})));
                        return;
                    }
                }
            }
        } else {
            let yd: Vec<Dual2> = (0..m).map(|j| Dual2::new(y[j], vec![names[j].clone()])).collect();
            let mut sd = PPSpline::<Dual2>::new(k, l.t.clone(), None);
            match guarded(|| sd.csolve(&l.tau, &yd, l.left_n, l.right_n, l.lsq).is_ok()) {
                Caught::Ok(true) => {}
                Caught::Ok(false) => {
                    ctx.violation("C15|csolve-rejected|dual2-data", case(json!({})));
                    return;
                }
                Caught::Panic { loc, msg } => {
                    on_panic(ctx, "csolve-dual2", &loc, &msg, case(json!({})));
                    return;
                }
            }
            ctx.class("check:dual2-data");
            for x in xq.iter() {
                let v = match guarded(|| sd.ppdnev_single(x, 0)) {
                    Caught::Ok(Ok(v)) => v,
                    _ => {
                        ctx.violation("C15|evaluate-dual2-spline-failed", case(json!({"x": x})));
                        return;
                    }
                };
                {
                    let r = guarded(|| (sd.ppdnev_single_dual2(&Dual2::new(*x, vec![]), 0).ok(), sd.ppdnev_single_dual2(&Dual2::new(*x, vec!["xv".to_string()]), 0).ok(), sd.ppdnev_single(x, 1).ok(), sd.ppdnev_single(x, 2).ok()));
                    ctx.eval(2);
                    ctx.asserted(2);
                    ctx.class("check:dual2-data-at-dual2-abscissa");
                    let close = |a: f64, b: f64, sc: f64| (a - b).abs() <= 1e-10 * sc.max(a.abs()).max(b.abs()) + 1e-300;
                    let ok = match &r {
                        Caught::Ok((Some(c), Some(w), Some(d1), Some(d2))) => {
                            let gv = v.gradient1(names.clone());
                            let sc = v.real().abs().max(gv.iter().fold(0.0f64, |m, g| m.max(g.abs())));
                            let gc = c.gradient1(names.clone());
                            let gw = w.gradient1(names.clone());
                            close(c.real(), v.real(), sc)
                                && close(w.real(), v.real(), sc)
                                && (0..m).all(|j| close(gc[j], gv[j], sc) && close(gw[j], gv[j], sc))
                                && close(w.gradient1(vec!["xv".to_string()])[0], d1.real(), d1.real().abs().max(sc))
                                && close(w.gradient2(vec!["xv".to_string()])[[0, 0]], d2.real(), d2.real().abs().max(d1.real().abs()).max(sc))
                        }
                        _ => false,
                    };
                    if !ok {
                        ctx.violation("C15|dual2-data-at-dual2-abscissa", case(json!({"x": x, "float_abscissa_value": v.real(), "what": "value / data sensitivities / own derivatives differ, or the evaluation failed"})));
                        return;
                    }
                }
                let grad = v.gradient1(names.clone());
                let hess = v.gradient2(names.clone());
                ctx.eval(1);
                ctx.asserted(m as u64 + 1);
                let scale = units.iter().map(|u| u.ppdnev_single(x, 0).unwrap_or(0.0).abs()).fold(0.0f64, f64::max).max(1e-300);
                for j in 0..m {
                    let want = units[j].ppdnev_single(x, 0).unwrap_or(f64::NAN);
                    if !((grad[j] - want).abs() <= 1e-8 * scale) {
                        ctx.violation("C15|sensitivity-to-datum|Dual2", case(json!({"x": x, "datum": j, "observed": grad[j], "unit_spline_value": want})));
                        return;
                    }
                }
                // the spline is linear in its data: no second-order sensitivity
                if hess.iter().any(|h| h.abs() > 1e-8 * scale) {
                    ctx.violation("C15|second-order-sensitivity-to-data-nonzero", case(json!({"x": x, "max": hess.iter().fold(0.0f64, |m, h| m.max(h.abs()))})));
                    return;
                }
            }
            let xd = Dual::new(xq[xq.len() / 2], vec!["xv".into()]);
            let x2 = Dual2::new(xq[xq.len() / 2], vec!["xv".into()]);
            for (cell, arg, ok) in [("Dual2xF64", Number::F64(xq[1]), true), ("Dual2xDual(refused)", Number::Dual(xd), false), ("Dual2xDual2", Number::Dual2(x2), true)] {
                let r = guarded(|| sd.mapped_value(&arg).ok());
                ctx.eval(1);
                ctx.asserted(1);
                ctx.class(&format!("table:{}", cell));
                match (r, ok) {
                    (Caught::Ok(Some(Number::Dual2(_))), true) => {}
                    (Caught::Ok(None), false) => {}
                    (Caught::Panic { loc, msg }, _) => {
                        on_panic(ctx, &format!("mapped_value-{}", cell), &loc, &msg, case(json!({})));
                        return;
                    }
                    (Caught::Ok(other), _) => {
                        ctx.violation(&format!("C15|table|{}", cell), case(json!({"returned_kind": other.map(|n| match n { Number::F64(_) => "F64", Number::Dual(_) => "Dual", Number::Dual2(_) => "Dual2" })})));
                        return;
                    }
                }
            }
        }

        // ---------------- dual abscissa on the float spline: own derivatives as sensitivities
        for (x, _) in pts.iter().take(12) {
            for mm in 0..2usize {
                let s0 = sp.ppdnev_single(x, mm).unwrap_or(f64::NAN);
                let s1 = sp.ppdnev_single(x, mm + 1).unwrap_or(f64::NAN);
                let s2 = sp.ppdnev_single(x, mm + 2).unwrap_or(f64::NAN);
                let scale = [s0, s1, s2].iter().fold(1e-300f64, |m, v| m.max(v.abs()));
                // abscissa x = X(p, q) with dX/dp = a, dX/dq = b and (for Dual2) a non-zero own Hessian
                let (a, b) = (rng.real(), rng.real());
                let xd = Dual::try_new(*x, vec!["p".into(), "q".into()], vec![a, b]).unwrap();
                let got = match guarded(|| sp.ppdnev_single_dual(&xd, mm)) {
                    Caught::Ok(Ok(g)) => g,
                    Caught::Ok(Err(_)) => {
                        ctx.violation("C15|dual-abscissa-error", case(json!({"x": x})));
                        return;
                    }
                    Caught::Panic { loc, msg } => {
                        on_panic(ctx, "ppdnev_single_dual", &loc, &msg, case(json!({"x": x, "m": mm})));
                        return;
                    }
                };
                ctx.eval(1);
                ctx.asserted(1);
                ctx.class("check:dual-abscissa");
                let g = got.gradient1(vec!["p".into(), "q".into()]);
                if !((got.real() - s0).abs() <= TOL * scale && (g[0] - s1 * a).abs() <= 1e-8 * scale * a.abs().max(1.0) && (g[1] - s1 * b).abs() <= 1e-8 * scale * b.abs().max(1.0)) || got.vars().len() != 2 {
                    ctx.violation(&format!("C15|dual-abscissa|m={}", mm), case(json!({"x": x, "m": mm, "abscissa_dual": [a, b], "observed_real": got.real(), "observed_grad": g.to_vec(), "spline_value": s0, "spline_first_derivative": s1})));
                    return;
                }
                // the per-basis-function evaluators at a dual abscissa (public API): each carries the basis
                // function's own derivative, and the coefficient-weighted sum is the spline evaluated above
                if mm == 0 {
                    if let Some(c) = sp.c().as_ref() {
                        let (kk, tt) = (*sp.k(), sp.t().clone());
                        let mut acc = (0.0f64, 0.0f64, 0.0f64);
                        let mut bad = None;
                        for i in 0..*sp.n() {
                            let bd = match guarded(|| rateslib::splines::bsplev_single_dual(&xd, i, &kk, &tt, None)) {
                                Caught::Ok(v) => v,
                                Caught::Panic { loc, msg } => {
                                    on_panic(ctx, "bsplev_single_dual", &loc, &msg, case(json!({"x": x, "i": i})));
                                    return;
                                }
                            };
                            let b0 = rateslib::splines::bsplev_single_f64(x, i, &kk, &tt, None);
                            let b1 = rateslib::splines::bspldnev_single_f64(x, i, &kk, &tt, 1, None);
                            let gb = bd.gradient1(vec!["p".into(), "q".into()]);
                            if !(bd.real() == b0 && (gb[0] - b1 * a).abs() <= 1e-12 * (b1 * a).abs().max(1e-300) && (gb[1] - b1 * b).abs() <= 1e-12 * (b1 * b).abs().max(1e-300)) {
                                bad = Some(json!({"i": i, "observed_real": bd.real(), "observed_grad": gb.to_vec(), "basis_value": b0, "basis_first_derivative": b1}));
                                break;
                            }
                            acc = (acc.0 + c[i] * bd.real(), acc.1 + c[i] * gb[0], acc.2 + c[i] * gb[1]);
                        }
                        ctx.eval(*sp.n() as u64);
                        ctx.asserted(*sp.n() as u64 + 1);
                        ctx.class("check:basis-dual-abscissa");
                        if bad.is_none() && !((acc.0 - got.real()).abs() <= TOL * scale && (acc.1 - g[0]).abs() <= 1e-8 * scale * a.abs().max(1.0) && (acc.2 - g[1]).abs() <= 1e-8 * scale * b.abs().max(1.0)) {
                            bad = Some(json!({"sum_of_c_times_basis": [acc.0, acc.1, acc.2], "spline_at_dual_abscissa": [got.real(), g[0], g[1]]}));
                        }
                        if let Some(w) = bad {
                            ctx.violation("C15|basis-dual-abscissa", case(json!({"x": x, "abscissa_dual": [a, b], "what": w})));
                            return;
                        }
                    }
                }
                let hxx = [rng.real() * 0.5, rng.real() * 0.5, rng.real() * 0.5]; // d2X/dp2, d2X/dpdq, d2X/dq2
                let x2 = Dual2::try_new(*x, vec!["p".into(), "q".into()], vec![a, b], vec![0.5 * hxx[0], 0.5 * hxx[1], 0.5 * hxx[1], 0.5 * hxx[2]]).unwrap();
                let got2 = match guarded(|| sp.ppdnev_single_dual2(&x2, mm)) {
                    Caught::Ok(Ok(g)) => g,
                    Caught::Ok(Err(_)) => {
                        ctx.violation("C15|dual2-abscissa-error", case(json!({"x": x})));
                        return;
                    }
                    Caught::Panic { loc, msg } => {
                        on_panic(ctx, "ppdnev_single_dual2", &loc, &msg, case(json!({"x": x, "m": mm})));
                        return;
                    }
                };
                ctx.eval(1);
                ctx.asserted(1);
                ctx.class("check:dual2-abscissa");
                if mm == 0 && sp.c().is_some() {
                    // per-basis evaluator at a second-order abscissa: chain rule with the basis function's own derivatives
                    let (kk, tt) = (*sp.k(), sp.t().clone());
                    for i in 0..*sp.n() {
                        let bd = match guarded(|| rateslib::splines::bsplev_single_dual2(&x2, i, &kk, &tt, None)) {
                            Caught::Ok(v) => v,
                            Caught::Panic { loc, msg } => {
                                on_panic(ctx, "bsplev_single_dual2", &loc, &msg, case(json!({"x": x, "i": i})));
                                return;
                            }
                        };
                        let b0 = rateslib::splines::bsplev_single_f64(x, i, &kk, &tt, None);
                        let b1 = rateslib::splines::bspldnev_single_f64(x, i, &kk, &tt, 1, None);
                        let b2 = rateslib::splines::bspldnev_single_f64(x, i, &kk, &tt, 2, None);
                        let gb = bd.gradient1(vec!["p".into(), "q".into()]);
                        let hb = bd.gradient2(vec!["p".into(), "q".into()]);
                        let wh = [b2 * a * a + b1 * hxx[0], b2 * a * b + b1 * hxx[1], b2 * b * b + b1 * hxx[2]];
                        let sc = [b0, b1, b2].iter().fold(1e-300f64, |m, v| m.max(v.abs())) * (a.abs().max(b.abs()).max(1.0)).powi(2);
                        ctx.eval(1);
                        ctx.asserted(1);
                        let okb = bd.real() == b0
                            && (gb[0] - b1 * a).abs() <= 1e-10 * sc
                            && (gb[1] - b1 * b).abs() <= 1e-10 * sc
                            && (hb[[0, 0]] - wh[0]).abs() <= 1e-10 * sc
                            && (hb[[0, 1]] - wh[1]).abs() <= 1e-10 * sc
                            && (hb[[1, 0]] - wh[1]).abs() <= 1e-10 * sc
                            && (hb[[1, 1]] - wh[2]).abs() <= 1e-10 * sc;
                        if !okb {
                            ctx.violation("C15|basis-dual2-abscissa", case(json!({"x": x, "i": i, "abscissa_dual": [a, b], "abscissa_second_partials": hxx, "observed_real": bd.real(), "observed_grad": gb.to_vec(),
                                "observed_hess": hb.iter().cloned().collect::<Vec<_>>(), "expected_hess": wh, "basis_derivatives": [b0, b1, b2]})));
                            return;
                        }
                    }
                    ctx.class("check:basis-dual2-abscissa");
                }
                let g2 = got2.gradient1(vec!["p".into(), "q".into()]);
                let h2 = got2.gradient2(vec!["p".into(), "q".into()]);
                // chain rule: d2 f(X)/dpdq = f''(X) X_p X_q + f'(X) X_pq
                let want_h = [s2 * a * a + s1 * hxx[0], s2 * a * b + s1 * hxx[1], s2 * b * b + s1 * hxx[2]];
                let hs = scale * (a.abs().max(b.abs()).max(1.0)).powi(2);
                let ok = (got2.real() - s0).abs() <= TOL * scale
                    && (g2[0] - s1 * a).abs() <= 1e-8 * hs
                    && (g2[1] - s1 * b).abs() <= 1e-8 * hs
                    && (h2[[0, 0]] - want_h[0]).abs() <= 1e-8 * hs
                    && (h2[[0, 1]] - want_h[1]).abs() <= 1e-8 * hs
                    && (h2[[1, 0]] - want_h[1]).abs() <= 1e-8 * hs
                    && (h2[[1, 1]] - want_h[2]).abs() <= 1e-8 * hs;
                if !ok {
                    ctx.violation(&format!("C15|dual2-abscissa|m={}", mm), case(json!({"x": x, "m": mm, "abscissa_dual": [a, b], "abscissa_second_partials": hxx, "observed_real": got2.real(), "observed_grad": g2.to_vec(), "observed_hess": h2.iter().cloned().collect::<Vec<_>>(),
                        "expected_hess": want_h, "spline_derivatives": [s0, s1, s2]})));
                    return;
                }
            }
        }
        // 3x3 table, row PPSpline<f64>
        {
            let xm = xq[xq.len() / 2];
            for (cell, arg, kind) in [("f64xF64", Number::F64(xm), 0), ("f64xDual", Number::Dual(Dual::new(xm, vec!["xv".into()])), 1), ("f64xDual2", Number::Dual2(Dual2::new(xm, vec!["xv".into()])), 2)] {
                let r = guarded(|| sp.mapped_value(&arg).ok());
                ctx.eval(1);
                ctx.asserted(1);
                ctx.class(&format!("table:{}", cell));
                let ok = match (&r, kind) {
                    (Caught::Ok(Some(Number::F64(_))), 0) => true,
                    (Caught::Ok(Some(Number::Dual(_))), 1) => true,
                    (Caught::Ok(Some(Number::Dual2(_))), 2) => true,
                    _ => false,
                };
                if !ok {
                    ctx.violation(&format!("C15|table|{}", cell), case(json!({})));
                    return;
                }
            }
        }
        ctx.distinct(hash_u64s(&[k as u64, crate::util::hash_str(l.name), l.t.len() as u64, idx]));
        ctx.sample(&format!("k={}:{}", k, l.name), || l.describe());
    }
}
