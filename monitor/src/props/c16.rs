//! C16 - saving and loading an object gives back an equal object.

use super::adtree::ADNum;
use super::objgen::*;
use crate::calmodel::{to_ndt, Z_1970};
use crate::rng::Rng;
use crate::sup::{guarded, is_harness_location, ph, short_loc, Caught, Ctx, PhaseSpec, Prop, Tier};
use crate::util::hash_u64s;
use rateslib::calendars::{Cal, CalType, DateRoll, NamedCal, UnionCal};
use rateslib::dual::{ADOrder, Dual, Dual2, Number};
use rateslib::fx::rates::{Ccy, FXRates};
use rateslib::splines::PPSpline;
use rateslib::verif::{VerifCurve, VerifObj};
use serde::{de::DeserializeOwned, Serialize};
use serde_json::{json, Value};

pub struct C16 {}

impl C16 {
    pub fn new() -> Self {
        C16 {}
    }
}

const KINDS: [&str; 14] = ["PickledValues", "Dual", "Dual2", "Cal", "UnionCal", "NamedCal", "CalType", "FXRates", "Curve", "PPSplineF64", "PPSplineDual", "PPSplineDual2", "Number", "CurveDF"];

fn bits(a: f64, b: f64) -> bool {
    a.to_bits() == b.to_bits()
}

pub fn dual_identical(a: &Dual, b: &Dual) -> bool {
    use rateslib::dual::{Gradient1, Vars};
    bits(a.real(), b.real()) && a.vars().iter().eq(b.vars().iter()) && a.dual().len() == b.dual().len() && a.dual().iter().zip(b.dual().iter()).all(|(x, y)| bits(*x, *y))
}

pub fn dual2_identical(a: &Dual2, b: &Dual2) -> bool {
    use rateslib::dual::{Gradient1, Gradient2, Vars};
    bits(a.real(), b.real())
        && a.vars().iter().eq(b.vars().iter())
        && a.dual().len() == b.dual().len()
        && a.dual().iter().zip(b.dual().iter()).all(|(x, y)| bits(*x, *y))
        && a.dual2().dim() == b.dual2().dim()
        && a.dual2().iter().zip(b.dual2().iter()).all(|(x, y)| bits(*x, *y))
}

pub fn number_identical(a: &Number, b: &Number) -> bool {
    match (a, b) {
        (Number::F64(x), Number::F64(y)) => bits(*x, *y),
        (Number::Dual(x), Number::Dual(y)) => dual_identical(x, y),
        (Number::Dual2(x), Number::Dual2(y)) => dual2_identical(x, y),
        _ => false,
    }
}

fn cal_identical(a: &Cal, b: &Cal) -> bool {
    let mut ha = rateslib::verif::cal_holidays(a);
    let mut hb = rateslib::verif::cal_holidays(b);
    ha.sort();
    hb.sort();
    ha == hb && rateslib::verif::cal_week_mask(a) == rateslib::verif::cal_week_mask(b)
}

fn union_identical(a: &UnionCal, b: &UnionCal) -> bool {
    let (ma, sa) = rateslib::verif::union_cal_parts(a);
    let (mb, sb) = rateslib::verif::union_cal_parts(b);
    let veq = |x: &Vec<Cal>, y: &Vec<Cal>| x.len() == y.len() && x.iter().zip(y.iter()).all(|(p, q)| cal_identical(p, q));
    veq(&ma, &mb)
        && match (&sa, &sb) {
            (None, None) => true,
            (Some(x), Some(y)) => veq(x, y),
            _ => false,
        }
}

fn behaves_same<A: DateRoll, B: DateRoll>(a: &A, b: &B, r: &mut Rng) -> bool {
    for _ in 0..400 {
        let dt = to_ndt(Z_1970 + r.below(84371) as i64);
        if a.is_bus_day(&dt) != b.is_bus_day(&dt) || a.is_settlement(&dt) != b.is_settlement(&dt) {
            return false;
        }
    }
    true
}

fn caltype_identical(a: &CalType, b: &CalType, r: &mut Rng) -> bool {
    match (a, b) {
        (CalType::Cal(x), CalType::Cal(y)) => cal_identical(x, y),
        (CalType::UnionCal(x), CalType::UnionCal(y)) => union_identical(x, y),
        (CalType::NamedCal(x), CalType::NamedCal(y)) => rateslib::verif::named_cal_name(x) == rateslib::verif::named_cal_name(y) && behaves_same(x, y, r),
        _ => false,
    }
}

/// identical up to a few ulps in the derivative parts (an original held at second order and
/// brought down to first order carries derivatives rounded by the second-order arithmetic)
fn number_close(a: &Number, b: &Number) -> bool {
    use rateslib::dual::{Gradient1, Vars};
    match (a, b) {
        (Number::Dual(x), Number::Dual(y)) => {
            let names: std::collections::BTreeSet<String> = x.vars().iter().chain(y.vars().iter()).cloned().collect();
            let scale = x.dual().iter().chain(y.dual().iter()).fold(0.0f64, |m, t| m.max(t.abs()));
            crate::util::ulp_diff(x.real(), y.real()) <= 4
                && names.iter().all(|v| {
                    let (p, q) = (x.gradient1(vec![v.clone()])[0], y.gradient1(vec![v.clone()])[0]);
                    crate::util::rel_close(p, q, 1e-12, 1e-13 * scale)
                })
        }
        _ => number_identical(a, b),
    }
}

fn fx_same_mode(a: &FXRates, b: &FXRates, exact: bool) -> Result<(), String> {
    if exact {
        return fx_same(a, b);
    }
    let ca = rateslib::verif::fxrates_currencies(a);
    if ca != rateslib::verif::fxrates_currencies(b) {
        return Err("currency order".into());
    }
    let cc: Vec<Ccy> = ca.iter().map(|c| Ccy::try_new(c).unwrap()).collect();
    for x in cc.iter() {
        for y in cc.iter() {
            match (a.rate(x, y), b.rate(x, y)) {
                (Some(p), Some(q)) if number_close(&p, &q) => {}
                (p, q) => return Err(format!("rate {}{} differs beyond rounding: loaded {:?} vs original-at-first-order {:?}", rateslib::verif::ccy_name(x), rateslib::verif::ccy_name(y), p, q)),
            }
        }
    }
    Ok(())
}

fn fx_same(a: &FXRates, b: &FXRates) -> Result<(), String> {
    let ca = rateslib::verif::fxrates_currencies(a);
    let cb = rateslib::verif::fxrates_currencies(b);
    if ca != cb {
        return Err(format!("currency order {:?} vs {:?}", ca, cb));
    }
    let qa = rateslib::verif::fxrates_quotes(a);
    let qb = rateslib::verif::fxrates_quotes(b);
    if qa.len() != qb.len() || !qa.iter().zip(qb.iter()).all(|(x, y)| x.0 == y.0 && number_identical(&x.1, &y.1) && x.2 == y.2) {
        return Err("quotes differ".into());
    }
    let cc: Vec<Ccy> = ca.iter().map(|c| Ccy::try_new(c).unwrap()).collect();
    for x in cc.iter() {
        for y in cc.iter() {
            match (a.rate(x, y), b.rate(x, y)) {
                (Some(p), Some(q)) => {
                    if !number_identical(&p, &q) {
                        return Err(format!("rate {}{} differs", rateslib::verif::ccy_name(x), rateslib::verif::ccy_name(y)));
                    }
                }
                _ => return Err("rate missing".into()),
            }
        }
    }
    Ok(())
}

fn fx_values_same(a: &FXRates, b: &FXRates) -> bool {
    let ca = rateslib::verif::fxrates_currencies(a);
    let cc: Vec<Ccy> = ca.iter().map(|c| Ccy::try_new(c).unwrap()).collect();
    for x in cc.iter() {
        for y in cc.iter() {
            let v = |n: Option<Number>| n.map(|n| super::fxgen::num_value(&n));
            match (v(a.rate(x, y)), v(b.rate(x, y))) {
                // values at different derivative orders may differ in the last place (the compiler turns
                // some x.powf(-1.0) into 1.0/x and not others); C10 allows the same 4 ulp
                (Some(p), Some(q)) if crate::util::ulp_diff(p, q) <= 4 => {}
                _ => return false,
            }
        }
    }
    true
}

fn curve_same(a: &VerifCurve, b: &VerifCurve, queries: &[chrono::NaiveDateTime], rule: &str, r: &mut Rng) -> Result<(), String> {
    if a.id() != b.id() {
        return Err("id".into());
    }
    if a.interpolation() != b.interpolation() {
        return Err("interpolation".into());
    }
    if a.ad() != b.ad() {
        return Err("ad order".into());
    }
    if a.convention() != b.convention() || a.modifier() != b.modifier() {
        return Err("convention / modifier".into());
    }
    match (a.index_base(), b.index_base()) {
        (None, None) => {}
        (Some(x), Some(y)) if bits(x, y) => {}
        _ => return Err("index_base".into()),
    }
    if !caltype_identical(&a.calendar(), &b.calendar(), r) {
        return Err("calendar".into());
    }
    let (na, nb) = (a.nodes(), b.nodes());
    if na.len() != nb.len() || !na.iter().zip(nb.iter()).all(|((k1, v1), (k2, v2))| k1 == k2 && number_identical(v1, v2)) {
        return Err("node table".into());
    }
    if rule != "null" {
        for q in queries {
            if !number_identical(&a.value(q), &b.value(q)) {
                return Err(format!("value at {}", q));
            }
            match (a.index_value(q), b.index_value(q)) {
                (Ok(x), Ok(y)) if number_identical(&x, &y) => {}
                (Err(()), Err(())) => {}
                _ => return Err(format!("index_value at {}", q)),
            }
        }
    }
    Ok(())
}

fn spline_same<T>(a: &PPSpline<T>, b: &PPSpline<T>, same: impl Fn(&T, &T) -> bool) -> bool {
    a.k() == b.k()
        && a.n() == b.n()
        && a.t().len() == b.t().len()
        && a.t().iter().zip(b.t().iter()).all(|(x, y)| bits(*x, *y))
        && match (a.c(), b.c()) {
            (None, None) => true,
            (Some(x), Some(y)) => x.len() == y.len() && x.iter().zip(y.iter()).all(|(p, q)| same(p, q)),
            _ => false,
        }
}

/// the two untagged paths: serde_json (what the JSON trait does) and bincode (the pickle state)
fn paths<T: Serialize + DeserializeOwned>(o: &T) -> Result<(T, T, String), String> {
    let js = serde_json::to_string(o).map_err(|e| format!("to_json: {}", e))?;
    let j: T = serde_json::from_str(&js).map_err(|e| format!("from_json: {} (text: {})", e, crate::util::clip(&js, 300)))?;
    let bytes = bincode::serialize(o).map_err(|e| format!("bincode serialize: {}", e))?;
    let b: T = bincode::deserialize(&bytes).map_err(|e| format!("bincode deserialize: {}", e))?;
    Ok((j, b, js))
}

fn tagged(o: VerifObj) -> Result<(VerifObj, String), String> {
    let js = o.to_json().map_err(|e| format!("tagged to_json: {}", e))?;
    let back = VerifObj::from_json(&js).map_err(|e| format!("tagged from_json: {} (text: {})", e, crate::util::clip(&js, 300)))?;
    // the function Python calls; its result is the one compared with the original
    let via_py = VerifObj::py_from_json(&js).map_err(|e| format!("Python-exposed from_json: {} (text: {})", e, crate::util::clip(&js, 300)))?;
    if via_py.kind() != back.kind() {
        return Err(format!("Python-exposed from_json gave a {} where the container gives a {}", via_py.kind(), back.kind()));
    }
    Ok((via_py, js))
}

/// Python's pickle: cls(*obj.__getnewargs__()) then __setstate__(obj.__getstate__()) (verif hooks)
fn pickled<T>(res: Result<T, String>, same: impl FnOnce(&T) -> bool, d: &Value) -> Result<(), (String, Value)> {
    match res {
        Ok(p) if same(&p) => Ok(()),
        Ok(_) => Err(("pickle|not-equal".to_string(), json!({"object": d}))),
        Err(e) => Err(("pickle|error".to_string(), json!({"object": d, "error": e}))),
    }
}

impl Prop for C16 {
    fn id(&self) -> &'static str {
        "C16"
    }
    fn phases(&self, tier: Tier) -> Vec<PhaseSpec> {
        vec![ph("objects of every serialisable kind x 3 paths", tier.pick(7_200, 240_000))]
    }
    fn required_classes(&self, _tier: Tier) -> Vec<String> {
        let mut v = vec![];
        for k in KINDS {
            v.push(format!("kind:{}", k));
        }
        for r in ["linear", "log_linear", "linear_zero_rate", "flat_forward", "flat_backward", "null"] {
            v.push(format!("curve:{}", r));
        }
        for o in 0..3 {
            v.push(format!("curve:order{}", o));
            v.push(format!("fx:order{}", o));
        }
        for c in ["curve:calendar:Cal", "curve:calendar:UnionCal", "curve:calendar:NamedCal", "curve:index_base:some", "curve:index_base:none", "spline:solved", "spline:unsolved", "fx:saved-after-quote-updates", "fx:saved-as-built", "fx:saved-after-update-attempts-that-must-be-refused", "float:subnormal", "float:random-bits", "name:non-ascii", "name:quote", "name:empty", "dual2:second-order-block-not-symmetric", "dual2:second-order-block-symmetric", "namedcal:python-constructor:plain-spelling", "namedcal:python-constructor:padded-spelling"] {
            v.push(c.to_string());
        }
        v
    }
    fn min_evaluations(&self, tier: Tier) -> u64 {
        tier.pick(15_000, 600_000)
    }
    fn workers(&self, _tier: Tier) -> usize {
        16
    }
    fn rule(&self) -> String {
        "Seeded objects of every serialisable kind - Dual, Dual2, Number, Cal, UnionCal, NamedCal, CalType, Python-facing Curve (5 rules + null x orders 0/1/2 x 3 calendar kinds x index_base some/none, float / Dual / Dual2 nodes), FXRates (orders 0/1/2, float / Dual / Dual2 quotes; half of them saved after 1-3 quote updates / derivative-order switches), PPSpline of the 3 types (solved and unsolved) - with hostile contents: second-order blocks that are not symmetric (one Dual2 in three; the type does not require symmetry), random finite bit patterns, 17-significant-digit values, sub-normals, +-0, extreme exponents, neighbours of powers of ten; variable names with quotes, back-slashes, control and non-ASCII characters and the empty name; holiday timestamps with non-midnight and nanosecond parts. Half of the named calendars are made by the Python-facing constructor from a free spelling of a valid name (mixed case; white space around members and separators - whatever the constructor accepts must come back). Each goes through serde_json (the JSON trait), the tagged from_json container and the Python-exposed from_json function (verif hooks), bincode (the pickle state) and the pickle protocol itself as Python runs it (cls(*__getnewargs__()) then __setstate__(__getstate__()), verif hooks; also for every Convention and Modifier value, currencies and single quotes) and is compared with the original by the type's own == AND field by field / bit for bit, plus query answers (calendar predicates on sampled dates, curve values and index values, all n^2 FX rates, spline knots and coefficients). distinct_nontrivial = one per generated object.".into()
    }
    fn assumptions(&self) -> Vec<String> {
        vec![
            "only finite floats (JSON has no NaN / infinity)".into(),
            "an FX market is rebuilt on loading at first order: the loaded object is compared with the original brought to first order, and rate values are compared whatever state the original was in".into(),
            "a named calendar is compared by name and by behaviour on sampled dates".into(),
        ]
    }
    fn run_case(&mut self, ctx: &mut Ctx, _phase: usize, idx: u64, rng: &mut Rng) {
        let kind = KINDS[(idx % 14) as usize];
        ctx.class(&format!("kind:{}", kind));
        ctx.crumb(&format!("round trip {}", kind));
        let res = guarded(|| run_kind(ctx_proxy(), kind, rng));
        let (checks, classes, outcome, sample) = match res {
            Caught::Ok(r) => r,
            Caught::Panic { loc, msg } => {
                if is_harness_location(&loc) {
                    ctx.harness_error(format!("{} {}", loc, msg));
                } else {
                    ctx.violation(&format!("C16|panic|{}|{}", kind, short_loc(&loc)), json!({"kind": kind, "location": loc, "message": msg}));
                }
                return;
            }
        };
        ctx.eval(3);
        ctx.asserted(checks);
        for c in classes {
            ctx.class(&c);
        }
        ctx.distinct(hash_u64s(&[idx]));
        if let Err((sig, detail)) = outcome {
            ctx.violation(&format!("C16|{}|{}", kind, sig), detail);
            return;
        }
        ctx.sample(kind, || sample);
    }
}

fn ctx_proxy() {}

type Outcome = (u64, Vec<String>, Result<(), (String, Value)>, Value);

fn float_classes(xs: &[f64], out: &mut Vec<String>) {
    for x in xs {
        if *x != 0.0 && x.abs() < f64::MIN_POSITIVE {
            out.push("float:subnormal".into());
        }
        if x.abs() > 1e200 || (x.abs() < 1e-200 && *x != 0.0) {
            out.push("float:random-bits".into());
        }
    }
}

fn name_classes(ns: &[String], out: &mut Vec<String>) {
    for n in ns {
        if n.is_empty() {
            out.push("name:empty".into());
        }
        if n.contains('"') {
            out.push("name:quote".into());
        }
        if !n.is_ascii() {
            out.push("name:non-ascii".into());
        }
    }
}

fn run_kind(_: (), kind: &str, r: &mut Rng) -> Outcome {
    use rateslib::dual::{Gradient1, Vars};
    let mut cls: Vec<String> = vec![];
    let fail = |path: &str, what: &str, detail: Value| -> Result<(), (String, Value)> { Err((format!("{}|{}", path, what), detail)) };
    match kind {
        "Dual" => {
            let o = gen_dual(r);
            float_classes(&o.dual().to_vec(), &mut cls);
            float_classes(&[o.real()], &mut cls);
            name_classes(&o.vars().iter().cloned().collect::<Vec<_>>(), &mut cls);
            let d = o.describe();
            let out = (|| {
                let (j, b, js) = match paths(&o) {
                    Ok(x) => x,
                    Err(e) => return fail("serde", "error", json!({"object": d, "error": e})),
                };
                if !(j == o) || !dual_identical(&j, &o) {
                    return fail("json", if j == o { "not-bit-identical" } else { "not-equal" }, json!({"object": d, "json": js, "loaded": j.describe()}));
                }
                if !(b == o) || !dual_identical(&b, &o) {
                    return fail("bincode", "not-equal", json!({"object": d, "loaded": b.describe()}));
                }
                pickled(o.verif_py_pickle(), |p| *p == o && dual_identical(p, &o), &d)?;
                match tagged(VerifObj::wrap_dual(o.clone())) {
                    Ok((t, js)) => match t.as_dual() {
                        Some(x) if *x == o && dual_identical(x, &o) => Ok(()),
                        Some(x) => fail("tagged", "not-equal", json!({"object": d, "json": js, "loaded": x.describe()})),
                        None => fail("tagged", "wrong-kind", json!({"object": d, "json": js, "loaded_kind": t.kind()})),
                    },
                    Err(e) => fail("tagged", "error", json!({"object": d, "error": e})),
                }
            })();
            (6, cls, out, d)
        }
        "Dual2" => {
            let o = gen_dual2(r);
            {
                use rateslib::dual::Gradient2;
                let h = o.dual2();
                let n = h.nrows();
                if (0..n).any(|i| (0..n).any(|j| h[[i, j]].to_bits() != h[[j, i]].to_bits())) {
                    cls.push("dual2:second-order-block-not-symmetric".into());
                } else if n >= 2 {
                    cls.push("dual2:second-order-block-symmetric".into());
                }
            }
            float_classes(&o.dual().to_vec(), &mut cls);
            name_classes(&o.vars().iter().cloned().collect::<Vec<_>>(), &mut cls);
            let d = o.describe();
            let out = (|| {
                let (j, b, js) = match paths(&o) {
                    Ok(x) => x,
                    Err(e) => return fail("serde", "error", json!({"object": d, "error": e})),
                };
                if !(j == o) || !dual2_identical(&j, &o) {
                    return fail("json", if j == o { "not-bit-identical" } else { "not-equal" }, json!({"object": d, "json": js, "loaded": j.describe()}));
                }
                if !(b == o) || !dual2_identical(&b, &o) {
                    return fail("bincode", "not-equal", json!({"object": d, "loaded": b.describe()}));
                }
                pickled(o.verif_py_pickle(), |p| *p == o && dual2_identical(p, &o), &d)?;
                match tagged(VerifObj::wrap_dual2(o.clone())) {
                    Ok((t, js)) => match t.as_dual2() {
                        Some(x) if *x == o && dual2_identical(x, &o) => Ok(()),
                        Some(x) => fail("tagged", "not-equal", json!({"object": d, "json": js, "loaded": x.describe()})),
                        None => fail("tagged", "wrong-kind", json!({"json": js, "loaded_kind": t.kind()})),
                    },
                    Err(e) => fail("tagged", "error", json!({"object": d, "error": e})),
                }
            })();
            (6, cls, out, d)
        }
        "Number" => {
            let o = match r.below(3) {
                0 => Number::F64(hostile_f64(r)),
                1 => Number::Dual(gen_dual(r)),
                _ => Number::Dual2(gen_dual2(r)),
            };
            let d = json!(format!("{:?}", o));
            let out = (|| {
                let (j, b, js) = match paths(&o) {
                    Ok(x) => x,
                    Err(e) => return fail("serde", "error", json!({"object": d, "error": e})),
                };
                if !number_identical(&j, &o) || !(j == o) {
                    return fail("json", "not-equal", json!({"object": d, "json": js}));
                }
                if !number_identical(&b, &o) || !(b == o) {
                    return fail("bincode", "not-equal", json!({"object": d}));
                }
                Ok(())
            })();
            (4, cls, out, d)
        }
        "Cal" => {
            let o = gen_cal(r);
            let d = json!({"holidays": rateslib::verif::cal_holidays(&o).iter().take(6).map(|h| h.to_string()).collect::<Vec<_>>(), "week_mask": rateslib::verif::cal_week_mask(&o)});
            let out = (|| {
                let (j, b, js) = match paths(&o) {
                    Ok(x) => x,
                    Err(e) => return fail("serde", "error", json!({"object": d, "error": e})),
                };
                if !(j == o) || !cal_identical(&j, &o) || !behaves_same(&j, &o, r) {
                    return fail("json", "not-equal", json!({"object": d, "json": crate::util::clip(&js, 400)}));
                }
                if !(b == o) || !cal_identical(&b, &o) {
                    return fail("bincode", "not-equal", json!({"object": d}));
                }
                pickled(o.verif_py_pickle(), |p| *p == o && cal_identical(p, &o), &d)?;
                match tagged(VerifObj::wrap_cal(o.clone())) {
                    Ok((t, _)) => match t.as_cal() {
                        Some(x) if *x == o && cal_identical(x, &o) => Ok(()),
                        Some(_) => fail("tagged", "not-equal", json!({"object": d})),
                        None => fail("tagged", "wrong-kind", json!({"loaded_kind": t.kind()})),
                    },
                    Err(e) => fail("tagged", "error", json!({"object": d, "error": e})),
                }
            })();
            (7, cls, out, d)
        }
        "UnionCal" => {
            let o = gen_union(r);
            let (m, s) = rateslib::verif::union_cal_parts(&o);
            let d = json!({"members": m.len(), "settlement": s.as_ref().map(|v| v.len())});
            let out = (|| {
                let (j, b, _js) = match paths(&o) {
                    Ok(x) => x,
                    Err(e) => return fail("serde", "error", json!({"object": d, "error": e})),
                };
                if !union_identical(&j, &o) || !(j == o) {
                    return fail("json", "not-equal", json!({"object": d}));
                }
                if !union_identical(&b, &o) || !behaves_same(&b, &o, r) {
                    return fail("bincode", "not-equal", json!({"object": d}));
                }
                pickled(o.verif_py_pickle(), |p| *p == o && union_identical(p, &o), &d)?;
                match tagged(VerifObj::wrap_union_cal(o.clone())) {
                    Ok((t, _)) => match t.as_union_cal() {
                        Some(x) if union_identical(x, &o) => Ok(()),
                        Some(_) => fail("tagged", "not-equal", json!({"object": d})),
                        None => fail("tagged", "wrong-kind", json!({"loaded_kind": t.kind()})),
                    },
                    Err(e) => fail("tagged", "error", json!({"object": d, "error": e})),
                }
            })();
            (6, cls, out, d)
        }
        "NamedCal" => {
            // half of them from the Python-facing constructor with a free spelling of the name
            let (o, spelling) = if r.bool() {
                let (o, sp, labels) = gen_named_spelled(r);
                cls.extend(labels);
                (o, Some(sp))
            } else {
                (gen_named(r), None)
            };
            let name = rateslib::verif::named_cal_name(&o);
            let d = json!({"name": name, "spelling_given_to_the_python_constructor": spelling});
            let out = (|| {
                let (j, b, js) = match paths(&o) {
                    Ok(x) => x,
                    Err(e) => return fail("serde", "error", json!({"object": d, "error": e})),
                };
                // stored by name only
                let v: Value = serde_json::from_str(&js).unwrap_or(Value::Null);
                if v.as_object().map(|m| m.len()) != Some(1) || v["name"].as_str() != Some(&name) {
                    return fail("json", "not-stored-by-name-only", json!({"object": d, "json": js}));
                }
                if rateslib::verif::named_cal_name(&j) != name || !behaves_same(&j, &o, r) || !(j == o) {
                    return fail("json", "not-equal", json!({"object": d, "json": js}));
                }
                if rateslib::verif::named_cal_name(&b) != name || !behaves_same(&b, &o, r) {
                    return fail("bincode", "not-equal", json!({"object": d}));
                }
                {
                    let mut rr = r.clone();
                    pickled(o.verif_py_pickle(), |p| rateslib::verif::named_cal_name(p) == name && behaves_same(p, &o, &mut rr) && *p == o, &d)?;
                }
                match tagged(VerifObj::wrap_named_cal(o.clone())) {
                    Ok((t, _)) => match t.as_named_cal() {
                        Some(x) if rateslib::verif::named_cal_name(x) == name && behaves_same(x, &o, r) => Ok(()),
                        Some(_) => fail("tagged", "not-equal", json!({"object": d})),
                        None => fail("tagged", "wrong-kind", json!({"loaded_kind": t.kind()})),
                    },
                    Err(e) => fail("tagged", "error", json!({"object": d, "error": e})),
                }
            })();
            (7, cls, out, d)
        }
        "PickledValues" => {
            // the small value classes that only travel by pickle: every Convention and Modifier, a currency, a quote
            use rateslib::calendars::{Convention, Modifier};
            use rateslib::fx::rates::FXRate;
            let convs = [
                Convention::One, Convention::OnePlus, Convention::Act365F, Convention::Act365FPlus, Convention::Act360, Convention::ThirtyE360,
                Convention::Thirty360, Convention::Thirty360ISDA, Convention::ActActISDA, Convention::ActActICMA, Convention::Bus252,
            ];
            let mods = [Modifier::Act, Modifier::F, Modifier::ModF, Modifier::P, Modifier::ModP];
            let code = |r: &mut Rng| -> String { (0..3).map(|_| (b'a' + r.below(26) as u8) as char).collect() };
            let (l, mut rh) = (code(r), code(r));
            if rh == l {
                rh = if l == "zzz" { "aaa".to_string() } else { "zzz".to_string() };
            }
            let rate = match r.below(3) {
                0 => Number::F64(hostile_f64(r)),
                1 => Number::Dual(gen_dual(r)),
                _ => Number::Dual2(gen_dual2(r)),
            };
            let settle = if r.bool() { Some(to_ndt(Z_1970 + r.below(84371) as i64)) } else { None };
            let d = json!({"pair": format!("{}{}", l, rh), "rate": format!("{:?}", rate), "settlement": settle.map(|s| s.to_string())});
            let out = (|| {
                for c in convs.iter() {
                    match c.verif_py_pickle() {
                        Ok(p) if p == *c => {}
                        Ok(p) => return fail("pickle", "convention-changed", json!({"original": format!("{:?}", c), "loaded": format!("{:?}", p)})),
                        Err(e) => return fail("pickle", "error", json!({"original": format!("{:?}", c), "error": e})),
                    }
                }
                for m in mods.iter() {
                    match m.verif_py_pickle() {
                        Ok(p) if p == *m => {}
                        Ok(p) => return fail("pickle", "modifier-changed", json!({"original": format!("{:?}", m), "loaded": format!("{:?}", p)})),
                        Err(e) => return fail("pickle", "error", json!({"original": format!("{:?}", m), "error": e})),
                    }
                }
                let c = Ccy::try_new(&l).ok().expect("Ccy::try_new");
                match c.verif_py_pickle() {
                    Ok(p) if p == c && rateslib::verif::ccy_name(&p) == l => {}
                    Ok(p) => return fail("pickle", "currency-changed", json!({"original": l, "loaded": rateslib::verif::ccy_name(&p)})),
                    Err(e) => return fail("pickle", "error", json!({"original": l, "error": e})),
                }
                let q = FXRate::try_new(&l, &rh, rate.clone(), settle).ok().expect("FXRate::try_new");
                let same_quote = |p: &FXRate| -> bool {
                    let (a, b) = (serde_json::to_value(p).unwrap_or(Value::Null), serde_json::to_value(&q).unwrap_or(Value::Null));
                    *p == q && a == b
                };
                match q.verif_py_pickle() {
                    Ok(p) if same_quote(&p) => {}
                    Ok(p) => return fail("pickle", "quote-changed", json!({"original": d, "loaded": format!("{:?}", p)})),
                    Err(e) => return fail("pickle", "error", json!({"original": d, "error": e})),
                }
                let (j, b, js) = match paths(&q) {
                    Ok(x) => x,
                    Err(e) => return fail("serde", "error", json!({"object": d, "error": e})),
                };
                if !same_quote(&j) {
                    return fail("json", "quote-changed", json!({"object": d, "json": js}));
                }
                if !same_quote(&b) {
                    return fail("bincode", "quote-changed", json!({"object": d}));
                }
                Ok(())
            })();
            (21, cls, out, d)
        }
        "CalType" => {
            let o = gen_caltype(r);
            let d = json!({"variant": match &o { CalType::Cal(_) => "Cal", CalType::UnionCal(_) => "UnionCal", CalType::NamedCal(_) => "NamedCal" }});
            let out = (|| {
                let (j, b, _) = match paths(&o) {
                    Ok(x) => x,
                    Err(e) => return fail("serde", "error", json!({"object": d, "error": e})),
                };
                if !caltype_identical(&j, &o, r) {
                    return fail("json", "not-equal", json!({"object": d}));
                }
                if !caltype_identical(&b, &o, r) {
                    return fail("bincode", "not-equal", json!({"object": d}));
                }
                Ok(())
            })();
            (2, cls, out, d)
        }
        "CurveDF" => {
            // the generic core curve type through its own JSON impl and bincode
            use rateslib::calendars::{Convention, Modifier};
            use rateslib::curves::{CurveDF, FlatBackwardInterpolator, FlatForwardInterpolator, LinearInterpolator, LinearZeroRateInterpolator, LogLinearInterpolator, Nodes};
            let rule = super::curvegen::RULES[r.usize(5)];
            let spec = super::curvegen::gen_curve(r, rule, 6);
            let kindn = r.usize(3);
            let nodes = match kindn {
                0 => Nodes::F64(spec.supply.iter().map(|i| (super::curvegen::ts_to_ndt(spec.ts[*i]), if r.bool() { spec.vals[*i] } else { hostile_f64(r).abs().max(1e-300) })).collect()),
                1 => Nodes::Dual(spec.supply.iter().map(|i| (super::curvegen::ts_to_ndt(spec.ts[*i]), Dual::try_new(spec.vals[*i], vec![format!("n{}", i)], vec![hostile_f64(r)]).unwrap())).collect()),
                _ => Nodes::Dual2(spec.supply.iter().map(|i| (super::curvegen::ts_to_ndt(spec.ts[*i]), Dual2::try_new(spec.vals[*i], vec![format!("n{}", i)], vec![hostile_f64(r)], vec![hostile_f64(r)]).unwrap())).collect()),
            };
            let ib = if r.bool() { Some(hostile_f64(r)) } else { None };
            let d = json!({"curve": spec.describe(), "node_kind": kindn, "index_base": ib.map(|x| format!("{:e}", x))});
            let qs: Vec<chrono::NaiveDateTime> = super::curvegen::queries(&spec, r).iter().take(16).map(|(t, _)| super::curvegen::ts_to_ndt(*t)).collect();
            macro_rules! go {
                ($interp:expr, $cal:expr) => {{
                    let conv = [
                        Convention::One, Convention::OnePlus, Convention::Act365F, Convention::Act365FPlus, Convention::Act360, Convention::ThirtyE360,
                        Convention::Thirty360, Convention::Thirty360ISDA, Convention::ActActISDA, Convention::ActActICMA, Convention::Bus252,
                    ][r.usize(11)];
                    let md = [Modifier::Act, Modifier::F, Modifier::ModF, Modifier::P, Modifier::ModP][r.usize(5)];
                    let o = CurveDF::try_new(nodes.clone(), $interp, &hostile_name(r, 1), conv, md, ib, $cal).ok().expect("CurveDF::try_new");
                    let out = (|| {
                        let (j, b, js) = match paths(&o) {
                            Ok(x) => x,
                            Err(e) => return fail("serde", "error", json!({"object": d, "error": e})),
                        };
                        for (path, l) in [("json", &j), ("bincode", &b)] {
                            if !(*l == o) {
                                return fail(path, "not-equal", json!({"object": d, "json": crate::util::clip(&js, 500)}));
                            }
                            if l.ad() != o.ad() {
                                return fail(path, "ad-order", json!({"object": d}));
                            }
                            for q in qs.iter() {
                                if !number_identical(&l.interpolated_value(q), &o.interpolated_value(q)) {
                                    return fail(path, "value-differs", json!({"object": d, "query": q.to_string()}));
                                }
                            }
                        }
                        Ok(())
                    })();
                    (4 + 2 * qs.len() as u64, cls, out, d)
                }};
            }
            let named = r.bool();
            match (rule, named) {
                ("linear", true) => go!(LinearInterpolator::new(), gen_named(r)),
                ("linear", false) => go!(LinearInterpolator::new(), gen_cal(r)),
                ("log_linear", true) => go!(LogLinearInterpolator::new(), gen_named(r)),
                ("log_linear", false) => go!(LogLinearInterpolator::new(), gen_cal(r)),
                ("linear_zero_rate", true) => go!(LinearZeroRateInterpolator::new(), gen_named(r)),
                ("linear_zero_rate", false) => go!(LinearZeroRateInterpolator::new(), gen_cal(r)),
                ("flat_forward", true) => go!(FlatForwardInterpolator::new(), gen_named(r)),
                ("flat_forward", false) => go!(FlatForwardInterpolator::new(), gen_cal(r)),
                (_, true) => go!(FlatBackwardInterpolator::new(), gen_named(r)),
                (_, false) => go!(FlatBackwardInterpolator::new(), gen_cal(r)),
            }
        }
        "FXRates" => {
            let (o, m, order, hist, via_two, refused) = super::objgen::gen_fxrates_h(r);
            cls.push(format!("fx:order{}", order));
            cls.push(if hist > 0 { "fx:saved-after-quote-updates".to_string() } else { "fx:saved-as-built".to_string() });
            if refused > 0 {
                cls.push("fx:saved-after-update-attempts-that-must-be-refused".to_string());
            }
            let d = json!({"market (latest quotes)": m.describe(), "order": order, "successful_updates_before_saving": hist, "update_attempts_that_must_be_refused_before_saving": refused, "matrix_descends_from_second_order_build": via_two});
            let mut at_one = o.clone();
            let _ = at_one.set_ad_order(ADOrder::One);
            let out = (|| {
                let (j, b, js) = match paths(&o) {
                    Ok(x) => x,
                    Err(e) => return fail("serde", "error", json!({"object": d, "error": e})),
                };
                // stored as its quotes only
                let v: Value = serde_json::from_str(&js).unwrap_or(Value::Null);
                if v.get("fx_array").is_some() || v.get("fx_rates").is_none() {
                    return fail("json", "not-stored-as-quotes-only", json!({"object": d, "json_keys": v.as_object().map(|m| m.keys().cloned().collect::<Vec<_>>())}));
                }
                for (path, l) in [("json", &j), ("bincode", &b)] {
                    if rateslib::verif::fxrates_ad(l) != ADOrder::One {
                        return fail(path, "loaded-order-not-first", json!({"object": d}));
                    }
                    // an original held at second order is compared up to derivative rounding (see number_close)
                    if let Err(e) = fx_same_mode(l, &at_one, !via_two) {
                        return fail(path, "not-equal", json!({"object": d, "what": e}));
                    }
                    if !via_two && !(*l == at_one) {
                        return fail(path, "not-equal-by-==", json!({"object": d}));
                    }
                    // and bit-for-bit with a market built directly from the same quotes and base
                    if let Ok(Ok(fresh)) = m.build() {
                        let _ = rateslib::verif::fx_take_trace();
                        let mut fm = m.clone();
                        if fm.base.is_none() {
                            fm.base = Some(m.quotes[0].lhs);
                        }
                        let _ = fresh;
                        if let Ok(Ok(fresh2)) = fm.build() {
                            let _ = rateslib::verif::fx_take_trace();
                            if let Err(e) = fx_same(l, &fresh2) {
                                return fail(path, "differs-from-fresh-build", json!({"object": d, "what": e}));
                            }
                        }
                    }
                    if !fx_values_same(l, &o) {
                        return fail(path, "rate-values-differ", json!({"object": d}));
                    }
                }
                match o.verif_py_pickle() {
                    Ok(p) => {
                        if rateslib::verif::fxrates_ad(&p) != ADOrder::One {
                            return fail("pickle", "loaded-order-not-first", json!({"object": d}));
                        }
                        if let Err(e) = fx_same_mode(&p, &at_one, !via_two) {
                            return fail("pickle", "not-equal", json!({"object": d, "what": e}));
                        }
                        if !fx_values_same(&p, &o) {
                            return fail("pickle", "rate-values-differ", json!({"object": d}));
                        }
                    }
                    Err(e) => return fail("pickle", "error", json!({"object": d, "error": e})),
                }
                match tagged(VerifObj::wrap_fxrates(o.clone())) {
                    Ok((t, _)) => match t.as_fxrates() {
                        Some(x) => match fx_same_mode(x, &at_one, !via_two) {
                            Ok(()) if fx_values_same(x, &o) => Ok(()),
                            Ok(()) => fail("tagged", "rate-values-differ", json!({"object": d})),
                            Err(e) => fail("tagged", "not-equal", json!({"object": d, "what": e})),
                        },
                        None => fail("tagged", "wrong-kind", json!({"loaded_kind": t.kind()})),
                    },
                    Err(e) => fail("tagged", "error", json!({"object": d, "error": e})),
                }
            })();
            (12, cls, out, d)
        }
        "Curve" => {
            let co = gen_curve_obj(r);
            cls.push(format!("curve:{}", co.rule));
            cls.push(format!("curve:order{}", co.order));
            cls.push(format!("curve:calendar:{}", match co.curve.calendar() { CalType::Cal(_) => "Cal", CalType::UnionCal(_) => "UnionCal", CalType::NamedCal(_) => "NamedCal" }));
            cls.push(format!("curve:index_base:{}", if co.curve.index_base().is_some() { "some" } else { "none" }));
            let d = json!({"curve": co.spec.describe(), "interpolation": co.rule, "order": co.order});
            let qs: Vec<chrono::NaiveDateTime> = super::curvegen::queries(&co.spec, r).iter().take(24).map(|(t, _)| super::curvegen::ts_to_ndt(*t)).collect();
            let o = &co.curve;
            let out = (|| {
                // plain JSON through the JSON trait
                let js = match o.to_json_plain() {
                    Ok(j) => j,
                    Err(e) => return fail("json", "error", json!({"object": d, "error": e})),
                };
                let j = match VerifCurve::from_json_plain(&js) {
                    Ok(c) => c,
                    Err(e) => return fail("json", "error", json!({"object": d, "error": e, "json": crate::util::clip(&js, 400)})),
                };
                if let Err(w) = curve_same(&j, o, &qs, &co.rule, r) {
                    return fail("json", "not-equal", json!({"object": d, "what": w, "json": crate::util::clip(&js, 600)}));
                }
                if !j.eq(o) || !o.eq(&j) {
                    return fail("json", "not-equal-by-==", json!({"object": d}));
                }
                // the pickle state
                let bytes = o.getstate_bytes();
                let b = match VerifCurve::from_state_bytes(&bytes) {
                    Ok(c) => c,
                    Err(e) => return fail("bincode", "error", json!({"object": d, "error": e})),
                };
                if let Err(w) = curve_same(&b, o, &qs, &co.rule, r) {
                    return fail("bincode", "not-equal", json!({"object": d, "what": w}));
                }
                if !b.eq(o) {
                    return fail("bincode", "not-equal-by-==", json!({"object": d}));
                }
                // Python's pickle protocol on the class
                match o.py_pickle() {
                    Ok(p) => {
                        if let Err(w) = curve_same(&p, o, &qs, &co.rule, r) {
                            return fail("pickle", "not-equal", json!({"object": d, "what": w}));
                        }
                        if !p.eq(o) {
                            return fail("pickle", "not-equal-by-==", json!({"object": d}));
                        }
                    }
                    Err(e) => return fail("pickle", "error", json!({"object": d, "error": e})),
                }
                // the tagged text the Python object emits
                let tj = match o.to_json() {
                    Ok(t) => t,
                    Err(()) => return fail("tagged", "error", json!({"object": d})),
                };
                if let Err(e) = VerifObj::from_json(&tj) {
                    return fail("tagged", "error", json!({"object": d, "error": e}));
                }
                match VerifObj::py_from_json(&tj) {
                    Ok(t) => match t.as_curve() {
                        Some(x) => match curve_same(&x, o, &qs, &co.rule, r) {
                            Ok(()) if x.eq(o) => Ok(()),
                            Ok(()) => fail("tagged", "not-equal-by-==", json!({"object": d})),
                            Err(w) => fail("tagged", "not-equal", json!({"object": d, "what": w})),
                        },
                        None => fail("tagged", "wrong-kind", json!({"loaded_kind": t.kind()})),
                    },
                    Err(e) => fail("tagged", "error", json!({"object": d, "error": e})),
                }
            })();
            (9, cls, out, d)
        }
        _ => {
            // splines
            loop {
                let s = gen_spline(r);
                let matches_kind = matches!((&s, kind), (SplineObj::F(_), "PPSplineF64") | (SplineObj::D(_), "PPSplineDual") | (SplineObj::D2(_), "PPSplineDual2"));
                if !matches_kind {
                    continue;
                }
                macro_rules! spline_case {
                    ($o:expr, $same:expr, $wrap:path, $get:ident) => {{
                        let o = $o;
                        cls.push(if o.c().is_some() { "spline:solved".to_string() } else { "spline:unsolved".to_string() });
                        float_classes(o.t(), &mut cls);
                        let d = json!({"k": o.k(), "t": o.t(), "solved": o.c().is_some()});
                        let out = (|| {
                            let (j, b, js) = match paths(&o) {
                                Ok(x) => x,
                                Err(e) => return fail("serde", "error", json!({"object": d, "error": e})),
                            };
                            if !spline_same(&j, &o, $same) || !(j == o) {
                                return fail("json", "not-equal", json!({"object": d, "json": crate::util::clip(&js, 500)}));
                            }
                            if !spline_same(&b, &o, $same) || !(b == o) {
                                return fail("bincode", "not-equal", json!({"object": d}));
                            }
                            match tagged($wrap(o.clone())) {
                                Ok((t, _)) => match t.$get() {
                                    Some(x) if spline_same(x, &o, $same) => Ok(()),
                                    Some(_) => fail("tagged", "not-equal", json!({"object": d})),
                                    None => fail("tagged", "wrong-kind", json!({"loaded_kind": t.kind()})),
                                },
                                Err(e) => fail("tagged", "error", json!({"object": d, "error": e})),
                            }
                        })();
                        return (6, cls, out, d);
                    }};
                }
                match s {
                    SplineObj::F(o) => spline_case!(o, |a: &f64, b: &f64| bits(*a, *b), VerifObj::wrap_spline_f64, as_spline_f64),
                    SplineObj::D(o) => spline_case!(o, dual_identical, VerifObj::wrap_spline_dual, as_spline_dual),
                    SplineObj::D2(o) => spline_case!(o, dual2_identical, VerifObj::wrap_spline_dual2, as_spline_dual2),
                }
            }
        }
    }
}
