//! C17 - gradients are read back by name, in the order asked for.

use crate::refad::{Banded, Noise, RNum};
use crate::rng::Rng;
use crate::sup::{ph, Ctx, PhaseSpec, Prop, Tier};
use crate::util::{fj, fjv, hash_u64s};
use rateslib::dual::{Dual, Dual2, Gradient1, Gradient2, Vars};
use serde_json::json;

const POOL: [&str; 7] = ["a", "b", "c", "d", "e", "absent_1", "absent_2"];

pub struct C17 {
    stored4: Vec<Vec<usize>>,
    stored5: Vec<Vec<usize>>,
    req6: Vec<Vec<usize>>,
    req7: Vec<Vec<usize>>,
}

fn ordered_subsets_of(items: &[usize]) -> Vec<Vec<usize>> {
    let mut out: Vec<Vec<usize>> = vec![vec![]];
    let mut frontier: Vec<Vec<usize>> = vec![vec![]];
    for _ in 0..items.len() {
        let mut next = vec![];
        for l in frontier.iter() {
            for x in items {
                if !l.contains(x) {
                    let mut m = l.clone();
                    m.push(*x);
                    next.push(m);
                }
            }
        }
        out.extend(next.iter().cloned());
        frontier = next;
    }
    out
}

impl C17 {
    pub fn new() -> Self {
        C17 {
            stored4: ordered_subsets_of(&[0, 1, 2, 3]),
            stored5: ordered_subsets_of(&[0, 1, 2, 3, 4]),
            req6: ordered_subsets_of(&[0, 1, 2, 3, 5, 6]),
            req7: ordered_subsets_of(&[0, 1, 2, 3, 4, 5, 6]),
        }
    }
}

/// small non-zero whole numbers adding up to exactly zero (n >= 2)
fn zero_sum_weights(r: &mut Rng, n: usize) -> Vec<f64> {
    if n < 2 {
        return vec![0.0; n];
    }
    loop {
        let mut w: Vec<f64> = (0..n - 1).map(|_| (1 + r.usize(3)) as f64 * r.sign()).collect();
        let s: f64 = w.iter().sum();
        if s != 0.0 {
            w.push(-s);
            return w;
        }
    }
}

fn names(l: &[usize]) -> Vec<String> {
    l.iter().map(|i| POOL[*i].to_string()).collect()
}

fn classify(stored: &[usize], req: &[usize]) -> &'static str {
    if stored == req {
        "request==stored(fast-path)"
    } else if stored.len() == req.len() && req.iter().all(|x| stored.contains(x)) {
        "same-set-different-order"
    } else if req.iter().all(|x| stored.contains(x)) {
        "request-subset-of-stored"
    } else if stored.iter().all(|x| req.contains(x)) {
        "request-superset-of-stored"
    } else if req.iter().any(|x| stored.contains(x)) {
        "partial-overlap"
    } else {
        "disjoint"
    }
}

impl Prop for C17 {
    fn id(&self) -> &'static str {
        "C17"
    }
    fn phases(&self, tier: Tier) -> Vec<PhaseSpec> {
        let n = match tier {
            Tier::Quick => self.stored4.len() * self.req6.len(),
            Tier::Thorough => self.stored5.len() * self.req7.len(),
        } as u64;
        vec![ph("stored-list x requested-list enumeration", n), ph("manifold product rule", tier.pick(20_000, 5_000_000))]
    }
    fn exhaustive(&self, _tier: Tier) -> bool {
        true
    }
    fn required_classes(&self, _tier: Tier) -> Vec<String> {
        ["request==stored(fast-path)", "same-set-different-order", "request-subset-of-stored", "request-superset-of-stored", "partial-overlap", "disjoint", "product-rule", "product-rule:second-order-entries-cancel-to-zero", "stored:second-order-entries-cancel-to-zero"]
            .iter()
            .map(|s| s.to_string())
            .collect()
    }
    fn min_evaluations(&self, tier: Tier) -> u64 {
        tier.pick(400_000, 10_000_000)
    }
    fn rule(&self) -> String {
        "Complete enumeration of (every ordered stored variable list on a pool of 4 [quick] / 5 [thorough] names) x (every ordered requested list of distinct names on that pool plus 2 absent names): gradient1 on Dual and Dual2, gradient2 and gradient1_manifold on Dual2 compared entry by entry with a name-keyed lookup (0 for absent names); a third of the stored numbers and of the product-rule factors have second-order entries that cancel exactly when added up (k * w w' with the entries of w summing to zero, the Hessian of a function of a spread); then seeded random Dual2 pairs for the manifold product rule grad(fg) = g grad f + f grad g against gradient2(f*g) and reference AD. distinct_nontrivial = distinct (stored list, requested list) pairs with a non-empty request, plus product-rule cases.".into()
    }
    fn assumptions(&self) -> Vec<String> {
        vec!["requested lists contain distinct names (as the property states)".into(), "stored second-order coefficient matrices are symmetric (as every rateslib operation produces)".into()]
    }
    fn run_case(&mut self, ctx: &mut Ctx, phase: usize, idx: u64, rng: &mut Rng) {
        if phase == 0 {
            let (st, rq) = match ctx.tier {
                Tier::Quick => (&self.stored4, &self.req6),
                Tier::Thorough => (&self.stored5, &self.req7),
            };
            let nr = rq.len() as u64;
            let stored = st[(idx / nr) as usize].clone();
            let req = rq[(idx % nr) as usize].clone();
            // contents depend on the stored list only (so that every request is checked on the same number)
            let mut r2 = Rng::for_case(ctx.seed, "C17-content", 0, idx / nr);
            let n = stored.len();
            let g: Vec<f64> = (0..n).map(|_| if r2.chance(0.1) { 0.0 } else { r2.real() }).collect();
            let mut d2 = vec![0.0; n * n];
            let w = zero_sum_weights(&mut r2, n);
            let cancelling = n >= 2 && (idx / nr) % 3 == 2;
            for i in 0..n {
                for j in i..n {
                    let x = if cancelling { 0.75 * w[i] * w[j] } else { r2.real() };
                    d2[i * n + j] = x;
                    d2[j * n + i] = x;
                }
            }
            if cancelling {
                ctx.class("stored:second-order-entries-cancel-to-zero");
            }
            let v = r2.real();
            let sn = names(&stored);
            let rn = names(&req);
            let d1 = match Dual::try_new(v, sn.clone(), g.clone()) {
                Ok(d) => d,
                Err(_) => {
                    ctx.violation("C17|constructor|Dual", json!({"vars": sn}));
                    return;
                }
            };
            let dd = match Dual2::try_new(v, sn.clone(), g.clone(), d2.clone()) {
                Ok(d) => d,
                Err(_) => {
                    ctx.violation("C17|constructor|Dual2", json!({"vars": sn}));
                    return;
                }
            };
            let cls = classify(&stored, &req);
            ctx.class(cls);
            if !req.is_empty() {
                ctx.distinct(hash_u64s(&[idx]));
            }
            let lookup_g = |name: usize| -> f64 { stored.iter().position(|x| *x == name).map(|p| if g.is_empty() { 1.0 } else { g[p] }).unwrap_or(0.0) };
            let lookup_h = |a: usize, b: usize| -> f64 {
                match (stored.iter().position(|x| *x == a), stored.iter().position(|x| *x == b)) {
                    (Some(p), Some(q)) => 2.0 * d2[p * n + q],
                    _ => 0.0,
                }
            };
            let case = || json!({"stored_vars": sn, "stored_dual": fjv(&g), "stored_dual2_row_major": fjv(&d2), "requested": rn, "class": cls});
            ctx.crumb(&format!("stored {:?} requested {:?}", stored, req));
            // gradient1 on both types
            let g1 = d1.gradient1(rn.clone());
            let g2 = dd.gradient1(rn.clone());
            ctx.eval(2);
            for (tn, got) in [("Dual", &g1), ("Dual2", &g2)] {
                ctx.asserted(1);
                let ok = got.len() == req.len() && req.iter().enumerate().all(|(i, nm)| got[i].to_bits() == lookup_g(*nm).to_bits() || (got[i] == 0.0 && lookup_g(*nm) == 0.0));
                if !ok {
                    ctx.violation(&format!("C17|gradient1|{}|{}", tn, cls), json!({"case": case(), "returned": fjv(&got.to_vec()), "expected": fjv(&req.iter().map(|x| lookup_g(*x)).collect::<Vec<_>>())}));
                    return;
                }
            }
            // gradient2
            let h = dd.gradient2(rn.clone());
            ctx.eval(1);
            ctx.asserted(1);
            let mut ok = h.dim() == (req.len(), req.len());
            if ok {
                for (i, a) in req.iter().enumerate() {
                    for (j, b) in req.iter().enumerate() {
                        if h[[i, j]] != lookup_h(*a, *b) {
                            ok = false;
                        }
                    }
                }
            }
            if !ok {
                ctx.violation(
                    &format!("C17|gradient2|{}", cls),
                    json!({"case": case(), "returned": fjv(&h.iter().cloned().collect::<Vec<_>>()),
                           "expected": req.iter().map(|a| fjv(&req.iter().map(|b| lookup_h(*a, *b)).collect::<Vec<_>>())).collect::<Vec<_>>() }),
                );
                return;
            }
            // gradient1_manifold: values are first derivatives, own gradients are Hessian rows
            let m = dd.gradient1_manifold(rn.clone());
            ctx.eval(1);
            ctx.asserted(1);
            let mut ok = m.len() == req.len();
            if ok {
                for (i, a) in req.iter().enumerate() {
                    let mi = &m[i];
                    if mi.real() != lookup_g(*a) {
                        ok = false;
                    }
                    let row = mi.gradient1(rn.clone());
                    if row.len() != req.len() {
                        ok = false;
                        continue;
                    }
                    for (j, b) in req.iter().enumerate() {
                        if row[j] != lookup_h(*a, *b) {
                            ok = false;
                        }
                    }
                    // nothing else may be carried: names outside the request have zero derivative
                    let extra: Vec<String> = mi.vars().iter().filter(|v| !rn.contains(v)).cloned().collect();
                    if !extra.is_empty() && mi.gradient1(extra).iter().any(|x| *x != 0.0) {
                        ok = false;
                    }
                    if mi.dual2().iter().any(|x| *x != 0.0) {
                        ok = false;
                    }
                }
            }
            if !ok {
                ctx.violation(
                    &format!("C17|manifold|{}", cls),
                    json!({"case": case(), "returned": m.iter().map(|d| json!({"real": fj(d.real()), "vars": d.vars().iter().cloned().collect::<Vec<_>>(), "dual": fjv(&d.dual().to_vec())})).collect::<Vec<_>>()}),
                );
                return;
            }
            ctx.sample(cls, case);
        } else {
            // product rule on manifolds
            let np = 1 + rng.usize(4);
            let pool: Vec<String> = POOL[..5].iter().map(|s| s.to_string()).collect();
            let mk = |rng: &mut Rng| -> (Dual2, RNum) {
                let mut ns = pool.clone();
                rng.shuffle(&mut ns);
                ns.truncate(1 + rng.usize(np.min(5)));
                let n = ns.len();
                let g: Vec<f64> = (0..n).map(|_| rng.real()).collect();
                let mut h = vec![vec![0.0; n]; n];
                let mut d2 = vec![0.0; n * n];
                // one in three: second-order entries that cancel exactly when added up (the Hessian of any function
                // of a spread x - y looks like this: k * w w' with the entries of w summing to zero)
                let w = zero_sum_weights(rng, n);
                let cancelling = n >= 2 && rng.chance(0.34);
                let k = [0.5, -0.25, 1.0, 3.0, -2.0][rng.usize(5)];
                for i in 0..n {
                    for j in i..n {
                        let x = if cancelling { k * w[i] * w[j] } else if rng.chance(0.3) { 0.0 } else { rng.real() };
                        h[i][j] = 2.0 * x;
                        h[j][i] = 2.0 * x;
                        d2[i * n + j] = x;
                        d2[j * n + i] = x;
                    }
                }
                let v = rng.real();
                (Dual2::try_new(v, ns.clone(), g.clone(), d2).unwrap(), RNum::from_parts(v, &ns, &g, Some(&h)))
            };
            let (f, rf) = mk(rng);
            let (gg, rg) = mk(rng);
            for (o, r) in [(&f, &rf), (&gg, &rg)] {
                let _ = r;
                let sum: f64 = o.dual2().iter().sum();
                if o.dual2().iter().any(|x| *x != 0.0) && sum == 0.0 {
                    ctx.class("product-rule:second-order-entries-cancel-to-zero");
                }
            }
            let mut req = pool.clone();
            rng.shuffle(&mut req);
            req.truncate(1 + rng.usize(5));
            if rng.chance(0.3) {
                req.insert(rng.usize(req.len() + 1), "absent_1".to_string());
            }
            ctx.crumb("manifold product rule");
            let mf = f.gradient1_manifold(req.clone());
            let mg = gg.gradient1_manifold(req.clone());
            let prod = &f * &gg;
            let hess = prod.gradient2(req.clone());
            ctx.eval(4);
            ctx.class("product-rule");
            ctx.distinct(hash_u64s(&[0xbeef, idx]));
            // reference
            let exact = RNum::mul(&rf, &rg, &mut Noise::exact());
            let mut band = Banded::new(exact.clone());
            for s in 0..6 {
                band.absorb(&RNum::mul(&rf, &rg, &mut Noise::noisy(rng.next() ^ s)));
            }
            let scale = band.norm_inf(true).max(1e-300);
            let mut bad = mf.len() != req.len() || mg.len() != req.len() || hess.dim() != (req.len(), req.len());
            let mut detail = json!({});
            if !bad {
                for i in 0..req.len() {
                    // (grad f)_i * g + f * (grad g)_i  computed with the real operators
                    let term = &(&mf[i] * &gg) + &(&f * &mg[i]);
                    let row = term.gradient1(req.clone());
                    ctx.asserted(1);
                    // value of the manifold product = first derivative of the product
                    let want1 = exact.gd(&req[i]);
                    if !crate::refad::within(term.real(), want1, band.spread_g(&req[i]), scale) && !crate::util::rel_close(term.real(), want1, 1e-12, 1e-13 * scale) {
                        bad = true;
                        detail = json!({"what": "value of manifold product != d(fg)/dx_i", "i": i, "observed": fj(term.real()), "expected": fj(want1)});
                    }
                    for j in 0..req.len() {
                        ctx.asserted(2);
                        let want = exact.hd(&req[i], &req[j]);
                        let sp = band.spread_h(&req[i], &req[j]);
                        let tol_ok = |x: f64| crate::refad::within(x, want, sp, scale) || crate::util::rel_close(x, want, 1e-12, 1e-13 * scale);
                        if !tol_ok(row[j]) {
                            bad = true;
                            detail = json!({"what": "gradient of manifold product != second derivative of the product", "i": i, "j": j, "observed": fj(row[j]), "expected": fj(want)});
                        }
                        if !tol_ok(hess[[i, j]]) {
                            bad = true;
                            detail = json!({"what": "gradient2(f*g) != second derivative of the product", "i": i, "j": j, "observed": fj(hess[[i, j]]), "expected": fj(want)});
                        }
                    }
                }
            }
            if bad {
                ctx.violation(
                    "C17|product-rule",
                    json!({"f": {"real": fj(f.real()), "vars": f.vars().iter().cloned().collect::<Vec<_>>(), "dual": fjv(&f.dual().to_vec()), "dual2": fjv(&f.dual2().iter().cloned().collect::<Vec<_>>())},
                           "g": {"real": fj(gg.real()), "vars": gg.vars().iter().cloned().collect::<Vec<_>>(), "dual": fjv(&gg.dual().to_vec()), "dual2": fjv(&gg.dual2().iter().cloned().collect::<Vec<_>>())},
                           "requested": req, "detail": detail}),
                );
            }
            ctx.sample("product-rule", || json!({"f_vars": f.vars().iter().cloned().collect::<Vec<_>>(), "g_vars": gg.vars().iter().cloned().collect::<Vec<_>>(), "requested": req}));
        }
    }
}
