//! C18 - changing derivative order or mixing number kinds never alters values.
//!
//! The full conversion table (set_order, set_order_clone, every From impl) and the full
//! (operator x kind pairing) table of the Number container, each cell on seeded random values.

use super::adtree::ADNum;
use crate::rng::Rng;
use crate::sup::{guarded, is_harness_location, ph, Caught, Ctx, PhaseSpec, Prop, Tier};
use crate::util::{fj, hash_u64s};
use num_traits::{One, Pow, Signed, Zero};
use rateslib::dual::{set_order, set_order_clone, ADOrder, Dual, Dual2, Gradient1, Gradient2, MathFuncs, Number, Vars};
use serde_json::{json, Value};

pub struct C18 {}

impl C18 {
    pub fn new() -> Self {
        C18 {}
    }
}

const POOL: [&str; 4] = ["k", "l", "m", "n"];

fn gen_dual(r: &mut Rng, v: f64) -> Dual {
    let mut names: Vec<String> = POOL.iter().map(|s| s.to_string()).collect();
    r.shuffle(&mut names);
    names.truncate(r.usize(5));
    let g: Vec<f64> = (0..names.len()).map(|_| if r.chance(0.15) { 0.0 } else { r.real() }).collect();
    Dual::try_new(v, names, g).unwrap()
}

fn gen_dual2(r: &mut Rng, v: f64) -> Dual2 {
    let mut names: Vec<String> = POOL.iter().map(|s| s.to_string()).collect();
    r.shuffle(&mut names);
    names.truncate(r.usize(5));
    let n = names.len();
    let g: Vec<f64> = (0..n).map(|_| if r.chance(0.15) { 0.0 } else { r.real() }).collect();
    let mut d2 = vec![0.0; n * n];
    for i in 0..n {
        for j in i..n {
            let x = if r.chance(0.3) { 0.0 } else { r.real() };
            d2[i * n + j] = x;
            d2[j * n + i] = x;
        }
    }
    Dual2::try_new(v, names, g, d2).unwrap()
}

fn gen_num(r: &mut Rng, kind: usize, v: f64) -> Number {
    match kind {
        0 => Number::F64(v),
        1 => Number::Dual(gen_dual(r, v)),
        _ => Number::Dual2(gen_dual2(r, v)),
    }
}

const KIND: [&str; 3] = ["F64", "Dual", "Dual2"];

fn kind_of(n: &Number) -> usize {
    match n {
        Number::F64(_) => 0,
        Number::Dual(_) => 1,
        Number::Dual2(_) => 2,
    }
}

fn bits_eq(a: f64, b: f64) -> bool {
    a.to_bits() == b.to_bits() || (a.is_nan() && b.is_nan())
}

fn dual_same(a: &Dual, b: &Dual) -> bool {
    bits_eq(a.real(), b.real()) && a.vars().iter().eq(b.vars().iter()) && a.dual().len() == b.dual().len() && a.dual().iter().zip(b.dual().iter()).all(|(x, y)| bits_eq(*x, *y))
}

fn dual2_same(a: &Dual2, b: &Dual2) -> bool {
    bits_eq(a.real(), b.real())
        && a.vars().iter().eq(b.vars().iter())
        && a.dual().len() == b.dual().len()
        && a.dual().iter().zip(b.dual().iter()).all(|(x, y)| bits_eq(*x, *y))
        && a.dual2().dim() == b.dual2().dim()
        && a.dual2().iter().zip(b.dual2().iter()).all(|(x, y)| bits_eq(*x, *y))
}

fn num_same(a: &Number, b: &Number) -> bool {
    match (a, b) {
        (Number::F64(x), Number::F64(y)) => bits_eq(*x, *y),
        (Number::Dual(x), Number::Dual(y)) => dual_same(x, y),
        (Number::Dual2(x), Number::Dual2(y)) => dual2_same(x, y),
        _ => false,
    }
}

fn nj(n: &Number) -> Value {
    match n {
        Number::F64(f) => json!({"F64": fj(*f)}),
        Number::Dual(d) => json!({"Dual": d.describe()}),
        Number::Dual2(d) => json!({"Dual2": d.describe()}),
    }
}

fn order_of(k: usize) -> ADOrder {
    [ADOrder::Zero, ADOrder::One, ADOrder::Two][k]
}

// ------------------------------------------------------------------ conversions

fn check_conversions(ctx: &mut Ctx, rng: &mut Rng) {
    let v = if rng.chance(0.1) { rng.finite_bits() } else { rng.real() };
    for src in 0..3 {
        let x = gen_num(rng, src, v);
        for tgt in 0..3 {
            // requested names, possibly with duplicates
            let mut req: Vec<String> = vec![];
            for _ in 0..rng.usize(4) {
                req.push(format!("t{}", rng.usize(3)));
            }
            let mut dedup: Vec<String> = vec![];
            for n in req.iter() {
                if !dedup.contains(n) {
                    dedup.push(n.clone());
                }
            }
            ctx.crumb(&format!("set_order {} -> {}", KIND[src], tgt));
            let a = set_order(x.clone(), order_of(tgt), req.clone());
            let b = set_order_clone(&x, order_of(tgt), req.clone());
            ctx.eval(2);
            ctx.class(&format!("set_order:{}->{}", KIND[src], tgt));
            for (fname, got) in [("set_order", &a), ("set_order_clone", &b)] {
                ctx.asserted(1);
                let ok = match (&x, tgt, got) {
                    (Number::F64(f), 0, Number::F64(g)) => bits_eq(*f, *g),
                    (Number::F64(f), 1, Number::Dual(d)) => {
                        bits_eq(d.real(), *f) && d.vars().iter().cloned().collect::<Vec<_>>() == dedup && d.dual().len() == dedup.len() && d.dual().iter().all(|x| *x == 1.0)
                    }
                    (Number::F64(f), 2, Number::Dual2(d)) => {
                        bits_eq(d.real(), *f)
                            && d.vars().iter().cloned().collect::<Vec<_>>() == dedup
                            && d.dual().len() == dedup.len()
                            && d.dual().iter().all(|x| *x == 1.0)
                            && d.dual2().dim() == (dedup.len(), dedup.len())
                            && d.dual2().iter().all(|x| *x == 0.0)
                    }
                    (Number::Dual(s), 0, Number::F64(g)) => bits_eq(s.real(), *g),
                    (Number::Dual(s), 1, Number::Dual(d)) => dual_same(s, d),
                    (Number::Dual(s), 2, Number::Dual2(d)) => {
                        bits_eq(s.real(), d.real())
                            && s.vars().iter().eq(d.vars().iter())
                            && s.dual().len() == d.dual().len()
                            && s.dual().iter().zip(d.dual().iter()).all(|(x, y)| bits_eq(*x, *y))
                            && d.dual2().dim() == (s.vars().len(), s.vars().len())
                            && d.dual2().iter().all(|x| *x == 0.0)
                    }
                    (Number::Dual2(s), 0, Number::F64(g)) => bits_eq(s.real(), *g),
                    (Number::Dual2(s), 1, Number::Dual(d)) => {
                        bits_eq(s.real(), d.real()) && s.vars().iter().eq(d.vars().iter()) && s.dual().len() == d.dual().len() && s.dual().iter().zip(d.dual().iter()).all(|(x, y)| bits_eq(*x, *y))
                    }
                    (Number::Dual2(s), 2, Number::Dual2(d)) => dual2_same(s, d),
                    _ => false,
                };
                if !ok {
                    ctx.violation(&format!("C18|{}|{}->{}", fname, KIND[src], tgt), json!({"input": nj(&x), "target_order": tgt, "requested_vars": req, "output": nj(got)}));
                }
            }
        }
    }
    // From impls
    let d1 = gen_dual(rng, v);
    let d2 = gen_dual2(rng, v);
    ctx.crumb("From impls");
    let mut ok = true;
    let mut bad = vec![];
    let mut chk = |name: &str, c: bool, bad: &mut Vec<String>| {
        if !c {
            bad.push(name.to_string());
        }
    };
    chk("f64::from(Dual)", bits_eq(f64::from(d1.clone()), d1.real()), &mut bad);
    chk("f64::from(&Dual)", bits_eq(f64::from(&d1), d1.real()), &mut bad);
    chk("f64::from(Dual2)", bits_eq(f64::from(d2.clone()), d2.real()), &mut bad);
    chk("f64::from(&Dual2)", bits_eq(f64::from(&d2), d2.real()), &mut bad);
    chk("Dual::from(f64)", dual_same(&Dual::from(v), &Dual::new(v, vec![])) && Dual::from(v).vars().is_empty(), &mut bad);
    chk("Dual2::from(f64)", dual2_same(&Dual2::from(v), &Dual2::new(v, vec![])) && Dual2::from(v).vars().is_empty(), &mut bad);
    for (nm, lo) in [("Dual::from(Dual2)", Dual::from(d2.clone())), ("Dual::from(&Dual2)", Dual::from(&d2))] {
        chk(nm, bits_eq(lo.real(), d2.real()) && lo.vars().iter().eq(d2.vars().iter()) && lo.dual().len() == d2.dual().len() && lo.dual().iter().zip(d2.dual().iter()).all(|(x, y)| bits_eq(*x, *y)), &mut bad);
    }
    for (nm, up) in [("Dual2::from(Dual)", Dual2::from(d1.clone())), ("Dual2::from(&Dual)", Dual2::from(&d1))] {
        let n = d1.vars().len();
        chk(
            nm,
            bits_eq(up.real(), d1.real()) && up.vars().iter().eq(d1.vars().iter()) && up.dual().len() == n && up.dual().iter().zip(d1.dual().iter()).all(|(x, y)| bits_eq(*x, *y)) && up.dual2().dim() == (n, n) && up.dual2().iter().all(|x| *x == 0.0),
            &mut bad,
        );
    }
    for k in 0..3 {
        let nx = match k {
            0 => Number::F64(v),
            1 => Number::Dual(d1.clone()),
            _ => Number::Dual2(d2.clone()),
        };
        chk(&format!("f64::from(Number::{})", KIND[k]), bits_eq(f64::from(nx.clone()), v) && bits_eq(f64::from(&nx), v), &mut bad);
        let want1 = match k {
            0 => Dual::new(v, vec![]),
            1 => d1.clone(),
            _ => Dual::from(&d2),
        };
        chk(&format!("Dual::from(Number::{})", KIND[k]), dual_same(&Dual::from(nx.clone()), &want1) && dual_same(&Dual::from(&nx), &want1), &mut bad);
        let want2 = match k {
            0 => Dual2::new(v, vec![]),
            1 => Dual2::from(&d1),
            _ => d2.clone(),
        };
        chk(&format!("Dual2::from(Number::{})", KIND[k]), dual2_same(&Dual2::from(nx.clone()), &want2) && dual2_same(&Dual2::from(&nx), &want2), &mut bad);
    }
    // raising a float with the plain constructors: exactly the requested names, unit sensitivity, zero Hessian;
    // `new_from` additionally lands on the other number's variable list (shared storage)
    {
        let names: Vec<String> = (0..1 + (v.to_bits() % 3) as usize).map(|i| format!("n{}", i)).collect();
        let a = Dual::new(v, names.clone());
        let b = Dual2::new(v, names.clone());
        chk("Dual::new", bits_eq(a.real(), v) && a.vars().iter().eq(names.iter()) && a.dual().len() == names.len() && a.dual().iter().all(|x| *x == 1.0), &mut bad);
        chk("Dual2::new", bits_eq(b.real(), v) && b.vars().iter().eq(names.iter()) && b.dual().len() == names.len() && b.dual().iter().all(|x| *x == 1.0) && b.dual2().dim() == (names.len(), names.len()) && b.dual2().iter().all(|x| *x == 0.0), &mut bad);
        let sub1: Vec<String> = d1.vars().iter().enumerate().filter(|(i, _)| (v.to_bits() >> i) & 1 == 1).map(|(_, n)| n.clone()).collect();
        let f1 = Dual::new_from(&d1, v, sub1.clone());
        let g1 = f1.gradient1(d1.vars().iter().cloned().collect());
        chk(
            "Dual::new_from",
            bits_eq(f1.real(), v) && f1.ptr_eq(&d1) && f1.dual().len() == d1.vars().len() && d1.vars().iter().enumerate().all(|(i, n)| g1[i] == if sub1.contains(n) { 1.0 } else { 0.0 }),
            &mut bad,
        );
        let sub2: Vec<String> = d2.vars().iter().enumerate().filter(|(i, _)| (v.to_bits() >> (i + 3)) & 1 == 1).map(|(_, n)| n.clone()).collect();
        let f2 = Dual2::new_from(&d2, v, sub2.clone());
        let g2 = f2.gradient1(d2.vars().iter().cloned().collect());
        let n2 = d2.vars().len();
        chk(
            "Dual2::new_from",
            bits_eq(f2.real(), v) && f2.ptr_eq(&d2) && f2.dual().len() == n2 && f2.dual2().dim() == (n2, n2) && f2.dual2().iter().all(|x| *x == 0.0) && d2.vars().iter().enumerate().all(|(i, n)| g2[i] == if sub2.contains(n) { 1.0 } else { 0.0 }),
            &mut bad,
        );
    }
    chk("Number::from(f64)", num_same(&Number::from(v), &Number::F64(v)) && num_same(&Number::from(&v), &Number::F64(v)), &mut bad);
    chk("Number::from(Dual)", num_same(&Number::from(d1.clone()), &Number::Dual(d1.clone())) && num_same(&Number::from(&d1), &Number::Dual(d1.clone())), &mut bad);
    chk("Number::from(Dual2)", num_same(&Number::from(d2.clone()), &Number::Dual2(d2.clone())) && num_same(&Number::from(&d2), &Number::Dual2(d2.clone())), &mut bad);
    ctx.eval(34);
    ctx.asserted(34);
    ctx.class("from-impls");
    if !bad.is_empty() {
        ok = false;
    }
    if !ok {
        for b in bad {
            ctx.violation(&format!("C18|from|{}", b), json!({"value": fj(v), "dual": d1.describe(), "dual2": d2.describe(), "failing": b}));
        }
    }
}

// ------------------------------------------------------------------ Number operator table

#[derive(Clone, Copy, Debug)]
enum BOp {
    Add,
    Sub,
    Mul,
    Div,
    Rem,
    Eq,
    Lt,
    Le,
    Gt,
    Ge,
    AbsSub,
}
const BOPS: [BOp; 11] = [BOp::Add, BOp::Sub, BOp::Mul, BOp::Div, BOp::Rem, BOp::Eq, BOp::Lt, BOp::Le, BOp::Gt, BOp::Ge, BOp::AbsSub];

enum Out {
    N(Number),
    B(bool),
}

/// Approximate, name-keyed comparison (value, every first and second derivative) used where two different
/// code paths of the library must agree up to rounding: relative 1e-9 of the larger magnitude, absolute 1e-12.
fn close(x: f64, y: f64) -> bool {
    if x.is_nan() || y.is_nan() {
        return x.is_nan() && y.is_nan();
    }
    x == y || (x - y).abs() <= 1e-12 + 1e-9 * x.abs().max(y.abs())
}

fn num_close(a: &Number, b: &Number) -> bool {
    match (a, b) {
        (Number::F64(x), Number::F64(y)) => close(*x, *y),
        (Number::Dual(x), Number::Dual(y)) => {
            let mut names: Vec<String> = x.vars().iter().cloned().collect();
            for n in y.vars().iter() {
                if !names.contains(n) {
                    names.push(n.clone());
                }
            }
            close(x.real(), y.real()) && x.gradient1(names.clone()).iter().zip(y.gradient1(names).iter()).all(|(p, q)| close(*p, *q))
        }
        (Number::Dual2(x), Number::Dual2(y)) => {
            let mut names: Vec<String> = x.vars().iter().cloned().collect();
            for n in y.vars().iter() {
                if !names.contains(n) {
                    names.push(n.clone());
                }
            }
            close(x.real(), y.real())
                && x.gradient1(names.clone()).iter().zip(y.gradient1(names.clone()).iter()).all(|(p, q)| close(*p, *q))
                && x.gradient2(names.clone()).iter().zip(y.gradient2(names).iter()).all(|(p, q)| close(*p, *q))
        }
        _ => false,
    }
}

/// A float operand means the variable-free number of the other operand's kind: the same operator between
/// two numbers of that kind (another code path than `f64 op Dual` / `Dual op f64`) must give the same
/// value and the same derivatives of both orders.
fn promoted_bop(op: BOp, a: &Number, b: &Number) -> Option<Number> {
    macro_rules! same_kind {
        ($x:expr, $y:expr, $wrap:expr) => {
            match op {
                BOp::Add => Some($wrap($x + $y)),
                BOp::Sub => Some($wrap($x - $y)),
                BOp::Mul => Some($wrap($x * $y)),
                BOp::Div => Some($wrap($x / $y)),
                _ => None,
            }
        };
    }
    match (a, b) {
        (Number::F64(x), Number::Dual(y)) => same_kind!(&Dual::new(*x, vec![]), y, Number::Dual),
        (Number::F64(x), Number::Dual2(y)) => same_kind!(&Dual2::new(*x, vec![]), y, Number::Dual2),
        (Number::Dual(x), Number::F64(y)) => same_kind!(x, &Dual::new(*y, vec![]), Number::Dual),
        (Number::Dual2(x), Number::F64(y)) => same_kind!(x, &Dual2::new(*y, vec![]), Number::Dual2),
        _ => None,
    }
}

fn out_same(a: &Out, b: &Out) -> bool {
    match (a, b) {
        (Out::N(x), Out::N(y)) => num_same(x, y),
        (Out::B(x), Out::B(y)) => x == y,
        _ => false,
    }
}

fn out_json(o: &Out) -> Value {
    match o {
        Out::N(n) => nj(n),
        Out::B(b) => json!(b),
    }
}

fn number_bop(op: BOp, a: &Number, b: &Number, own: u8) -> Out {
    macro_rules! arith {
        ($o:tt) => {
            match own & 3 {
                0 => Out::N(a.clone() $o b.clone()),
                1 => Out::N(a $o b.clone()),
                2 => Out::N(a.clone() $o b),
                _ => Out::N(a $o b),
            }
        };
    }
    match op {
        BOp::Add => arith!(+),
        BOp::Sub => arith!(-),
        BOp::Mul => arith!(*),
        BOp::Div => arith!(/),
        BOp::Rem => arith!(%),
        BOp::Eq => Out::B(a == b),
        BOp::Lt => Out::B(a < b),
        BOp::Le => Out::B(a <= b),
        BOp::Gt => Out::B(a > b),
        BOp::Ge => Out::B(a >= b),
        BOp::AbsSub => Out::N(a.abs_sub(b)),
    }
}

/// the same operation executed directly on the contained values
fn contained_bop(op: BOp, a: &Number, b: &Number) -> Option<Out> {
    macro_rules! direct {
        ($x:expr, $y:expr, $wrap:expr) => {
            Some(match op {
                BOp::Add => Out::N($wrap($x + $y)),
                BOp::Sub => Out::N($wrap($x - $y)),
                BOp::Mul => Out::N($wrap($x * $y)),
                BOp::Div => Out::N($wrap($x / $y)),
                BOp::Rem => Out::N($wrap($x % $y)),
                BOp::Eq => Out::B($x == $y),
                BOp::Lt => Out::B($x < $y),
                BOp::Le => Out::B($x <= $y),
                BOp::Gt => Out::B($x > $y),
                BOp::Ge => Out::B($x >= $y),
                BOp::AbsSub => return None,
            })
        };
    }
    if let BOp::AbsSub = op {
        // abs_sub: floats are promoted to a variable-free number of the other operand's kind
        #[allow(deprecated)]
        return match (a, b) {
            (Number::F64(x), Number::F64(y)) => Some(Out::N(Number::F64(x.abs_sub(y)))),
            (Number::F64(x), Number::Dual(y)) => Some(Out::N(Number::Dual(Dual::new(*x, vec![]).abs_sub(y)))),
            (Number::F64(x), Number::Dual2(y)) => Some(Out::N(Number::Dual2(Dual2::new(*x, vec![]).abs_sub(y)))),
            (Number::Dual(x), Number::F64(y)) => Some(Out::N(Number::Dual(x.abs_sub(&Dual::new(*y, vec![]))))),
            (Number::Dual2(x), Number::F64(y)) => Some(Out::N(Number::Dual2(x.abs_sub(&Dual2::new(*y, vec![]))))),
            (Number::Dual(x), Number::Dual(y)) => Some(Out::N(Number::Dual(x.abs_sub(y)))),
            (Number::Dual2(x), Number::Dual2(y)) => Some(Out::N(Number::Dual2(x.abs_sub(y)))),
            _ => None,
        };
    }
    let r = match (a, b) {
        (Number::F64(x), Number::F64(y)) => {
            if let BOp::AbsSub = op {
                #[allow(deprecated)]
                return Some(Out::N(Number::F64(x.abs_sub(y))));
            }
            direct!(x, y, Number::F64)
        }
        (Number::F64(x), Number::Dual(y)) => direct!(x, y, Number::Dual),
        (Number::F64(x), Number::Dual2(y)) => direct!(x, y, Number::Dual2),
        (Number::Dual(x), Number::F64(y)) => direct!(x, y, Number::Dual),
        (Number::Dual2(x), Number::F64(y)) => direct!(x, y, Number::Dual2),
        (Number::Dual(x), Number::Dual(y)) => direct!(x, y, Number::Dual),
        (Number::Dual2(x), Number::Dual2(y)) => direct!(x, y, Number::Dual2),
        _ => None,
    };
    if r.is_some() {
        return r;
    }
    None
}

fn check_number_table(ctx: &mut Ctx, rng: &mut Rng) {
    // values kept in every function's domain
    let va = rng.uniform(0.05, 0.95);
    let vb = loop {
        let b = rng.sign() * rng.log_uniform(0.05, 20.0);
        let q = va / b;
        if (q - q.round()).abs() > 1e-6 {
            break b;
        }
    };
    for ka in 0..3 {
        for kb in 0..3 {
            let a = gen_num(rng, ka, va);
            let vbb = if rng.chance(0.1) { va } else { vb };
            let b = gen_num(rng, kb, vbb);
            let mixed = (ka == 1 && kb == 2) || (ka == 2 && kb == 1);
            for op in BOPS {
                let own = rng.below(4) as u8;
                ctx.crumb(&format!("Number {:?} {} {}", op, KIND[ka], KIND[kb]));
                let got = guarded(|| number_bop(op, &a, &b, own));
                ctx.eval(1);
                ctx.asserted(1);
                ctx.class(&format!("table:{:?}:{}x{}", op, KIND[ka], KIND[kb]));
                if mixed {
                    match got {
                        Caught::Ok(o) => ctx.violation(
                            &format!("C18|mixed-kinds-computed|{:?}|{}x{}", op, KIND[ka], KIND[kb]),
                            json!({"a": nj(&a), "b": nj(&b), "op": format!("{:?}", op), "returned": out_json(&o), "expected": "refusal (panic or error)"}),
                        ),
                        Caught::Panic { loc, msg } => {
                            ctx.class("refused-mixed-kinds");
                            if is_harness_location(&loc) {
                                ctx.harness_error(format!("harness panic {} {}", loc, msg));
                            }
                        }
                    }
                    continue;
                }
                let want = contained_bop(op, &a, &b);
                match (got, want) {
                    (Caught::Ok(g), Some(w)) => {
                        if let (Out::N(gn), Some(pn)) = (&g, match guarded(|| promoted_bop(op, &a, &b)) { Caught::Ok(v) => v, _ => None }) {
                            ctx.asserted(1);
                            ctx.class(&format!("promotion:{:?}:{}x{}", op, KIND[ka], KIND[kb]));
                            if !num_close(gn, &pn) {
                                ctx.violation(
                                    &format!("C18|float-operand-vs-variable-free-number|{:?}|{}x{}", op, KIND[ka], KIND[kb]),
                                    json!({"a": nj(&a), "b": nj(&b), "op": format!("{:?}", op), "ownership": own, "observed": nj(gn), "expected_with_float_as_variable_free_number": nj(&pn)}),
                                );
                            }
                        }
                        if !out_same(&g, &w) {
                            ctx.violation(
                                &format!("C18|number-op|{:?}|{}x{}", op, KIND[ka], KIND[kb]),
                                json!({"a": nj(&a), "b": nj(&b), "op": format!("{:?}", op), "ownership": own, "observed": out_json(&g), "expected_from_contained_types": out_json(&w)}),
                            );
                        }
                    }
                    (Caught::Panic { loc, msg }, _) => {
                        ctx.violation(&format!("C18|number-op-panicked|{:?}|{}x{}", op, KIND[ka], KIND[kb]), json!({"a": nj(&a), "b": nj(&b), "location": loc, "message": msg}));
                    }
                    (_, None) => ctx.harness_error("no contained operation defined".into()),
                }
            }
        }
        // Number o f64 and f64 o Number
        let a = gen_num(rng, ka, va);
        let f = vb;
        let pairs: Vec<(&str, Number, Number)> = {
            let w = |n: Number| n;
            let mut v: Vec<(&str, Number, Number)> = vec![];
            macro_rules! both {
                ($name:expr, $o:tt) => {
                    let lhs1 = w(&a $o f);
                    let lhs2 = w(&a $o &f);
                    let lhs3 = w(a.clone() $o f);
                    let rhs = match &a {
                        Number::F64(x) => Number::F64(x $o f),
                        Number::Dual(x) => Number::Dual(x $o f),
                        Number::Dual2(x) => Number::Dual2(x $o f),
                    };
                    v.push((concat!("n", $name, "f"), lhs1, rhs.clone()));
                    v.push((concat!("n", $name, "&f"), lhs2, rhs.clone()));
                    v.push((concat!("n(owned)", $name, "f"), lhs3, rhs));
                    let l1 = w(f $o &a);
                    let l2 = w(&f $o &a);
                    let l3 = w(f $o a.clone());
                    let r2 = match &a {
                        Number::F64(x) => Number::F64(f $o x),
                        Number::Dual(x) => Number::Dual(f $o x),
                        Number::Dual2(x) => Number::Dual2(f $o x),
                    };
                    v.push((concat!("f", $name, "n"), l1, r2.clone()));
                    v.push((concat!("&f", $name, "n"), l2, r2.clone()));
                    v.push((concat!("f", $name, "n(owned)"), l3, r2));
                };
            }
            both!("+", +);
            both!("-", -);
            both!("*", *);
            both!("/", /);
            both!("%", %);
            v
        };
        for (what, got, want) in pairs.iter() {
            ctx.eval(1);
            ctx.asserted(1);
            ctx.class(&format!("float-pairing:{}:{}", KIND[ka], what));
            if !num_same(got, want) {
                ctx.violation(&format!("C18|number-float-op|{}|{}", KIND[ka], what), json!({"n": nj(&a), "f": fj(f), "form": what, "observed": nj(got), "expected_from_contained_type": nj(want)}));
            }
        }
        // comparisons with floats
        let cmp: [(&str, bool, bool); 6] = match &a {
            Number::F64(x) => [("n==f", a == f, *x == f), ("n<f", a < f, *x < f), ("n>=f", a >= f, *x >= f), ("f==n", f == a, f == *x), ("f<n", f < a, f < *x), ("f>=n", f >= a, f >= *x)],
            Number::Dual(x) => [("n==f", a == f, *x == f), ("n<f", a < f, *x < f), ("n>=f", a >= f, *x >= f), ("f==n", f == a, f == *x), ("f<n", f < a, f < *x), ("f>=n", f >= a, f >= *x)],
            Number::Dual2(x) => [("n==f", a == f, *x == f), ("n<f", a < f, *x < f), ("n>=f", a >= f, *x >= f), ("f==n", f == a, f == *x), ("f<n", f < a, f < *x), ("f>=n", f >= a, f >= *x)],
        };
        for (what, got, want) in cmp.iter() {
            ctx.eval(1);
            ctx.asserted(1);
            if got != want {
                ctx.violation(&format!("C18|number-float-cmp|{}|{}", KIND[ka], what), json!({"n": nj(&a), "f": fj(f), "form": what, "observed": got, "expected": want}));
            }
        }
        // unary operations and functions
        let p = *rng.choose(&[2.0, -1.0, 0.5, 3.0, 0.0, 1.0, 1.7]);
        let un: Vec<(&str, Number, Number)> = match &a {
            Number::F64(x) => vec![
                ("neg", -&a, Number::F64(-x)),
                ("neg(owned)", -a.clone(), Number::F64(-x)),
                ("pow", (&a).pow(p), Number::F64(x.pow(p))),
                ("pow(owned)", a.clone().pow(p), Number::F64(x.pow(p))),
                ("exp", a.exp(), Number::F64(MathFuncs::exp(x))),
                ("log", a.log(), Number::F64(MathFuncs::log(x))),
                ("norm_cdf", a.norm_cdf(), Number::F64(MathFuncs::norm_cdf(x))),
                ("inv_norm_cdf", a.inv_norm_cdf(), Number::F64(MathFuncs::inv_norm_cdf(x))),
                ("abs", Signed::abs(&a), Number::F64(x.abs())),
            ],
            Number::Dual(x) => vec![
                ("neg", -&a, Number::Dual(-x)),
                ("neg(owned)", -a.clone(), Number::Dual(-x.clone())),
                ("pow", (&a).pow(p), Number::Dual(x.pow(p))),
                ("pow(owned)", a.clone().pow(p), Number::Dual(x.clone().pow(p))),
                ("exp", a.exp(), Number::Dual(x.exp())),
                ("log", a.log(), Number::Dual(x.log())),
                ("norm_cdf", a.norm_cdf(), Number::Dual(x.norm_cdf())),
                ("inv_norm_cdf", a.inv_norm_cdf(), Number::Dual(x.inv_norm_cdf())),
                ("abs", Signed::abs(&a), Number::Dual(Signed::abs(x))),
            ],
            Number::Dual2(x) => vec![
                ("neg", -&a, Number::Dual2(-x)),
                ("neg(owned)", -a.clone(), Number::Dual2(-x.clone())),
                ("pow", (&a).pow(p), Number::Dual2(x.pow(p))),
                ("pow(owned)", a.clone().pow(p), Number::Dual2(x.clone().pow(p))),
                ("exp", a.exp(), Number::Dual2(x.exp())),
                ("log", a.log(), Number::Dual2(x.log())),
                ("norm_cdf", a.norm_cdf(), Number::Dual2(x.norm_cdf())),
                ("inv_norm_cdf", a.inv_norm_cdf(), Number::Dual2(x.inv_norm_cdf())),
                ("abs", Signed::abs(&a), Number::Dual2(Signed::abs(x))),
            ],
        };
        for (what, got, want) in un.iter() {
            ctx.eval(1);
            ctx.asserted(1);
            ctx.class(&format!("unary:{}:{}", KIND[ka], what));
            if !num_same(got, want) {
                ctx.violation(&format!("C18|number-unary|{}|{}", KIND[ka], what), json!({"n": nj(&a), "op": what, "power": p, "observed": nj(got), "expected_from_contained_type": nj(want)}));
            }
        }
        // sign-sensitive operations over the whole real line, both zeros included: the container must do exactly
        // what the contained type does (value, zero sign, every derivative)
        for vz in [0.0, -0.0, -va, va, -1e-300, 1e-300, -vb.abs(), vb.abs()] {
            let z = gen_num(rng, ka, vz);
            let (su, flags): (Vec<(&str, Number, Number)>, [(bool, bool); 2]) = match &z {
                Number::F64(x) => (
                    vec![("abs", Signed::abs(&z), Number::F64(Signed::abs(x))), ("neg", -&z, Number::F64(-x)), ("signum", Signed::signum(&z), Number::F64(Signed::signum(x)))],
                    [(Signed::is_positive(&z), Signed::is_positive(x)), (Signed::is_negative(&z), Signed::is_negative(x))],
                ),
                Number::Dual(x) => (
                    vec![("abs", Signed::abs(&z), Number::Dual(Signed::abs(x))), ("neg", -&z, Number::Dual(-x)), ("signum", Signed::signum(&z), Number::Dual(Signed::signum(x)))],
                    [(Signed::is_positive(&z), Signed::is_positive(x)), (Signed::is_negative(&z), Signed::is_negative(x))],
                ),
                Number::Dual2(x) => (
                    vec![("abs", Signed::abs(&z), Number::Dual2(Signed::abs(x))), ("neg", -&z, Number::Dual2(-x)), ("signum", Signed::signum(&z), Number::Dual2(Signed::signum(x)))],
                    [(Signed::is_positive(&z), Signed::is_positive(x)), (Signed::is_negative(&z), Signed::is_negative(x))],
                ),
            };
            let region = if vz == 0.0 { if vz.is_sign_negative() { "negative-zero" } else { "positive-zero" } } else if vz < 0.0 { "negative" } else { "positive" };
            for (what, got, want) in su.iter() {
                ctx.eval(1);
                ctx.asserted(1);
                ctx.class(&format!("sign-op:{}:{}:{}", KIND[ka], what, region));
                if !num_same(got, want) {
                    ctx.violation(&format!("C18|number-unary|{}|{}|{}", KIND[ka], what, region), json!({"n": nj(&z), "op": what, "observed": nj(got), "expected_from_contained_type": nj(want)}));
                }
            }
            ctx.asserted(2);
            if flags[0].0 != flags[0].1 || flags[1].0 != flags[1].1 {
                ctx.violation(&format!("C18|number-sign-predicate|{}|{}", KIND[ka], region), json!({"n": nj(&z), "container (is_positive, is_negative)": [flags[0].0, flags[1].0], "contained": [flags[0].1, flags[1].1]}));
            }
        }
        // sum over same-kind items (with floats interleaved) equals the explicit fold
        let items: Vec<Number> = (0..rng.usize(5)).map(|_| if rng.chance(0.3) { Number::F64(rng.real()) } else { let v = rng.real(); gen_num(rng, ka, v) }).collect();
        let s: Number = items.iter().cloned().sum();
        let mut fold = Number::F64(0.0);
        for it in items.iter() {
            fold = &fold + it;
        }
        ctx.eval(1);
        ctx.asserted(1);
        ctx.class(&format!("sum:{}", KIND[ka]));
        if !num_same(&s, &fold) {
            ctx.violation(&format!("C18|number-sum|{}", KIND[ka]), json!({"items": items.iter().map(nj).collect::<Vec<_>>(), "sum": nj(&s), "fold": nj(&fold)}));
        }
    }
    // zero / one of the container
    ctx.asserted(2);
    if !num_same(&<Number as Zero>::zero(), &Number::F64(0.0)) || !num_same(&<Number as One>::one(), &Number::F64(1.0)) {
        ctx.violation("C18|number-zero-one", json!({}));
    }
    // a sum mixing first and second order must refuse as well
    let mixed_items = vec![gen_num(rng, 1, 1.5), gen_num(rng, 2, 2.5)];
    ctx.eval(1);
    ctx.asserted(1);
    match guarded(|| mixed_items.iter().cloned().sum::<Number>()) {
        Caught::Ok(o) => ctx.violation("C18|mixed-kinds-computed|Sum|DualxDual2", json!({"items": mixed_items.iter().map(nj).collect::<Vec<_>>(), "returned": nj(&o)})),
        Caught::Panic { .. } => ctx.class("refused-mixed-kinds"),
    }
}

impl Prop for C18 {
    fn id(&self) -> &'static str {
        "C18"
    }
    fn phases(&self, tier: Tier) -> Vec<PhaseSpec> {
        vec![ph("conversion-table", tier.pick(6_000, 2_000_000)), ph("number-operator-table", tier.pick(6_000, 2_000_000)), ph("python-facing methods: conversions and refusal of mixed orders", tier.pick(4_000, 300_000))]
    }
    fn exhaustive(&self, _tier: Tier) -> bool {
        false
    }
    fn required_classes(&self, _tier: Tier) -> Vec<String> {
        let mut v = vec!["from-impls".to_string(), "refused-mixed-kinds".to_string()];
        for s in KIND {
            for t in 0..3 {
                v.push(format!("set_order:{}->{}", s, t));
            }
            for u in ["neg", "pow", "exp", "log", "norm_cdf", "inv_norm_cdf", "abs"] {
                v.push(format!("unary:{}:{}", s, u));
            }
        }
        for op in BOPS {
            for a in KIND {
                for b in KIND {
                    v.push(format!("table:{:?}:{}x{}", op, a, b));
                }
            }
        }
        for k in KIND {
            for r in ["positive-zero", "negative-zero", "negative", "positive"] {
                v.push(format!("sign-op:{}:abs:{}", k, r));
            }
        }
        v.push("py:conversions".to_string());
        v.push("py:Dual:__add__".to_string());
        v.push("py:Dual2:__add__".to_string());
        v
    }
    fn min_evaluations(&self, tier: Tier) -> u64 {
        tier.pick(400_000, 20_000_000)
    }
    fn rule(&self) -> String {
        "The full table, each cell on seeded random values: 3 kinds x 3 target orders x {set_order, set_order_clone} with requested-name lists containing duplicates; all From impls (owned and borrowed) and the raising constructors new / new_from (requested names, unit sensitivity, zero Hessian, shared list); 11 binary operators (+ - * / % == < <= > >= abs_sub) x all 9 kind pairings x ownership (mixed Dual/Dual2 pairings must refuse), Number.f64 / f64.Number forms, unary neg/pow/exp/log/norm_cdf/inv_norm_cdf/abs, the sign-sensitive operations abs / neg / signum / is_positive / is_negative at negative, positive and both zero values, Sum, Zero/One. Results are compared bit-for-bit (kind, value, variable list, derivative arrays) with the same operation executed directly on the contained types. distinct_nontrivial = distinct (phase, case) draws.".into()
    }
    fn assumptions(&self) -> Vec<String> {
        vec!["the contained-type operations themselves are judged by C01/C02/C19".into(), "a panic or an Err both count as refusal for Dual x Dual2 pairings".into()]
    }
    fn run_case(&mut self, ctx: &mut Ctx, phase: usize, idx: u64, rng: &mut Rng) {
        if phase == 2 {
            super::pylayer::dual_conversions(ctx, "C18", rng);
            if idx % 2 == 0 {
                super::pylayer::dual_layer(ctx, "C18", rng);
            } else {
                super::pylayer::dual2_layer(ctx, "C18", rng);
            }
            ctx.distinct(hash_u64s(&[0x9e, idx]));
            return;
        }
        if phase == 0 {
            check_conversions(ctx, rng);
        } else {
            check_number_table(ctx, rng);
        }
        ctx.distinct(hash_u64s(&[phase as u64, idx]));
        if idx == 0 {
            ctx.sample(if phase == 0 { "conversions" } else { "number-table" }, || json!({"phase": phase, "cells": if phase == 0 { "3 kinds x 3 orders x 2 functions + 30 From checks" } else { "11 binary ops x 9 pairings + float pairings + unary + sum" }}));
        }
    }
}
