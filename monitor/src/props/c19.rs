//! C19 - ordering, sign, remainder, sums and identities are coherent with the value.

use super::adtree::ADNum;
use crate::refad::{within, Banded, Noise, RNum};
use crate::rng::Rng;
use crate::sup::{guarded, ph, Caught, Ctx, PhaseSpec, Prop, Tier};
use crate::util::{fj, hash_u64s};
use num_traits::{One, Signed, Zero};
use rateslib::dual::{Dual, Dual2, Number};
use serde_json::{json, Value};
use std::collections::BTreeSet;

pub struct C19 {}

impl C19 {
    pub fn new() -> Self {
        C19 {}
    }
}

const POOL: [&str; 4] = ["p", "q", "r", "s"];

fn special_value(r: &mut Rng) -> f64 {
    match r.below(12) {
        0 => 0.0,
        1 => -0.0,
        2 => 1.0,
        3 => -1.0,
        4 => f64::MIN_POSITIVE,
        5 => -2.5,
        _ => r.real(),
    }
}

fn gen_parts(r: &mut Rng, v: f64, order: usize) -> (f64, Vec<String>, Vec<f64>, Vec<f64>) {
    let mut names: Vec<String> = POOL.iter().map(|s| s.to_string()).collect();
    r.shuffle(&mut names);
    names.truncate(r.usize(4) + if r.chance(0.9) { 1 } else { 0 });
    names.truncate(4);
    let n = names.len();
    let g: Vec<f64> = (0..n).map(|_| if r.chance(0.15) { 0.0 } else { r.real() }).collect();
    let mut d2 = vec![0.0; n * n];
    if order == 2 {
        for i in 0..n {
            for j in i..n {
                let x = if r.chance(0.3) { 0.0 } else { r.real() };
                d2[i * n + j] = x;
                d2[j * n + i] = x;
            }
        }
    }
    (v, names, g, d2)
}

fn to_ref(v: f64, names: &[String], g: &[f64], d2: &[f64], order: usize) -> RNum {
    let n = names.len();
    let h: Vec<Vec<f64>> = (0..n).map(|i| (0..n).map(|j| 2.0 * d2[i * n + j]).collect()).collect();
    let mut r = RNum::from_parts(v, names, g, if order == 2 { Some(&h) } else { None });
    r.g.retain(|_, x| *x != 0.0);
    r.h.retain(|_, x| *x != 0.0);
    r
}

fn maps_equal_exact(a: &RNum, b: &RNum) -> bool {
    if a.v.to_bits() != b.v.to_bits() && !(a.v == b.v) {
        return false;
    }
    let names: BTreeSet<String> = a.names().union(&b.names()).cloned().collect();
    for n in names.iter() {
        if a.gd(n) != b.gd(n) {
            return false;
        }
        for m in names.iter() {
            if a.hd(n, m) != b.hd(n, m) {
                return false;
            }
        }
    }
    true
}

fn banded(f: impl Fn(&mut Noise) -> RNum, rng: &mut Rng) -> Banded {
    let mut b = Banded::new(f(&mut Noise::exact()));
    for s in 0..6 {
        b.absorb(&f(&mut Noise::noisy(rng.next() ^ s)));
    }
    b
}

fn within_band(real: &RNum, b: &Banded, second: bool) -> bool {
    let scale = b.norm_inf(second);
    if !within(real.v, b.exact.v, b.sv, scale) {
        return false;
    }
    let names: BTreeSet<String> = real.names().union(&b.exact.names()).cloned().collect();
    for n in names.iter() {
        if !within(real.gd(n), b.exact.gd(n), b.spread_g(n), scale) {
            return false;
        }
        if second {
            for m in names.iter() {
                if !within(real.hd(n, m), b.exact.hd(n, m), b.spread_h(n, m), scale) {
                    return false;
                }
            }
        }
    }
    true
}

fn num_to_rnum(n: &Number) -> Result<RNum, String> {
    match n {
        Number::F64(f) => Ok(RNum::constant(*f)),
        Number::Dual(d) => d.to_rnum(),
        Number::Dual2(d) => d.to_rnum(),
    }
}

fn num_kind(n: &Number) -> &'static str {
    match n {
        Number::F64(_) => "F64",
        Number::Dual(_) => "Dual",
        Number::Dual2(_) => "Dual2",
    }
}

fn num_json(n: &Number) -> Value {
    match n {
        Number::F64(f) => json!({"F64": fj(*f)}),
        Number::Dual(d) => json!({"Dual": d.describe()}),
        Number::Dual2(d) => json!({"Dual2": d.describe()}),
    }
}

macro_rules! per_type {
    ($fname:ident, $T:ty, $tname:expr, $order:expr, $mk:expr) => {
        fn $fname(ctx: &mut Ctx, rng: &mut Rng, idx: u64) {
            let tname = $tname;
            let order: usize = $order;
            let second = order == 2;
            let mk = $mk;
            // ---- comparisons: depend only on the values, agree with float comparison
            let va = if rng.chance(0.04) { f64::NAN } else { special_value(rng) };
            let vb = match rng.below(10) {
                0 => va, // equal values
                1 => -va,
                2 if !va.is_nan() => f64::NAN,
                _ => special_value(rng),
            };
            let pa = gen_parts(rng, va, order);
            let pb = gen_parts(rng, vb, order);
            let a: $T = mk(&pa);
            let b: $T = mk(&pb);
            ctx.crumb(&format!("{} comparisons {} vs {}", tname, va, vb));
            let cmp_class = if va.is_nan() || vb.is_nan() { "nan" } else if va == vb { "equal" } else if va < vb { "less" } else { "greater" };
            ctx.class(&format!("cmp:{}:{}", tname, cmp_class));
            let checks: [(&str, bool, bool); 12] = [
                ("a<b", a < b, va < vb),
                ("a<=b", a <= b, va <= vb),
                ("a>b", a > b, va > vb),
                ("a>=b", a >= b, va >= vb),
                ("a<f", a < vb, va < vb),
                ("a<=f", a <= vb, va <= vb),
                ("a>f", a > vb, va > vb),
                ("a>=f", a >= vb, va >= vb),
                ("f<b", va < b, va < vb),
                ("f<=b", va <= b, va <= vb),
                ("f>b", va > b, va > vb),
                ("f>=b", va >= b, va >= vb),
            ];
            ctx.eval(12);
            for (what, got, want) in checks.iter() {
                ctx.asserted(1);
                if got != want {
                    ctx.violation(&format!("C19|cmp|{}|{}|{}", tname, what, cmp_class), json!({"type": tname, "a": a.describe(), "b": b.describe(), "comparison": what, "observed": got, "expected_from_values": want}));
                }
            }
            // ---- abs
            // (the value is given exactly, so any non-zero magnitude is in the domain: one case in four takes a
            // tiny one - around and below machine epsilon, down to the smallest sub-normal)
            let tiny = rng.chance(0.25);
            let vx = if tiny {
                rng.sign() * [5e-324, 2.2250738585072014e-308, 1e-300, 1e-100, 1e-17, 5.551115123125783e-17, 1.1102230246251565e-16, 2.220446049250313e-16, 4.440892098500626e-16, 1e-12, 1e-9][rng.usize(11)]
            } else {
                loop {
                    let x = rng.real();
                    if x.abs() >= 1e-6 {
                        break x;
                    }
                }
            };
            if tiny {
                ctx.class(&format!("abs:{}:tiny-{}", tname, if vx < 0.0 { "negative" } else { "positive" }));
            }
            let px = gen_parts(rng, vx, order);
            let x: $T = mk(&px);
            let rx = to_ref(px.0, &px.1, &px.2, &px.3, order);
            let ax = Signed::abs(&x);
            ctx.eval(1);
            ctx.asserted(1);
            ctx.class(&format!("abs:{}:{}", tname, if vx < 0.0 { "negative" } else { "positive" }));
            let want = RNum::abs(&rx);
            match ax.to_rnum() {
                Ok(got) => {
                    if !maps_equal_exact(&got, &want) {
                        ctx.violation(&format!("C19|abs|{}|{}", tname, if vx < 0.0 { "negative" } else { "positive" }), json!({"type": tname, "x": x.describe(), "abs": ax.describe()}));
                    }
                }
                Err(m) => ctx.violation(&format!("C19|shape|abs|{}", tname), json!({"what": m})),
            }
            // ---- sign predicates follow the value (non-zero here): positive / negative / signum, a constant
            {
                let sg = Signed::signum(&x);
                ctx.eval(3);
                ctx.asserted(3);
                ctx.class(&format!("sign:{}:{}", tname, if vx < 0.0 { "negative" } else { "positive" }));
                let sg_ok = match sg.to_rnum() {
                    Ok(m) => m.v == vx.signum() && m.g.values().all(|d| *d == 0.0) && m.h.values().all(|d| *d == 0.0),
                    Err(_) => false,
                };
                if Signed::is_positive(&x) != (vx > 0.0) || Signed::is_negative(&x) != (vx < 0.0) || !sg_ok {
                    ctx.violation(&format!("C19|sign|{}|{}", tname, if vx < 0.0 { "negative" } else { "positive" }),
                        json!({"type": tname, "x": x.describe(), "is_positive": Signed::is_positive(&x), "is_negative": Signed::is_negative(&x), "signum": sg.describe()}));
                }
            }
            // ---- remainder, all operand forms
            let (vn, vd) = loop {
                let n = rng.sign() * rng.log_uniform(0.05, 50.0);
                let d = rng.sign() * rng.log_uniform(0.05, 20.0);
                let q = n / d;
                if (q - q.round()).abs() >= 1e-6 {
                    break (n, d);
                }
                ctx.skip("remainder at the jump");
            };
            let pn = gen_parts(rng, vn, order);
            let pd = gen_parts(rng, vd, order);
            let n_: $T = mk(&pn);
            let d_: $T = mk(&pd);
            let rn = to_ref(pn.0, &pn.1, &pn.2, &pn.3, order);
            let rd = to_ref(pd.0, &pd.1, &pd.2, &pd.3, order);
            let rem_class = format!("{}{}", if vn < 0.0 { "neg" } else { "pos" }, if vd < 0.0 { "/neg" } else { "/pos" });
            let forms: Vec<(&str, $T, Banded)> = vec![
                ("dd:own,own", n_.clone() % d_.clone(), banded(|nz| RNum::rem(&rn, &rd, nz), rng)),
                ("dd:ref,own", &n_ % d_.clone(), banded(|nz| RNum::rem(&rn, &rd, nz), rng)),
                ("dd:own,ref", n_.clone() % &d_, banded(|nz| RNum::rem(&rn, &rd, nz), rng)),
                ("dd:ref,ref", &n_ % &d_, banded(|nz| RNum::rem(&rn, &rd, nz), rng)),
                ("df:own", n_.clone() % vd, banded(|nz| RNum::rem(&rn, &RNum::constant(vd), nz), rng)),
                ("df:ref", &n_ % vd, banded(|nz| RNum::rem(&rn, &RNum::constant(vd), nz), rng)),
                ("df:ref,ref", &n_ % &vd, banded(|nz| RNum::rem(&rn, &RNum::constant(vd), nz), rng)),
                ("fd:own", vn % d_.clone(), banded(|nz| RNum::rem(&RNum::constant(vn), &rd, nz), rng)),
                ("fd:ref", vn % &d_, banded(|nz| RNum::rem(&RNum::constant(vn), &rd, nz), rng)),
                ("fd:ref,ref", &vn % &d_, banded(|nz| RNum::rem(&RNum::constant(vn), &rd, nz), rng)),
            ];
            for (form, got, band) in forms.iter() {
                ctx.eval(1);
                ctx.asserted(1);
                ctx.class(&format!("rem:{}:{}:{}", tname, form, rem_class));
                if band.ill_conditioned(second) {
                    ctx.skip("ill-conditioned");
                    continue;
                }
                match got.to_rnum() {
                    Ok(m) => {
                        if !within_band(&m, band, second) {
                            ctx.violation(&format!("C19|rem|{}|{}", tname, form), json!({"type": tname, "form": form, "a": n_.describe(), "b": d_.describe(), "a_value": fj(vn), "b_value": fj(vd), "observed": got.describe(),
                                "expected_value": fj(band.exact.v), "expected_grad": band.exact.g.iter().map(|(k, v)| (k.clone(), fj(*v))).collect::<serde_json::Map<_, _>>()}));
                        }
                    }
                    Err(m) => ctx.violation(&format!("C19|shape|rem|{}", tname), json!({"what": m})),
                }
            }
            // ---- remainder where the quotient is within a few ulps of a whole number without being one
            // (0.3 % 0.1, 5.999999999999999 % 2): the truncated quotient is still trunc(fl(a/b)); no noise band
            // here (a perturbation would cross the jump), the exact floating-point formula is the reference
            {
                let vd2 = rng.sign() * [0.1, 0.2, 0.7, 1.0 / 3.0, 2.0, 1.1][rng.usize(6)] * if rng.bool() { 1.0 } else { rng.log_uniform(0.5, 8.0) };
                let whole = rng.sign() * (1 + rng.usize(12)) as f64;
                let mut vn2 = whole * vd2;
                // a hair towards zero, so that |a/b| falls just short of |whole| (when it rounds to the whole
                // number itself the case is simply an exact multiple, also legitimate)
                for _ in 0..rng.usize(3) {
                    vn2 = if vn2 > 0.0 { super::c14::next_down(vn2) } else { super::c14::next_up(vn2) };
                }
                let q = vn2 / vd2;
                if q != q.trunc() {
                    let pn = gen_parts(rng, vn2, order);
                    let pd = gen_parts(rng, vd2, order);
                    let n_: $T = mk(&pn);
                    let d_: $T = mk(&pd);
                    let rn = to_ref(pn.0, &pn.1, &pn.2, &pn.3, order);
                    let rd = to_ref(pd.0, &pd.1, &pd.2, &pd.3, order);
                    let dq = q.trunc();
                    let forms: Vec<(&str, $T, RNum)> = vec![
                        ("dd", &n_ % &d_, RNum::rem(&rn, &rd, &mut Noise::exact())),
                        ("fd", vn2 % &d_, RNum::rem(&RNum::constant(vn2), &rd, &mut Noise::exact())),
                        ("df", &n_ % vd2, RNum::rem(&rn, &RNum::constant(vd2), &mut Noise::exact())),
                    ];
                    for (form, got, want) in forms.iter() {
                        ctx.eval(1);
                        ctx.asserted(1);
                        ctx.class(&format!("rem-near-whole-quotient:{}:{}", tname, form));
                        let ok = match got.to_rnum() {
                            Ok(m) => {
                                let vs = vn2.abs().max((dq * vd2).abs());
                                let gs = rn.g.values().chain(rd.g.values()).fold(0.0f64, |a, x| a.max(x.abs())) * (1.0 + dq.abs());
                                let hs = rn.h.values().chain(rd.h.values()).fold(0.0f64, |a, x| a.max(x.abs())) * (1.0 + dq.abs());
                                let names: BTreeSet<String> = m.names().union(&want.names()).cloned().collect();
                                (m.v - want.v).abs() <= 8.0 * f64::EPSILON * vs
                                    && names.iter().all(|a| (m.gd(a) - want.gd(a)).abs() <= 8.0 * f64::EPSILON * gs)
                                    && (!second || names.iter().all(|a| names.iter().all(|b| (m.hd(a, b) - want.hd(a, b)).abs() <= 8.0 * f64::EPSILON * hs)))
                            }
                            Err(_) => false,
                        };
                        if !ok {
                            ctx.violation(&format!("C19|rem-near-whole-quotient|{}|{}", tname, form), json!({"type": tname, "form": form, "a": n_.describe(), "b": d_.describe(), "a_value": fj(vn2), "b_value": fj(vd2),
                                "a/b in floating point": fj(q), "truncated_quotient": dq, "observed": got.describe(), "expected_value": fj(want.v)}));
                        }
                    }
                } else {
                    ctx.skip("quotient rounded to a whole number");
                }
            }
            // ---- remainder with a LARGE quotient (beyond 16- and 32-bit whole numbers, up to 1e12): the
            // truncated quotient is still trunc(fl(a/b)) - no noise band (a relative perturbation of the
            // operands crosses many jumps), the exact floating-point formula is the reference
            {
                let band = rng.usize(4);
                // the quotient is kept at least 1e-3 away from a whole number and below 1e12 (ulp 1e-4), so that
                // the rounding of a/b cannot change its truncation and the exact float `%` agrees with the formula
                let (vn2, vd2, q) = loop {
                    let qmag = match band {
                        0 => rng.log_uniform(4.0e4, 2.0e9),
                        1 => rng.log_uniform(2.2e9, 4.2e9),
                        2 => rng.log_uniform(4.3e9, 1.0e11),
                        _ => rng.log_uniform(1.0e11, 1.0e12),
                    };
                    let vd2 = rng.sign() * rng.log_uniform(1e-4, 3.0);
                    let vn2 = rng.sign() * qmag * vd2.abs();
                    let q = vn2 / vd2;
                    let fr = (q - q.trunc()).abs();
                    if fr >= 1e-3 && fr <= 1.0 - 1e-3 {
                        break (vn2, vd2, q);
                    }
                    ctx.skip("large quotient too close to a whole number");
                };
                let dq = q.trunc();
                let pn = gen_parts(rng, vn2, order);
                let pd = gen_parts(rng, vd2, order);
                let n_: $T = mk(&pn);
                let d_: $T = mk(&pd);
                let rn = to_ref(pn.0, &pn.1, &pn.2, &pn.3, order);
                let rd = to_ref(pd.0, &pd.1, &pd.2, &pd.3, order);
                let forms: Vec<(&str, $T, RNum)> = vec![
                    ("dd", &n_ % &d_, RNum::rem(&rn, &rd, &mut Noise::exact())),
                    ("fd", vn2 % &d_, RNum::rem(&RNum::constant(vn2), &rd, &mut Noise::exact())),
                    ("df", &n_ % vd2, RNum::rem(&rn, &RNum::constant(vd2), &mut Noise::exact())),
                ];
                for (form, got, want) in forms.iter() {
                    ctx.eval(1);
                    ctx.asserted(1);
                    ctx.class(&format!("rem-large-quotient:{}:{}:{}", tname, form, ["beyond-2^15", "around-2^31..2^32", "beyond-2^32", "beyond-2^36"][band]));
                    let ok = match got.to_rnum() {
                        Ok(m) => {
                            let vs = vn2.abs().max((dq * vd2).abs());
                            let gs = rn.g.values().chain(rd.g.values()).fold(0.0f64, |a, x| a.max(x.abs())) * (1.0 + dq.abs());
                            let hs = rn.h.values().chain(rd.h.values()).fold(0.0f64, |a, x| a.max(x.abs())) * (1.0 + dq.abs());
                            let names: BTreeSet<String> = m.names().union(&want.names()).cloned().collect();
                            (m.v - want.v).abs() <= 8.0 * f64::EPSILON * vs
                                && names.iter().all(|a| (m.gd(a) - want.gd(a)).abs() <= 8.0 * f64::EPSILON * gs)
                                && (!second || names.iter().all(|a| names.iter().all(|b| (m.hd(a, b) - want.hd(a, b)).abs() <= 8.0 * f64::EPSILON * hs)))
                        }
                        Err(_) => false,
                    };
                    if !ok {
                        ctx.violation(&format!("C19|rem-large-quotient|{}|{}", tname, form), json!({"type": tname, "form": form, "a": n_.describe(), "b": d_.describe(), "a_value": fj(vn2), "b_value": fj(vd2),
                            "a/b in floating point": fj(q), "truncated_quotient": dq, "observed": got.describe(), "expected_value": fj(want.v), "expected_grad": want.g.iter().map(|(k, v)| (k.clone(), fj(*v))).collect::<serde_json::Map<_, _>>()}));
                    }
                }
            }
            // ---- Iterator::sum == left fold from zero
            let k = rng.usize(6);
            let items: Vec<$T> = (0..k).map(|_| { let v = rng.real(); mk(&gen_parts(rng, v, order)) }).collect();
            let s: $T = items.iter().cloned().sum();
            let mut fold: $T = <$T as Zero>::zero();
            for it in items.iter() {
                fold = fold + it.clone();
            }
            ctx.eval(1);
            ctx.asserted(1);
            ctx.class(&format!("sum:{}:{}", tname, k));
            match (s.to_rnum(), fold.to_rnum()) {
                (Ok(x), Ok(y)) => {
                    if !maps_equal_exact(&x, &y) {
                        ctx.violation(&format!("C19|sum|{}", tname), json!({"type": tname, "items": items.iter().map(|i| i.describe()).collect::<Vec<_>>(), "sum": s.describe(), "left_fold_from_zero": fold.describe()}));
                    }
                }
                _ => ctx.violation(&format!("C19|shape|sum|{}", tname), json!({})),
            }
            // ---- identities
            let zero = <$T as Zero>::zero();
            let one = <$T as One>::one();
            let xi = x.clone();
            let id: [(&str, $T); 4] = [("x+0", &xi + &zero), ("0+x", &zero + &xi), ("x*1", &xi * &one), ("1*x", &one * &xi)];
            let want = rx.clone();
            for (what, got) in id.iter() {
                ctx.eval(1);
                ctx.asserted(2);
                ctx.class(&format!("identity:{}:{}", tname, what));
                let eq = *got == xi;
                let m = got.to_rnum();
                if !eq || m.is_err() || !maps_equal_exact(m.as_ref().unwrap(), &want) {
                    ctx.violation(&format!("C19|identity|{}|{}", tname, what), json!({"type": tname, "identity": what, "x": xi.describe(), "observed": got.describe(), "equal_by_==": eq}));
                }
            }
            // ---- is_zero
            let z_cases: Vec<(&str, $T, bool)> = {
                let mut v: Vec<(&str, $T, bool)> = vec![("zero()", <$T as Zero>::zero(), true), ("one()", <$T as One>::one(), false), ("x", xi.clone(), vx == 0.0 && px.2.iter().all(|g| *g == 0.0) && px.3.iter().all(|g| *g == 0.0))];
                let mut pz = gen_parts(rng, 0.0, order);
                let allzero = pz.2.iter().all(|g| *g == 0.0) && pz.3.iter().all(|g| *g == 0.0);
                v.push(("value-0-with-derivatives", mk(&pz), allzero));
                for g in pz.2.iter_mut() {
                    *g = 0.0;
                }
                for g in pz.3.iter_mut() {
                    *g = 0.0;
                }
                // explicit zero derivatives need a non-empty dual vector to not mean "ones"
                if !pz.1.is_empty() {
                    v.push(("value-0-zero-derivatives", mk(&pz), true));
                }
                v
            };
            for (what, z, want) in z_cases.iter() {
                ctx.eval(1);
                ctx.asserted(1);
                ctx.class(&format!("is_zero:{}:{}", tname, what));
                if z.is_zero() != *want {
                    ctx.violation(&format!("C19|is_zero|{}|{}", tname, what), json!({"type": tname, "x": z.describe(), "is_zero": z.is_zero(), "expected": want}));
                }
            }
            ctx.distinct(hash_u64s(&[$order as u64, idx]));
        }
    };
}

per_type!(run_dual, Dual, "Dual", 1, |p: &(f64, Vec<String>, Vec<f64>, Vec<f64>)| -> Dual { Dual::try_new(p.0, p.1.clone(), p.2.clone()).unwrap() });
per_type!(run_dual2, Dual2, "Dual2", 2, |p: &(f64, Vec<String>, Vec<f64>, Vec<f64>)| -> Dual2 { Dual2::try_new(p.0, p.1.clone(), p.2.clone(), p.3.clone()).unwrap() });

/// the generic container: same checks through `Number` (kinds F64, Dual, Dual2; same-kind and float pairings)
fn run_number(ctx: &mut Ctx, rng: &mut Rng, idx: u64) {
    let kind = rng.usize(3);
    let order = if kind == 2 { 2 } else { 1 };
    let mk = |rng: &mut Rng, v: f64| -> (Number, RNum) {
        match kind {
            0 => (Number::F64(v), RNum::constant(v)),
            1 => {
                let p = gen_parts(rng, v, 1);
                (Number::Dual(Dual::try_new(p.0, p.1.clone(), p.2.clone()).unwrap()), to_ref(p.0, &p.1, &p.2, &p.3, 1))
            }
            _ => {
                let p = gen_parts(rng, v, 2);
                (Number::Dual2(Dual2::try_new(p.0, p.1.clone(), p.2.clone(), p.3.clone()).unwrap()), to_ref(p.0, &p.1, &p.2, &p.3, 2))
            }
        }
    };
    let kname = ["F64", "Dual", "Dual2"][kind];
    let va = special_value(rng);
    let vb = if rng.chance(0.15) { va } else { special_value(rng) };
    let (a, _) = mk(rng, va);
    // pair with the same kind or with a plain float container
    let (b, _) = if rng.bool() { mk(rng, vb) } else { (Number::F64(vb), RNum::constant(vb)) };
    ctx.crumb(&format!("Number<{}> comparisons", kname));
    let checks: [(&str, bool, bool); 12] = [
        ("a<b", a < b, va < vb),
        ("a<=b", a <= b, va <= vb),
        ("a>b", a > b, va > vb),
        ("a>=b", a >= b, va >= vb),
        ("a<f", a < vb, va < vb),
        ("a<=f", a <= vb, va <= vb),
        ("a>f", a > vb, va > vb),
        ("a>=f", a >= vb, va >= vb),
        ("f<b", va < b, va < vb),
        ("f<=b", va <= b, va <= vb),
        ("f>b", va > b, va > vb),
        ("f>=b", va >= b, va >= vb),
    ];
    ctx.eval(12);
    ctx.class(&format!("cmp:Number<{}>:{}", kname, num_kind(&b)));
    for (what, got, want) in checks.iter() {
        ctx.asserted(1);
        if got != want {
            ctx.violation(&format!("C19|cmp|Number<{}>|{}", kname, what), json!({"a": num_json(&a), "b": num_json(&b), "comparison": what, "observed": got, "expected_from_values": want}));
        }
    }
    // abs
    let vx = if rng.chance(0.25) {
        rng.sign() * [5e-324, 1e-300, 1e-17, 5.551115123125783e-17, 2.220446049250313e-16, 1e-12][rng.usize(6)]
    } else {
        loop {
            let x = rng.real();
            if x.abs() >= 1e-6 {
                break x;
            }
        }
    };
    let (x, rx) = mk(rng, vx);
    let ax = Signed::abs(&x);
    ctx.eval(1);
    ctx.asserted(1);
    ctx.class(&format!("abs:Number<{}>:{}", kname, if vx < 0.0 { "negative" } else { "positive" }));
    match num_to_rnum(&ax) {
        Ok(m) if num_kind(&ax) == kname && maps_equal_exact(&m, &RNum::abs(&rx)) => {}
        _ => ctx.violation(&format!("C19|abs|Number<{}>", kname), json!({"x": num_json(&x), "abs": num_json(&ax)})),
    }
    {
        let sg = Signed::signum(&x);
        ctx.eval(3);
        ctx.asserted(3);
        ctx.class(&format!("sign:Number<{}>:{}", kname, if vx < 0.0 { "negative" } else { "positive" }));
        let sg_ok = match num_to_rnum(&sg) {
            Ok(m) => num_kind(&sg) == kname && m.v == vx.signum() && m.g.values().all(|d| *d == 0.0) && m.h.values().all(|d| *d == 0.0),
            Err(_) => false,
        };
        if Signed::is_positive(&x) != (vx > 0.0) || Signed::is_negative(&x) != (vx < 0.0) || !sg_ok {
            ctx.violation(&format!("C19|sign|Number<{}>", kname), json!({"x": num_json(&x), "is_positive": Signed::is_positive(&x), "is_negative": Signed::is_negative(&x), "signum": num_json(&sg)}));
        }
    }
    // remainder
    let (vn, vd) = loop {
        let n = rng.sign() * rng.log_uniform(0.05, 50.0);
        let d = rng.sign() * rng.log_uniform(0.05, 20.0);
        let q = n / d;
        if (q - q.round()).abs() >= 1e-6 {
            break (n, d);
        }
    };
    let (n_, rn) = mk(rng, vn);
    let (d_, rd) = mk(rng, vd);
    let second = order == 2;
    let forms: Vec<(&str, Number, Banded)> = vec![
        ("nn", &n_ % &d_, banded(|nz| RNum::rem(&rn, &rd, nz), rng)),
        ("nf", &n_ % vd, banded(|nz| RNum::rem(&rn, &RNum::constant(vd), nz), rng)),
        ("fn", vn % &d_, banded(|nz| RNum::rem(&RNum::constant(vn), &rd, nz), rng)),
    ];
    for (form, got, band) in forms.iter() {
        ctx.eval(1);
        ctx.asserted(1);
        ctx.class(&format!("rem:Number<{}>:{}", kname, form));
        if band.ill_conditioned(second) {
            ctx.skip("ill-conditioned");
            continue;
        }
        match num_to_rnum(got) {
            Ok(m) if within_band(&m, band, second) => {}
            _ => ctx.violation(&format!("C19|rem|Number<{}>|{}", kname, form), json!({"a": num_json(&n_), "b": num_json(&d_), "a_value": fj(vn), "b_value": fj(vd), "observed": num_json(got), "expected_value": fj(band.exact.v)})),
        }
    }
    // sum == left fold from Number::zero (an F64 zero)
    let k = rng.usize(5);
    let items: Vec<Number> = (0..k).map(|_| { let v = rng.real(); mk(rng, v).0 }).collect();
    let s: Number = items.iter().cloned().sum();
    let mut fold = <Number as Zero>::zero();
    for it in items.iter() {
        fold = fold + it.clone();
    }
    ctx.eval(1);
    ctx.asserted(1);
    ctx.class(&format!("sum:Number<{}>:{}", kname, k));
    match (num_to_rnum(&s), num_to_rnum(&fold)) {
        (Ok(x), Ok(y)) if maps_equal_exact(&x, &y) && num_kind(&s) == num_kind(&fold) => {}
        _ => ctx.violation(&format!("C19|sum|Number<{}>", kname), json!({"items": items.iter().map(num_json).collect::<Vec<_>>(), "sum": num_json(&s), "fold": num_json(&fold)})),
    }
    // identities with the container's zero and one
    let zero = <Number as Zero>::zero();
    let one = <Number as One>::one();
    let id: [(&str, Number); 4] = [("x+0", &x + &zero), ("0+x", &zero + &x), ("x*1", &x * &one), ("1*x", &one * &x)];
    for (what, got) in id.iter() {
        ctx.eval(1);
        ctx.asserted(1);
        ctx.class(&format!("identity:Number<{}>:{}", kname, what));
        let eq = match guarded(|| *got == x) {
            Caught::Ok(b) => b,
            Caught::Panic { .. } => false,
        };
        match num_to_rnum(got) {
            Ok(m) if eq && maps_equal_exact(&m, &rx) && num_kind(got) == kname => {}
            _ => ctx.violation(&format!("C19|identity|Number<{}>|{}", kname, what), json!({"x": num_json(&x), "observed": num_json(got), "identity": what})),
        }
    }
    ctx.asserted(1);
    if !zero.is_zero() || one.is_zero() || x.is_zero() {
        ctx.violation(&format!("C19|is_zero|Number<{}>", kname), json!({"x": num_json(&x)}));
    }
    ctx.distinct(hash_u64s(&[3, kind as u64, idx]));
}

impl Prop for C19 {
    fn id(&self) -> &'static str {
        "C19"
    }
    fn phases(&self, tier: Tier) -> Vec<PhaseSpec> {
        let n = tier.pick(30_000, 1_500_000);
        vec![ph("Dual", n), ph("Dual2", n), ph("Number", n), ph("python-facing comparisons, abs and arithmetic methods", tier.pick(6_000, 300_000))]
    }
    fn required_classes(&self, _tier: Tier) -> Vec<String> {
        let mut v = vec![];
        for t in ["Dual", "Dual2"] {
            for c in ["nan", "equal", "less", "greater"] {
                v.push(format!("cmp:{}:{}", t, c));
            }
            v.push(format!("abs:{}:negative", t));
            v.push(format!("sign:{}:negative", t));
            v.push(format!("sign:{}:positive", t));
            v.push(format!("abs:{}:positive", t));
            v.push(format!("abs:{}:tiny-positive", t));
            v.push(format!("abs:{}:tiny-negative", t));
            for f in ["dd:own,own", "dd:ref,ref", "df:own", "fd:own", "fd:ref"] {
                for s in ["pos/pos", "pos/neg", "neg/pos", "neg/neg"] {
                    v.push(format!("rem:{}:{}:{}", t, f, s));
                }
            }
            v.push(format!("sum:{}:0", t));
            v.push(format!("sum:{}:5", t));
            v.push(format!("is_zero:{}:value-0-zero-derivatives", t));
        }
        for k in ["F64", "Dual", "Dual2"] {
            v.push(format!("abs:Number<{}>:negative", k));
            v.push(format!("sign:Number<{}>:negative", k));
            v.push(format!("rem:Number<{}>:fn", k));
        }
        for t in ["Dual", "Dual2"] {
            for f in ["dd", "fd", "df"] {
                v.push(format!("rem-near-whole-quotient:{}:{}", t, f));
                for b in ["beyond-2^15", "around-2^31..2^32", "beyond-2^32", "beyond-2^36"] {
                    v.push(format!("rem-large-quotient:{}:{}:{}", t, f, b));
                }
            }
        }
        for t in ["Dual", "Dual2"] {
            for m in ["__eq__:equal-value", "__lt__:other-value", "__le__:equal-value", "__gt__:other-value", "__ge__:equal-value", "__abs__", "__neg__"] {
                v.push(format!("py:{}:{}", t, m));
            }
        }
        v
    }
    fn min_evaluations(&self, tier: Tier) -> u64 {
        tier.pick(1_000_000, 50_000_000)
    }
    fn rule(&self) -> String {
        "Seeded random and boundary pairs (negative values, negative divisors, equal values, +-0, NaN for comparisons only) on Dual, Dual2 and the Number container: 12 comparison forms per pair against the float comparison; abs against sign-flip of value and all derivatives (exact); is_positive / is_negative / signum against the sign of the (non-zero) value, signum carrying no derivative; a % b in 10 operand/ownership forms against a - b*trunc(a/b) in reference AD (noise band); the same with a quotient a few ulps short of a whole number (0.3 % 0.1) against the exact floating-point formula, and with large quotients (beyond 2^15, around 2^31..2^32, beyond 2^32 and 2^36, at least 1e-3 away from a whole number) likewise; Iterator::sum against the explicit left fold from zero (exact); x+0, 0+x, x*1, 1*x against x (exact, and by ==); is_zero. distinct_nontrivial = one per generated case (each has fresh random values and variable lists).".into()
    }
    fn assumptions(&self) -> Vec<String> {
        vec!["remainder cases with a/b within 1e-6 of an integer are regenerated (outside the formula's domain)".into(), "abs is asserted at exactly given values of any non-zero magnitude (down to the smallest sub-normal); never at zero".into()]
    }
    fn run_case(&mut self, ctx: &mut Ctx, phase: usize, idx: u64, rng: &mut Rng) {
        match phase {
            3 => {
                if idx % 2 == 0 {
                    super::pylayer::dual_layer(ctx, "C19", rng);
                } else {
                    super::pylayer::dual2_layer(ctx, "C19", rng);
                }
                ctx.distinct(crate::util::hash_u64s(&[0x9e, idx]));
            }
            0 => run_dual(ctx, rng, idx),
            1 => run_dual2(ctx, rng, idx),
            _ => run_number(ctx, rng, idx),
        }
        if idx < 3 {
            ctx.sample(["Dual", "Dual2", "Number", "python-layer"][phase], || json!({"checks": ["12 comparison forms", "abs", "10 remainder forms", "sum vs fold", "4 identities", "is_zero"], "phase": phase, "idx": idx}));
        }
    }
}
