//! C20 - fallible entry points return errors, never abort; date arithmetic is total.
//!
//! Everything runs in worker processes with a breadcrumb written before each call, so that an
//! abort (double panic, stack overflow) is observed by the supervisor together with its input.

use super::adtree::ADNum;
use super::c04::{mod_name, MODS};
use super::objgen::*;
use crate::calmodel::*;
use crate::rng::Rng;
use crate::sup::{guarded, is_harness_location, ph, short_loc, Caught, Ctx, PhaseSpec, Prop, Tier};
use crate::util::hash_u64s;
use crate::with_cal;
use rateslib::calendars::{get_calendar_by_name, get_roll, Cal, CalType, DateRoll, NamedCal, RollDay, UnionCal};
use rateslib::dual::{ADOrder, Dual, Dual2, Gradient1, Gradient2, Number, Vars};
use rateslib::fx::rates::{Ccy, FXPair, FXRate, FXRates};
use rateslib::splines::PPSpline;
use rateslib::verif::{VerifCurve, VerifObj};
use serde_json::{json, Map, Value};

pub struct C20 {}

impl C20 {
    pub fn new() -> Self {
        C20 {}
    }
}

/// turn the outcome of a guarded call into a violation if it panicked in rateslib
fn no_panic<T>(ctx: &mut Ctx, what: &str, r: Caught<T>, input: impl FnOnce() -> Value) -> Option<T> {
    ctx.eval(1);
    ctx.asserted(1);
    match r {
        Caught::Ok(v) => Some(v),
        Caught::Panic { loc, msg } => {
            if is_harness_location(&loc) {
                ctx.harness_error(format!("{} {} ({})", loc, msg, what));
            } else {
                ctx.violation(&format!("C20|panic|{}|{}", what, short_loc(&loc)), json!({"entry_point": what, "input": input(), "location": loc, "message": msg}));
            }
            None
        }
    }
}

fn dual_shape(d: &Dual) -> Option<String> {
    if d.vars().len() != d.dual().len() {
        return Some(format!("vars/dual length mismatch: vars has {} names but dual has {} entries", d.vars().len(), d.dual().len()));
    }
    None
}

fn dual2_shape(d: &Dual2) -> Option<String> {
    let n = d.vars().len();
    if n != d.dual().len() {
        return Some(format!("vars/dual length mismatch: vars has {} names but dual has {} entries", n, d.dual().len()));
    }
    if d.dual2().dim() != (n, n) {
        return Some(format!("dual2 shape mismatch: vars has {} names but dual2 is {:?}", n, d.dual2().dim()));
    }
    None
}

fn number_shape(n: &Number) -> Option<String> {
    match n {
        Number::F64(_) => None,
        Number::Dual(d) => dual_shape(d),
        Number::Dual2(d) => dual2_shape(d),
    }
}

fn fx_shape(fx: &FXRates) -> Option<String> {
    let cur = rateslib::verif::fxrates_currencies(fx);
    let quotes = rateslib::verif::fxrates_quotes(fx);
    if cur.len() != quotes.len() + 1 {
        return Some(format!("currency count: {} currencies for {} quotes", cur.len(), quotes.len()));
    }
    for c in cur.iter() {
        if c.len() != 3 || *c != c.to_lowercase() {
            return Some(format!("currency code not 3 lower-case bytes: {:?}", c));
        }
    }
    for (p, r, _) in quotes.iter() {
        if p.len() == 6 && p.get(..3).is_some() && p.get(..3) == p.get(3..) {
            return Some(format!("pair with equal currencies: {}", p));
        }
        if let Some(s) = number_shape(r) {
            return Some(format!("quote {}", s.replacen(": ", &format!(": ({}) ", p), 1)));
        }
    }
    let (a, b) = rateslib::verif::fxrates_array_dim(fx);
    if a != cur.len() || b != cur.len() {
        return Some(format!("matrix dimension: {}x{} for {} currencies", a, b, cur.len()));
    }
    let ccys: Vec<Ccy> = match cur.iter().map(|c| Ccy::try_new(c).ok()).collect::<Option<Vec<_>>>() {
        Some(c) => c,
        None => return Some("stored currency rejected by Ccy::try_new: one of the stored codes".into()),
    };
    for x in ccys.iter() {
        for y in ccys.iter() {
            match fx.rate(x, y) {
                None => return Some("cross rate missing: rate() returned None".into()),
                Some(n) => {
                    if let Some(s) = number_shape(&n) {
                        return Some(format!("rate {}", s));
                    }
                }
            }
        }
    }
    None
}

fn named_shape(c: &NamedCal, r: &mut Rng) -> Option<String> {
    let name = rateslib::verif::named_cal_name(c);
    let fresh = match NamedCal::try_new(&name) {
        Ok(f) => f,
        Err(_) => return Some(format!("stored name not a valid calendar name: {:?}", name)),
    };
    for _ in 0..200 {
        let dt = to_ndt(Z_1970 + r.below(84371) as i64);
        if c.is_bus_day(&dt) != fresh.is_bus_day(&dt) || c.is_settlement(&dt) != fresh.is_settlement(&dt) {
            return Some(format!("does not behave as the named union: {:?}", name));
        }
    }
    None
}

fn spline_shape<T>(s: &PPSpline<T>) -> Option<String> {
    let (k, n, t) = (*s.k(), *s.n(), s.t());
    if t.len() < k || n != t.len() - k {
        return Some(format!("n != len(t) - k: n = {} but len(t) - k = {} - {}", n, t.len(), k));
    }
    if t.windows(2).any(|w| !(w[0] <= w[1])) {
        return Some("knot sequence decreasing: t is not non-decreasing".into());
    }
    if let Some(c) = s.c() {
        if c.len() != n {
            return Some(format!("coefficient count: {} coefficients for n = {}", c.len(), n));
        }
    }
    None
}

fn caltype_ok(c: &CalType, r: &mut Rng) -> Option<String> {
    match c {
        CalType::NamedCal(n) => named_shape(n, r),
        _ => None,
    }
}

// ------------------------------------------------------------------ (a) constructors

fn ccy_code(r: &mut Rng) -> String {
    match r.below(12) {
        0 => String::new(),
        1 => "us".into(),
        2 => "usdx".into(),
        3 => "\u{20ac}".into(), // one character, three bytes
        4 => "U\u{00e9}".into(),
        5 => "USD".into(),
        6 => "uSd".into(),
        7 => "\u{0130}a".into(), // lower-casing changes the byte length
        8 => (0..r.usize(9)).map(|_| (b'a' + r.below(26) as u8) as char).collect(),
        9 => "a b".into(),
        _ => super::fxgen::CCYS[r.usize(14)].to_string(),
    }
}

fn constructors(ctx: &mut Ctx, r: &mut Rng) {
    // Dual / Dual2 with mismatching lengths, duplicate names, empty lists
    let nv = r.usize(5);
    let mut vars: Vec<String> = (0..nv).map(|i| format!("v{}", if r.chance(0.3) { 0 } else { i })).collect();
    if r.chance(0.2) {
        vars = gen_names(r, nv);
    }
    let uniq = {
        let mut u: Vec<&String> = vec![];
        for v in vars.iter() {
            if !u.contains(&v) {
                u.push(v);
            }
        }
        u.len()
    };
    let nd = match r.below(4) {
        0 => 0,
        1 => uniq,
        2 => vars.len(),
        _ => r.usize(7),
    };
    let dual: Vec<f64> = (0..nd).map(|_| hostile_f64(r)).collect();
    let nd2 = match r.below(5) {
        0 => 0,
        1 => uniq * uniq,
        2 => vars.len() * vars.len(),
        3 => uniq,
        _ => r.usize(12),
    };
    let dual2: Vec<f64> = (0..nd2).map(|_| hostile_f64(r)).collect();
    let real = hostile_f64(r);
    ctx.crumb(&format!("Dual::try_new vars={:?} nd={} nd2={}", vars, nd, nd2));
    let input = || json!({"real": format!("{:e}", real), "vars": vars, "dual_len": nd, "dual2_len": nd2});
    if let Some(res) = no_panic(ctx, "Dual::try_new", guarded(|| Dual::try_new(real, vars.clone(), dual.clone()).ok()), input) {
        let should_ok = nd == 0 || nd == uniq;
        ctx.class(if res.is_some() { "Dual::try_new:ok" } else { "Dual::try_new:err" });
        match &res {
            Some(d) => {
                if let Some(s) = dual_shape(d) {
                    ctx.violation("C20|invariant|Dual::try_new", json!({"input": input(), "what": s}));
                }
                if !should_ok {
                    ctx.violation("C20|accepted-invalid|Dual::try_new", json!({"input": input()}));
                }
            }
            None => {
                if should_ok {
                    ctx.violation("C20|rejected-valid|Dual::try_new", json!({"input": input()}));
                }
            }
        }
        if let Some(base) = res {
            // try_new_from on another number's variable list
            let ov: Vec<String> = (0..r.usize(4)).map(|i| format!("v{}", i + 1)).collect();
            let od: Vec<f64> = if r.bool() { vec![] } else { (0..r.usize(5)).map(|_| hostile_f64(r)).collect() };
            if let Some(Some(d)) = no_panic(ctx, "Dual::try_new_from", guarded(|| Dual::try_new_from(&base, 1.5, ov.clone(), od.clone()).ok()), || json!({"vars": ov, "dual_len": od.len()})) {
                if let Some(s) = dual_shape(&d) {
                    ctx.violation("C20|invariant|Dual::try_new_from", json!({"what": s}));
                }
            }
        }
    }
    if let Some(res) = no_panic(ctx, "Dual2::try_new", guarded(|| Dual2::try_new(real, vars.clone(), dual.clone(), dual2.clone()).ok()), input) {
        let should_ok = (nd == 0 || nd == uniq) && (nd2 == 0 || nd2 == uniq * uniq);
        ctx.class(if res.is_some() { "Dual2::try_new:ok" } else { "Dual2::try_new:err" });
        match &res {
            Some(d) => {
                if let Some(s) = dual2_shape(d) {
                    ctx.violation("C20|invariant|Dual2::try_new", json!({"input": input(), "what": s}));
                }
                if !should_ok {
                    ctx.violation("C20|accepted-invalid|Dual2::try_new", json!({"input": input()}));
                }
            }
            None => {
                if should_ok {
                    ctx.violation("C20|rejected-valid|Dual2::try_new", json!({"input": input()}));
                }
            }
        }
        if let Some(base) = res {
            let ov: Vec<String> = (0..r.usize(4)).map(|i| format!("v{}", i + 1)).collect();
            // mismatching derivative lengths go through the same fallible path
            let bad_len = r.usize(4);
            if let Some(res) = no_panic(ctx, "Dual2::try_new_from(bad lengths)", guarded(|| Dual2::try_new_from(&base, 1.5, ov.clone(), vec![0.5; bad_len], vec![0.25; r.usize(6)]).ok()), || json!({"vars": ov, "dual_len": bad_len})) {
                if let Some(d) = res {
                    if let Some(s) = dual2_shape(&d) {
                        ctx.violation("C20|invariant|Dual2::try_new_from", json!({"what": s}));
                    }
                }
            }
            if let Some(Some(d)) = no_panic(ctx, "Dual2::try_new_from", guarded(|| Dual2::try_new_from(&base, 1.5, ov.clone(), vec![], vec![]).ok()), || json!({"vars": ov})) {
                if let Some(s) = dual2_shape(&d) {
                    ctx.violation("C20|invariant|Dual2::try_new_from", json!({"what": s}));
                }
            }
        }
    }
    // currency codes, pairs, rates
    let (a, b) = (ccy_code(r), ccy_code(r));
    ctx.crumb(&format!("Ccy/FXPair/FXRate {:?} {:?}", a, b));
    if let Some(res) = no_panic(ctx, "Ccy::try_new", guarded(|| Ccy::try_new(&a).ok()), || json!({"name": a})) {
        ctx.class(if res.is_some() { "Ccy::try_new:ok" } else { "Ccy::try_new:err" });
        if let Some(c) = res {
            let n = rateslib::verif::ccy_name(&c);
            if n.len() != 3 || n != n.to_lowercase() {
                ctx.violation("C20|invariant|Ccy::try_new", json!({"name": a, "stored": n}));
            }
        }
    }
    if let Some(res) = no_panic(ctx, "FXPair::try_new", guarded(|| FXPair::try_new(&a, &b).ok()), || json!({"lhs": a, "rhs": b})) {
        ctx.class(if res.is_some() { "FXPair::try_new:ok" } else { "FXPair::try_new:err" });
        if let Some(p) = res {
            let s = format!("{}", p);
            if s.len() != 6 || s.get(..3).is_none() || s.get(..3) == s.get(3..) {
                ctx.violation("C20|invariant|FXPair::try_new", json!({"lhs": a, "rhs": b, "pair": s}));
            }
        }
    }
    let _ = no_panic(ctx, "FXRate::try_new", guarded(|| FXRate::try_new(&a, &b, Number::F64(hostile_f64(r)), None).is_ok()), || json!({"lhs": a, "rhs": b}));
    // random quote multigraphs
    let n = 2 + r.usize(6);
    let nq = r.usize(9);
    let mut m = super::fxgen::Market { ccys: super::fxgen::CCYS[..n].iter().map(|s| s.to_string()).collect(), quotes: vec![], base: if r.bool() { Some(r.usize(n)) } else { None } };
    for k in 0..nq {
        let (x, mut y) = (r.usize(n), r.usize(n));
        if x == y {
            y = (y + 1) % n;
        }
        let val = match r.below(6) {
            0 => super::fxgen::QuoteVal::F(0.0),
            1 => super::fxgen::QuoteVal::F(-1.5),
            2 => super::fxgen::QuoteVal::F(hostile_f64(r)),
            _ => super::fxgen::gen_quote_val(r, 0.3, k),
        };
        m.quotes.push(super::fxgen::Quote { lhs: x, rhs: y, val, settlement: if r.chance(0.2) { Some(20000 + r.range_i(0, 3)) } else { None } });
    }
    ctx.crumb(&format!("FXRates::try_new {}", m.describe()));
    let valid = m.is_valid();
    if let Some(Ok(res)) = no_panic(ctx, "FXRates::try_new", guarded(|| m.build()), || m.describe()) {
        let _ = rateslib::verif::fx_take_trace();
        ctx.class(if res.is_ok() { "FXRates::try_new:ok" } else { "FXRates::try_new:err" });
        match res {
            Ok(mut fx) => {
                if let Some(s) = fx_shape(&fx) {
                    ctx.violation("C20|invariant|FXRates::try_new", json!({"input": m.describe(), "what": s}));
                }
                if !valid {
                    ctx.violation("C20|accepted-invalid|FXRates::try_new", json!({"input": m.describe()}));
                }
                // the market's other fallible entry points: update with ANY pairs / values, order switches
                let mut oplog: Vec<Value> = vec![];
                for step in 0..r.usize(5) {
                    if r.chance(0.75) {
                        let np = r.usize(4);
                        let mut ups = vec![];
                        let mut dsc = vec![];
                        for k in 0..np {
                            let q = &m.quotes[r.usize(m.quotes.len())];
                            let (l, rr, pcls): (String, String, &str) = match r.below(5) {
                                0 | 1 => (m.ccys[q.lhs].clone(), m.ccys[q.rhs].clone(), "quoted"),
                                2 => (m.ccys[q.rhs].clone(), m.ccys[q.lhs].clone(), "inverted-quote"),
                                3 => {
                                    let x = r.usize(n);
                                    let y = (x + 1 + r.usize(n - 1)) % n;
                                    (m.ccys[x].clone(), m.ccys[y].clone(), "member-currencies")
                                }
                                _ => {
                                    let f = super::fxgen::CCYS[n + r.usize(super::fxgen::CCYS.len() - n)].to_string();
                                    if r.bool() { (f, m.ccys[r.usize(n)].clone(), "foreign-currency") } else { (m.ccys[r.usize(n)].clone(), f, "foreign-currency") }
                                }
                            };
                            let val = match r.below(6) {
                                0 => super::fxgen::QuoteVal::F(0.0),
                                1 => super::fxgen::QuoteVal::F(-1.5),
                                2 => super::fxgen::QuoteVal::F(hostile_f64(r)),
                                _ => super::fxgen::gen_quote_val(r, 0.3, 50 + k),
                            };
                            let settle = match r.below(4) {
                                0 => None,
                                1 => Some(20000 + r.range_i(0, 3)),
                                _ => q.settlement,
                            };
                            if let Ok(x) = FXRate::try_new(&l, &rr, val.number(), settle.map(crate::calmodel::to_ndt)) {
                                ctx.class(&format!("update-pair:{}", pcls));
                                dsc.push(json!({"pair": format!("{}{}", l, rr), "kind": pcls, "value": format!("{:?}", val), "settlement": settle}));
                                ups.push(x);
                            }
                        }
                        if ups.is_empty() {
                            ctx.class("update-pair:empty-list");
                        }
                        oplog.push(json!({"step": step, "update": dsc}));
                        ctx.crumb(&format!("FXRates::update {:?}", oplog));
                        match no_panic(ctx, "FXRates::update", guarded(|| fx.update(ups).is_ok()), || json!({"market": m.describe(), "operations": oplog})) {
                            Some(ok) => ctx.class(if ok { "FXRates::update:ok" } else { "FXRates::update:err" }),
                            None => return,
                        }
                    } else {
                        let o = r.usize(3);
                        oplog.push(json!({"step": step, "set_ad_order": o}));
                        if no_panic(ctx, "FXRates::set_ad_order", guarded(|| fx.set_ad_order([ADOrder::Zero, ADOrder::One, ADOrder::Two][o]).is_ok()), || json!({"market": m.describe(), "operations": oplog})).is_none() {
                            return;
                        }
                    }
                    let _ = rateslib::verif::fx_take_trace();
                    if let Some(s) = fx_shape(&fx) {
                        ctx.violation("C20|invariant|FXRates::update", json!({"market": m.describe(), "operations": oplog, "what": s}));
                        return;
                    }
                }
            }
            Err(()) => {
                if valid {
                    ctx.violation("C20|rejected-valid|FXRates::try_new", json!({"input": m.describe()}));
                }
            }
        }
    }
    // calendar strings over {names, ',', '|', spaces, garbage}
    let toks = ["tgt", "ldn", "nyc", "fed", "all", "bus", "xyz", "", " ", "TGT", "t gt", ",", "|", "\u{00e9}", "nyc ", "tyo", "mum"];
    let mut s = String::new();
    for _ in 0..r.usize(7) {
        s.push_str(toks[r.usize(toks.len())]);
        if r.chance(0.5) {
            s.push(if r.chance(0.7) { ',' } else { '|' });
        }
    }
    ctx.crumb(&format!("NamedCal::try_new {:?}", s));
    if let Some(res) = no_panic(ctx, "NamedCal::try_new", guarded(|| NamedCal::try_new(&s).ok()), || json!({"name": s})) {
        ctx.class(if res.is_some() { "NamedCal::try_new:ok" } else { "NamedCal::try_new:err" });
        if let Some(c) = res {
            if let Some(w) = named_shape(&c, r) {
                ctx.violation("C20|invariant|NamedCal::try_new", json!({"name": s, "what": w}));
            }
        }
    }
    let _ = no_panic(ctx, "get_calendar_by_name", guarded(|| get_calendar_by_name(&s).is_ok()), || json!({"name": s}));
    let _ = no_panic(ctx, "get_roll(Unspecified)", guarded(|| get_roll(2000 + r.range_i(0, 100) as i32, 1 + r.below(12) as u32, &RollDay::Unspecified {}).is_err()), || json!({}));
    // the Python-facing constructors (Dual.vars_from / Dual2.vars_from, to_dual / to_dual2) with consistent and
    // inconsistent array lengths: the core's answer or the core's refusal, never an abort
    if r.chance(0.3) {
        super::pylayer::dual_conversions(ctx, "C20", r);
    }
}

// ------------------------------------------------------------------ (b) date arithmetic is total

fn date_arithmetic<C: DateRoll>(ctx: &mut Ctx, cal: &C, spec: &CalSpec, starts: &[i64], r: &mut Rng) {
    let sd = spec.describe();
    let mut seen: std::collections::HashSet<String> = Default::default();
    for &z in starts {
        let dt = to_ndt(z);
        for n in -128i64..=127 {
            for settlement in [false, true] {
                let m = MODS[r.usize(5)];
                let calls: [(&str, Caught<()>); 3] = [
                    ("add_bus_days", guarded(|| { let _ = cal.add_bus_days(&dt, n as i8, settlement); })),
                    ("lag", guarded(|| { let _ = cal.lag(&dt, n as i8, settlement); })),
                    ("add_days", guarded(|| { let _ = cal.add_days(&dt, n as i8, &m, settlement); })),
                ];
                for (what, res) in calls {
                    ctx.eval(1);
                    ctx.asserted(1);
                    if let Caught::Panic { loc, msg } = res {
                        if is_harness_location(&loc) {
                            ctx.harness_error(format!("{} {}", loc, msg));
                            return;
                        }
                        let ncls = if n == -128 { "n=-128".to_string() } else if n == 127 { "n=127".to_string() } else { "other-n".to_string() };
                        let sig = format!("C20|panic|{}|{}|{}", what, ncls, short_loc(&loc));
                        if seen.insert(sig.clone()) {
                            ctx.violation(&sig, json!({"entry_point": what, "calendar": sd, "date": fmt_z(z), "days": n, "settlement": settlement, "modifier": mod_name(&m), "location": loc, "message": msg}));
                        }
                    }
                }
            }
        }
        ctx.class("sweep:all-256-day-counts");
        // roll and add_months for offsets landing in 1970-2200 x roll days 1-31 x all RollDay / Modifier values
        for _ in 0..200 {
            let m = MODS[r.usize(5)];
            let settlement = r.bool();
            let roll = match r.below(5) {
                0 => RollDay::Unspecified {},
                1 => RollDay::EoM {},
                2 => RollDay::SoM {},
                3 => RollDay::IMM {},
                _ => RollDay::Int { day: 1 + r.below(31) as u32 },
            };
            let (y, mo, _) = civil_from_days(z);
            let total = y * 12 + mo - 1;
            let lo = 1970 * 12 - total + 1;
            let hi = 2200 * 12 + 11 - total - 1;
            let months = if r.chance(0.1) { [lo, hi][r.usize(2)] } else { r.range_i(lo.max(-2800), hi.min(2800)) };
            let res = guarded(|| {
                let _ = cal.add_months(&dt, months as i32, &m, &roll, settlement);
                let _ = cal.roll(&dt, &m, settlement);
            });
            ctx.eval(2);
            ctx.asserted(2);
            if let Caught::Panic { loc, msg } = res {
                if is_harness_location(&loc) {
                    ctx.harness_error(format!("{} {}", loc, msg));
                    return;
                }
                let sig = format!("C20|panic|add_months-or-roll|{}", short_loc(&loc));
                if seen.insert(sig.clone()) {
                    ctx.violation(&sig, json!({"calendar": sd, "date": fmt_z(z), "months": months, "roll": format!("{:?}", roll), "modifier": mod_name(&m), "settlement": settlement, "location": loc, "message": msg}));
                }
            }
        }
        ctx.class("sweep:add_months-grid");
    }
}

// ------------------------------------------------------------------ (c) splines and curves

fn range_calls<C: DateRoll>(ctx: &mut Ctx, cal: &C, spec: &CalSpec, z0: i64, z1: i64) {
    let (d0, d1) = (to_ndt(z0), to_ndt(z1));
    let inp = || json!({"calendar": spec.describe(), "start": fmt_z(z0), "end": fmt_z(z1)});
    ctx.crumb(&format!("date ranges {}", inp()));
    match no_panic(ctx, "bus_date_range", guarded(|| cal.bus_date_range(&d0, &d1).ok()), inp) {
        Some(Some(v)) => {
            ctx.class(if z1 < z0 { "bus_date_range:reversed:ok" } else { "bus_date_range:ok" });
            ctx.asserted(1);
            if v.windows(2).any(|w| w[0] >= w[1]) || v.iter().any(|d| *d < d0 || *d > d1) {
                ctx.violation("C20|invariant|bus_date_range", json!({"input": inp(), "returned": v.iter().map(|d| d.to_string()).collect::<Vec<_>>()}));
            }
        }
        Some(None) => ctx.class("bus_date_range:err"),
        None => return,
    }
    if let Some(Some(v)) = no_panic(ctx, "cal_date_range", guarded(|| cal.cal_date_range(&d0, &d1).ok()), inp) {
        ctx.asserted(1);
        let want = if z1 >= z0 { (z1 - z0 + 1) as usize } else { 0 };
        if v.len() != want {
            ctx.violation("C20|invariant|cal_date_range", json!({"input": inp(), "returned_len": v.len(), "expected_len": want}));
        }
    }
}

fn spline_calls(ctx: &mut Ctx, r: &mut Rng) {
    // the smallest splines the constructor admits: as many knots as the order (no coefficient at all), or one more
    if r.chance(0.08) {
        let k = 1 + r.usize(4);
        let extra = r.usize(2);
        // (the constructor asserts at least two knots - a documented precondition, not a fallible entry point)
        let k = if k + extra < 2 { 2 } else { k };
        let mut t: Vec<f64> = (0..k + extra).map(|_| r.uniform(-5.0, 5.0)).collect();
        t.sort_by(|a, b| a.partial_cmp(b).unwrap());
        let mut sp = PPSpline::<f64>::new(k, t.clone(), None);
        let ny = r.usize(3);
        let tau: Vec<f64> = (0..ny).map(|_| r.uniform(-5.0, 5.0)).collect();
        let y: Vec<f64> = (0..ny).map(|_| r.real()).collect();
        let lsq = r.bool();
        let input = || json!({"k": k, "t": t, "tau": tau, "y_len": ny, "allow_lsq": lsq, "coefficients": extra});
        ctx.crumb(&format!("degenerate spline {}", input()));
        ctx.class(if extra == 0 { "csolve:spline-without-coefficients" } else { "csolve:spline-with-one-coefficient" });
        if no_panic(ctx, "PPSpline::csolve(degenerate)", guarded(|| sp.csolve(&tau, &y, 0, 0, lsq).is_ok()), input).is_some() {
            if let Some(s) = spline_shape(&sp) {
                ctx.violation("C20|invariant|PPSpline::csolve", json!({"input": input(), "what": s}));
            }
            let _ = no_panic(ctx, "ppdnev_single(degenerate)", guarded(|| sp.ppdnev_single(&t[0], 0).is_ok()), input);
        }
        return;
    }
    let k = 1 + r.usize(6);
    let (t, _) = super::c14::gen_knots(r, k, 5);
    let n = t.len() - k;
    let (a, b) = (t[0], t[t.len() - 1]);
    let mut sp = PPSpline::<f64>::new(k, t.clone(), None);
    // evaluation before csolve
    let x0 = r.uniform(a - 1.0, b + 1.0);
    let _ = no_panic(ctx, "ppdnev_single(before csolve)", guarded(|| sp.ppdnev_single(&x0, r.usize(k + 2)).is_err()), || json!({"k": k, "t": t}));
    let _ = no_panic(ctx, "ppdnev_single_dual(before csolve)", guarded(|| sp.ppdnev_single_dual(&Dual::new(x0, vec!["x".into()]), 0).is_err()), || json!({"k": k, "t": t}));
    // arbitrary site / data lengths, repeated and out-of-domain sites
    let m = match r.below(5) {
        0 => n,
        1 => n + 1 + r.usize(4),
        2 => n.saturating_sub(1 + r.usize(2)),
        3 => r.usize(3),
        _ => n,
    };
    let style = r.below(5);
    let mut tau: Vec<f64> = (0..m)
        .map(|i| match style {
            0 => a + (b - a) * (i as f64 + 0.5) / (m.max(1) as f64),
            1 => a,                             // all sites repeated
            2 => r.uniform(a - 5.0, b + 5.0),   // some outside the domain
            3 => if r.bool() { a } else { b }, // only end points
            _ => r.uniform(a, b),
        })
        .collect();
    if r.chance(0.6) {
        tau.sort_by(|x, y| x.partial_cmp(y).unwrap());
    }
    let my = if r.chance(0.8) { m } else { r.usize(m + 3) };
    let y: Vec<f64> = (0..my).map(|_| r.real()).collect();
    let (ln, rn) = (r.usize(k + 3), r.usize(k + 3));
    let lsq = r.bool();
    ctx.crumb(&format!("csolve k={} t={:?} tau={:?} ny={} left_n={} right_n={} lsq={}", k, t, tau, my, ln, rn, lsq));
    let input = || json!({"k": k, "t": t, "tau": tau, "y_len": my, "left_n": ln, "right_n": rn, "allow_lsq": lsq});
    let style_name = ["spread", "all-repeated", "out-of-domain", "end-points-only", "random"][style as usize];
    if m >= 1 {
        if let Some(res) = no_panic(ctx, "PPSpline::csolve", guarded(|| sp.csolve(&tau, &y, ln, rn, lsq).is_ok()), input) {
            ctx.class(&format!("csolve:{}:{}", style_name, if res { "ok" } else { "err" }));
            if let Some(s) = spline_shape(&sp) {
                ctx.violation("C20|invariant|PPSpline::csolve", json!({"input": input(), "what": s}));
            }
            if res {
                let _ = no_panic(ctx, "ppdnev_single(after csolve)", guarded(|| sp.ppdnev_single(&x0, r.usize(k + 2)).is_ok()), input);
            }
            // typed evaluators and the Number mapping: every abscissa kind, solved or not, any derivative order
            {
                use rateslib::dual::NumberMapping;
                let mo = r.usize(k + 2);
                let xd = Dual::new(x0, vec!["x".into()]);
                let xd2 = Dual2::new(x0, vec!["x".into()]);
                let _ = no_panic(ctx, "PPSpline<f64>::ppdnev_single_dual", guarded(|| sp.ppdnev_single_dual(&xd, mo).is_ok() == res), input);
                let _ = no_panic(ctx, "PPSpline<f64>::ppdnev_single_dual2", guarded(|| sp.ppdnev_single_dual2(&xd2, mo).is_ok() == res), input);
                for (nm, x) in [("f64", Number::F64(x0)), ("Dual", Number::Dual(xd.clone())), ("Dual2", Number::Dual2(xd2.clone()))] {
                    if let Some(okk) = no_panic(ctx, "PPSpline<f64>::mapped_value", guarded(|| sp.mapped_value(&x).is_ok()), input) {
                        ctx.class(&format!("mapped_value:{}:{}", nm, if okk { "ok" } else { "err" }));
                        ctx.asserted(1);
                        if okk != res {
                            ctx.violation("C20|mapped_value|solved-vs-result", json!({"input": input(), "abscissa_kind": nm, "solved": res, "ok": okk}));
                        }
                    }
                }
            }
        }
    } else {
        // zero sites: must be an error, not an abort
        if let Some(res) = no_panic(ctx, "PPSpline::csolve(no-sites)", guarded(|| sp.csolve(&tau, &y, ln, rn, lsq).is_ok()), input) {
            ctx.class(&format!("csolve:no-sites:{}", if res { "ok" } else { "err" }));
        }
    }
    // the dual-valued splines take the same path
    if m >= 1 && r.chance(0.3) {
        let mut sd = PPSpline::<Dual>::new(k, t.clone(), None);
        let yd: Vec<Dual> = y.iter().enumerate().map(|(i, v)| Dual::new(*v, vec![format!("y{}", i)])).collect();
        let solved = no_panic(ctx, "PPSpline<Dual>::csolve", guarded(|| sd.csolve(&tau, &yd, ln, rn, lsq).is_ok()), input);
        // the evaluator of the other order is refused with an error (never computed, never an abort)
        let xd = Dual::new(x0, vec!["x".into()]);
        let xd2 = Dual2::new(x0, vec!["x".into()]);
        if let Some(ok2) = no_panic(ctx, "PPSpline<Dual>::ppdnev_single_dual2", guarded(|| sd.ppdnev_single_dual2(&xd2, 0).is_ok()), input) {
            ctx.asserted(1);
            ctx.class("typed-evaluator:order-mismatch");
            if ok2 {
                ctx.violation("C20|typed-evaluator|order-mismatch-computed", json!({"input": input(), "spline": "PPSpline<Dual>", "abscissa": "Dual2"}));
            }
        }
        let _ = no_panic(ctx, "PPSpline<Dual>::ppdnev_single_dual", guarded(|| sd.ppdnev_single_dual(&xd, r.usize(k + 2)).is_ok()), input);
        {
            // the Number mapping of the dual-valued splines, solved or not (an unsolved one must answer Err)
            use rateslib::dual::NumberMapping;
            let fresh = PPSpline::<Dual>::new(k, t.clone(), None);
            let fresh2 = PPSpline::<Dual2>::new(k, t.clone(), None);
            for x in [Number::F64(x0), Number::Dual(xd.clone()), Number::Dual2(xd2.clone())] {
                let _ = no_panic(ctx, "PPSpline<Dual>::mapped_value", guarded(|| sd.mapped_value(&x).is_ok()), input);
                if let Some(true) = no_panic(ctx, "PPSpline<Dual>::mapped_value(unsolved)", guarded(|| fresh.mapped_value(&x).is_ok()), input) {
                    ctx.violation("C20|mapped_value|unsolved-spline-answered", json!({"input": input(), "spline": "PPSpline<Dual>"}));
                }
                if let Some(true) = no_panic(ctx, "PPSpline<Dual2>::mapped_value(unsolved)", guarded(|| fresh2.mapped_value(&x).is_ok()), input) {
                    ctx.violation("C20|mapped_value|unsolved-spline-answered", json!({"input": input(), "spline": "PPSpline<Dual2>"}));
                }
            }
        }
        let mut s2 = PPSpline::<Dual2>::new(k, t.clone(), None);
        let yd2: Vec<Dual2> = y.iter().enumerate().map(|(i, v)| Dual2::new(*v, vec![format!("y{}", i)])).collect();
        let _ = no_panic(ctx, "PPSpline<Dual2>::csolve", guarded(|| s2.csolve(&tau, &yd2, ln, rn, lsq).is_ok()), input);
        if let Some(ok1) = no_panic(ctx, "PPSpline<Dual2>::ppdnev_single_dual", guarded(|| s2.ppdnev_single_dual(&xd, 0).is_ok()), input) {
            ctx.asserted(1);
            if ok1 {
                ctx.violation("C20|typed-evaluator|order-mismatch-computed", json!({"input": input(), "spline": "PPSpline<Dual2>", "abscissa": "Dual"}));
            }
        }
        let _ = no_panic(ctx, "PPSpline<Dual2>::ppdnev_single_dual2", guarded(|| s2.ppdnev_single_dual2(&xd2, r.usize(k + 2)).is_ok()), input);
        let _ = solved;
    }
    // business / calendar date ranges: any two dates in either order, business days or not
    if r.chance(0.3) {
        let y0 = 1975 + r.range_i(0, 210);
        let lo = days_from_civil(y0, 1, 1);
        let hi = days_from_civil(y0 + 3, 12, 31);
        let spec = gen_calspec(r, lo, hi);
        let z0 = lo + 400 + r.range_i(0, 300);
        let z1 = z0 + r.range_i(-400, 400);
        match build_cal(&spec) {
            Some(any) => {
                if any.is_wrapped() {
                    ctx.class("calendar:inside-CalType-container");
                }
                with_cal!(&any, c => range_calls(ctx, c, &spec, z0, z1));
            }
            None => ctx.harness_error("calendar build".into()),
        }
    }
    // derivative-order switches on curves never abort
    if r.chance(0.15) {
        let mut co = gen_curve_obj(r);
        let mut seq = vec![];
        for _ in 0..1 + r.usize(5) {
            let o = r.usize(3);
            seq.push(o);
            let q = super::curvegen::ts_to_ndt(co.spec.ts[0] + r.range_i(-50, 4000));
            if no_panic(ctx, "Curve::set_ad_order", guarded(|| co.curve.set_ad_order([ADOrder::Zero, ADOrder::One, ADOrder::Two][o])), || json!({"curve": co.spec.describe(), "rule": co.rule, "orders": seq})).is_none() {
                return;
            }
            if co.rule != "null" {
                let _ = no_panic(ctx, "Curve::index_value(after set_ad_order)", guarded(|| co.curve.index_value(&q).is_ok()), || json!({"curve": co.spec.describe(), "rule": co.rule, "orders": seq}));
            }
        }
        ctx.class("curve:order-switch-sequence");
    }
    // index_value without a base is an error
    if r.chance(0.2) {
        let co = gen_curve_obj(r);
        if co.rule != "null" {
            let q = super::curvegen::ts_to_ndt(co.spec.ts[0] + 5);
            if let Some(res) = no_panic(ctx, "Curve::index_value", guarded(|| co.curve.index_value(&q).is_ok()), || co.spec.describe()) {
                ctx.asserted(1);
                if res != co.curve.index_base().is_some() {
                    ctx.violation("C20|index_value|base-vs-result", json!({"curve": co.spec.describe(), "has_base": co.curve.index_base().is_some(), "ok": res}));
                }
                ctx.class(if res { "index_value:ok" } else { "index_value:err-without-base" });
            }
        }
    }
}

// ------------------------------------------------------------------ (d) JSON mutation

const JKINDS: [&str; 12] = ["Dual", "Dual2", "Cal", "UnionCal", "NamedCal", "CalType", "FXRates", "Curve", "PPSplineF64", "PPSplineDual", "PPSplineDual2", "FXRate"];

fn valid_doc(kind: &str, r: &mut Rng) -> (Value, Value) {
    // (untagged document, tagged document)
    let tag = |name: &str, v: &Value| json!({ name: v });
    match kind {
        "Dual" => {
            let v = serde_json::to_value(gen_dual(r)).unwrap();
            (v.clone(), tag("Dual", &v))
        }
        "Dual2" => {
            let v = serde_json::to_value(gen_dual2(r)).unwrap();
            (v.clone(), tag("Dual2", &v))
        }
        "Cal" => {
            let v = serde_json::to_value(gen_cal(r)).unwrap();
            (v.clone(), tag("Cal", &v))
        }
        "UnionCal" => {
            let v = serde_json::to_value(super::objgen::gen_union(r)).unwrap();
            (v.clone(), tag("UnionCal", &v))
        }
        "NamedCal" => {
            let v = serde_json::to_value(gen_named(r)).unwrap();
            (v.clone(), tag("NamedCal", &v))
        }
        "CalType" => {
            let v = serde_json::to_value(gen_caltype(r)).unwrap();
            (v.clone(), Value::Null)
        }
        "FXRates" => {
            let (fx, _, _, _, _) = gen_fxrates(r);
            let v = serde_json::to_value(&fx).unwrap();
            (v.clone(), tag("FXRates", &v))
        }
        "FXRate" => {
            let (fx, _, _, _, _) = gen_fxrates(r);
            let v = serde_json::to_value(&fx).unwrap();
            (v["fx_rates"][0].clone(), Value::Null)
        }
        "Curve" => {
            let co = gen_curve_obj(r);
            let plain: Value = serde_json::from_str(&co.curve.to_json_plain().unwrap()).unwrap();
            let tagged: Value = serde_json::from_str(&co.curve.to_json().unwrap()).unwrap();
            (plain, tagged)
        }
        _ => loop {
            match (gen_spline(r), kind) {
                (SplineObj::F(s), "PPSplineF64") => {
                    let v = serde_json::to_value(&s).unwrap();
                    break (v.clone(), tag("PPSplineF64", &json!({ "inner": v })));
                }
                (SplineObj::D(s), "PPSplineDual") => {
                    let v = serde_json::to_value(&s).unwrap();
                    break (v.clone(), tag("PPSplineDual", &json!({ "inner": v })));
                }
                (SplineObj::D2(s), "PPSplineDual2") => {
                    let v = serde_json::to_value(&s).unwrap();
                    break (v.clone(), tag("PPSplineDual2", &json!({ "inner": v })));
                }
                _ => continue,
            }
        },
    }
}

/// all paths to nodes of the tree
fn paths_of(v: &Value, cur: &mut Vec<String>, out: &mut Vec<Vec<String>>) {
    out.push(cur.clone());
    match v {
        Value::Object(m) => {
            for (k, x) in m {
                cur.push(k.clone());
                paths_of(x, cur, out);
                cur.pop();
            }
        }
        Value::Array(a) => {
            for (i, x) in a.iter().enumerate().take(12) {
                cur.push(format!("#{}", i));
                paths_of(x, cur, out);
                cur.pop();
            }
        }
        _ => {}
    }
}

fn get_mut<'a>(v: &'a mut Value, path: &[String]) -> Option<&'a mut Value> {
    let mut c = v;
    for p in path {
        c = match c {
            Value::Object(m) => m.get_mut(p)?,
            Value::Array(a) => a.get_mut(p.strip_prefix('#')?.parse::<usize>().ok()?)?,
            _ => return None,
        };
    }
    Some(c)
}

fn get<'a>(v: &'a Value, path: &[String]) -> Option<&'a Value> {
    let mut c = v;
    for p in path {
        c = match c {
            Value::Object(m) => m.get(p)?,
            Value::Array(a) => a.get(p.strip_prefix('#')?.parse::<usize>().ok()?)?,
            _ => return None,
        };
    }
    Some(c)
}

fn hostile_json_value(r: &mut Rng) -> Value {
    match r.below(16) {
        0 => Value::Null,
        1 => json!(true),
        2 => json!(""),
        3 => json!("xyz"),
        4 => json!("\u{20ac}"),
        5 => json!("usdx"),
        6 => json!(-1),
        7 => json!(0),
        8 => json!(18446744073709551615u64),
        9 => json!(1e300),
        10 => json!([]),
        11 => json!({}),
        12 => json!([1, 2, 3]),
        13 => json!("tgt|nyc|ldn"),
        14 => json!(3.5),
        _ => json!("2024-13-45T99:00:00"),
    }
}

/// structural mutation; returns its kind
fn mutate(v: &mut Value, r: &mut Rng) -> &'static str {
    let mut all = vec![];
    paths_of(v, &mut vec![], &mut all);
    let nonroot: Vec<Vec<String>> = all.iter().filter(|p| !p.is_empty()).cloned().collect();
    if nonroot.is_empty() {
        *v = hostile_json_value(r);
        return "replace-root";
    }
    let path = nonroot[r.usize(nonroot.len())].clone();
    let (parent_path, last) = (path[..path.len() - 1].to_vec(), path[path.len() - 1].clone());
    match r.below(10) {
        0 => {
            // delete a field / element
            if let Some(p) = get_mut(v, &parent_path) {
                match p {
                    Value::Object(m) => {
                        m.remove(&last);
                    }
                    Value::Array(a) => {
                        if let Some(i) = last.strip_prefix('#').and_then(|s| s.parse::<usize>().ok()) {
                            if i < a.len() {
                                a.remove(i);
                            }
                        }
                    }
                    _ => {}
                }
            }
            "delete"
        }
        1 => {
            // change a value's type
            if let Some(x) = get_mut(v, &path) {
                *x = match x {
                    Value::Number(n) => json!(n.to_string()),
                    Value::String(s) => s.parse::<f64>().map(|f| json!(f)).unwrap_or(json!(7)),
                    Value::Array(a) => {
                        let mut m = Map::new();
                        for (i, e) in a.iter().enumerate() {
                            m.insert(i.to_string(), e.clone());
                        }
                        Value::Object(m)
                    }
                    Value::Object(m) => Value::Array(m.values().cloned().collect()),
                    Value::Bool(_) => json!(1),
                    Value::Null => json!(0),
                };
            }
            "change-type"
        }
        2 => {
            // shrink an array
            let arrays: Vec<Vec<String>> = all.iter().filter(|p| matches!(get(v, p), Some(Value::Array(_)))).cloned().collect();
            if let Some(ap) = arrays.get(r.usize(arrays.len().max(1))) {
                if let Some(Value::Array(a)) = get_mut(v, ap) {
                    if !a.is_empty() {
                        let k = r.usize(a.len());
                        a.remove(k);
                        if r.bool() && !a.is_empty() {
                            a.truncate(a.len() / 2);
                        }
                    }
                }
            }
            "shrink-array"
        }
        3 => {
            // grow an array
            let arrays: Vec<Vec<String>> = all.iter().filter(|p| matches!(get(v, p), Some(Value::Array(_)))).cloned().collect();
            if let Some(ap) = arrays.get(r.usize(arrays.len().max(1))) {
                if let Some(Value::Array(a)) = get_mut(v, ap) {
                    let e = if !a.is_empty() && r.bool() { a[r.usize(a.len())].clone() } else { hostile_json_value(r) };
                    let pos = r.usize(a.len() + 1);
                    a.insert(pos, e);
                }
            }
            "grow-array"
        }
        4 => {
            // swap two values
            let other = nonroot[r.usize(nonroot.len())].clone();
            let a = get_mut(v, &path).cloned();
            let b = get_mut(v, &other).cloned();
            if let (Some(a), Some(b)) = (a, b) {
                if let Some(x) = get_mut(v, &path) {
                    *x = b;
                }
                if let Some(y) = get_mut(v, &other) {
                    *y = a;
                }
            }
            "swap-values"
        }
        5 | 6 => {
            if let Some(x) = get_mut(v, &path) {
                *x = hostile_json_value(r);
            }
            "replace-with-hostile"
        }
        7 => {
            // ndarray documents {"v":1,"dim":[..],"data":[..]}: change the shape CONSISTENTLY (dim and
            // data together), so that the array itself parses and only the owner's shape check can object
            let arrs: Vec<Vec<String>> = all
                .iter()
                .filter(|p| matches!(get(v, p), Some(Value::Object(m)) if m.contains_key("dim") && m.contains_key("data")))
                .cloned()
                .collect();
            if arrs.is_empty() {
                if let Some(x) = get_mut(v, &path) {
                    *x = hostile_json_value(r);
                }
                return "replace-with-hostile";
            }
            let ap = arrs[r.usize(arrs.len())].clone();
            if let Some(Value::Object(m)) = get_mut(v, &ap) {
                let dims: Vec<u64> = m.get("dim").and_then(|d| d.as_array()).map(|a| a.iter().filter_map(|x| x.as_u64()).collect()).unwrap_or_default();
                let fill = m.get("data").and_then(|d| d.as_array()).and_then(|a| a.first().cloned()).unwrap_or(json!(0.5));
                let new_dims: Vec<u64> = match dims.len() {
                    1 => vec![if r.bool() { dims[0].saturating_add(1) } else { dims[0].saturating_sub(1) }],
                    2 => match r.below(4) {
                        0 => vec![dims[0], dims[1].saturating_add(1)],
                        1 => vec![dims[0].saturating_add(1), dims[1]],
                        2 => vec![dims[0], dims[1].saturating_sub(1)],
                        _ => vec![dims[0].saturating_add(1), dims[1].saturating_add(1)],
                    },
                    _ => dims.clone(),
                };
                let total: u64 = new_dims.iter().fold(1u64, |a, b| a.saturating_mul(*b));
                if total > 4096 {
                    return "reshape-array-consistently";
                }
                m.insert("dim".into(), json!(new_dims));
                m.insert("data".into(), Value::Array((0..total).map(|_| fill.clone()).collect()));
            }
            "reshape-array-consistently"
        }
        _ => {
            // targeted: the fields whose consistency the constructors enforce
            for key in ["vars", "dual", "dual2", "name", "fx_rates", "currencies", "n", "k", "t", "c", "pair", "nodes", "week_mask"] {
                let cands: Vec<&Vec<String>> = nonroot.iter().filter(|p| p.last().map(|s| s == key).unwrap_or(false)).collect();
                if !cands.is_empty() && r.chance(0.35) {
                    let p = cands[r.usize(cands.len())].clone();
                    if let Some(x) = get_mut(v, &p) {
                        match x {
                            Value::Array(a) => {
                                if r.bool() && !a.is_empty() {
                                    a.pop();
                                } else {
                                    let e = a.first().cloned().unwrap_or(json!(1.0));
                                    a.push(e);
                                }
                            }
                            Value::Number(n) => {
                                let k = n.as_i64().unwrap_or(1);
                                *x = json!((k + if r.bool() { 1 } else { -1 }).max(0));
                            }
                            Value::String(_) => *x = [json!("xyz"), json!("usdx"), json!("\u{20ac}"), json!("tgt,,"), json!("")][r.usize(5)].clone(),
                            Value::Object(m) => {
                                if let Some(k) = m.keys().next().cloned() {
                                    m.remove(&k);
                                }
                            }
                            _ => {}
                        }
                    }
                    return "targeted-consistency-field";
                }
            }
            if let Some(x) = get_mut(v, &path) {
                *x = hostile_json_value(r);
            }
            "replace-with-hostile"
        }
    }
}

/// write JSON text, optionally duplicating one object key (serde_json::Value cannot hold duplicates)
fn write_json(v: &Value, dup: &mut Option<u64>, out: &mut String) {
    match v {
        Value::Object(m) => {
            out.push('{');
            let mut first = true;
            for (k, x) in m {
                if !first {
                    out.push(',');
                }
                first = false;
                out.push_str(&serde_json::to_string(k).unwrap());
                out.push(':');
                write_json(x, dup, out);
                if let Some(c) = dup {
                    if *c == 0 {
                        *dup = None;
                        out.push(',');
                        out.push_str(&serde_json::to_string(k).unwrap());
                        out.push(':');
                        write_json(x, &mut None, out);
                    } else {
                        *c -= 1;
                    }
                }
            }
            out.push('}');
        }
        Value::Array(a) => {
            out.push('[');
            for (i, x) in a.iter().enumerate() {
                if i > 0 {
                    out.push(',');
                }
                write_json(x, dup, out);
            }
            out.push(']');
        }
        other => out.push_str(&serde_json::to_string(other).unwrap()),
    }
}

fn load_untagged(ctx: &mut Ctx, kind: &str, text: &str, mutation: &str, r: &mut Rng) {
    let what = format!("from_json<{}>", kind);
    let inp = || json!({"kind": kind, "mutation": mutation, "json": crate::util::clip(&text, 1500)});
    macro_rules! load {
        ($T:ty, $check:expr) => {{
            if let Some(res) = no_panic(ctx, &what, guarded(|| serde_json::from_str::<$T>(text).ok()), inp) {
                ctx.class(&format!("json:{}:{}", kind, if res.is_some() { "loaded" } else { "rejected" }));
                if let Some(o) = res {
                    #[allow(clippy::redundant_closure_call)]
                    let bad: Option<String> = match guarded(|| ($check)(&o)) {
                        Caught::Ok(b) => b,
                        Caught::Panic { loc, msg } => Some(format!("using the loaded object panicked at {}: {}", short_loc(&loc).replace(':', "_"), msg)),
                    };
                    ctx.asserted(1);
                    if let Some(w) = bad {
                        let key = w.split(':').next().unwrap_or("").trim().to_string();
                        ctx.violation(&format!("C20|json-invariant|{}|{}", kind, key), json!({"input": inp(), "what": w}));
                    }
                }
            }
        }};
    }
    match kind {
        "Dual" => load!(Dual, |o: &Dual| dual_shape(o)),
        "Dual2" => load!(Dual2, |o: &Dual2| dual2_shape(o)),
        "Cal" => load!(Cal, |o: &Cal| {
            let _ = o.is_bus_day(&to_ndt(19000));
            None::<String>
        }),
        "UnionCal" => load!(UnionCal, |o: &UnionCal| {
            let _ = o.is_bus_day(&to_ndt(19000));
            let _ = o.is_settlement(&to_ndt(19000));
            None::<String>
        }),
        "NamedCal" => {
            let mut rr = r.clone();
            load!(NamedCal, |o: &NamedCal| named_shape(o, &mut rr))
        }
        "CalType" => {
            let mut rr = r.clone();
            load!(CalType, |o: &CalType| caltype_ok(o, &mut rr))
        }
        "FXRates" => load!(FXRates, |o: &FXRates| fx_shape(o)),
        "FXRate" => load!(FXRate, |o: &FXRate| {
            let s = serde_json::to_value(o).ok()?;
            let names: Vec<String> = s["pair"].as_array().map(|a| a.iter().filter_map(|c| c["name"].as_str().map(|x| x.to_string())).collect()).unwrap_or_default();
            for n in names.iter() {
                if n.len() != 3 || *n != n.to_lowercase() {
                    return Some(format!("currency code not 3 lower-case bytes: {:?}", n));
                }
            }
            if names.len() == 2 && names[0] == names[1] {
                return Some("pair with equal currencies: both sides equal".to_string());
            }
            None
        }),
        "Curve" => {
            if let Some(res) = no_panic(ctx, &what, guarded(|| VerifCurve::from_json_plain(text).ok()), inp) {
                ctx.class(&format!("json:Curve:{}", if res.is_some() { "loaded" } else { "rejected" }));
                if let Some(c) = res {
                    // the node table is readable and carries well-formed numbers
                    let bad = match guarded(|| c.nodes().values().filter_map(number_shape).next().or_else(|| caltype_ok(&c.calendar(), &mut r.clone()))) {
                        Caught::Ok(b) => b,
                        Caught::Panic { loc, msg } => Some(format!("reading the loaded curve panicked at {}: {}", short_loc(&loc).replace(':', "_"), msg)),
                    };
                    if let Some(w) = bad {
                        let key = w.split(':').next().unwrap_or("").trim().to_string();
                        ctx.violation(&format!("C20|json-invariant|Curve|{}", key), json!({"input": inp(), "what": w}));
                    }
                }
            }
        }
        "PPSplineF64" => load!(PPSpline<f64>, |o: &PPSpline<f64>| spline_shape(o)),
        "PPSplineDual" => load!(PPSpline<Dual>, |o: &PPSpline<Dual>| spline_shape(o).or_else(|| o.c().as_ref().and_then(|c| c.iter().filter_map(dual_shape).next()))),
        _ => load!(PPSpline<Dual2>, |o: &PPSpline<Dual2>| spline_shape(o).or_else(|| o.c().as_ref().and_then(|c| c.iter().filter_map(dual2_shape).next()))),
    }
}

fn load_tagged(ctx: &mut Ctx, kind: &str, text: &str, mutation: &str, r: &mut Rng) {
    let inp = || json!({"kind": kind, "entry": "tagged from_json", "mutation": mutation, "json": crate::util::clip(&text, 1500)});
    // the function Python calls (it also composes the error message), then the container behind it
    let inp_py = || json!({"kind": kind, "entry": "Python-exposed from_json", "mutation": mutation, "json": crate::util::clip(&text, 1500), "char_boundaries_off": (1..text.len().min(200)).filter(|i| !text.is_char_boundary(*i)).take(12).collect::<Vec<_>>()});
    let via_py = no_panic(ctx, "from_json(python-exposed)", guarded(|| VerifObj::py_from_json(text).ok()), inp_py);
    if let Some(p) = via_py.as_ref() {
        ctx.class(&format!("tagged-via-python:{}{}", if p.is_some() { "loaded" } else { "rejected" }, if p.is_none() && !text.is_ascii() { ":non-ascii-text" } else { "" }));
    }
    if let Some(res) = no_panic(ctx, "from_json(tagged)", guarded(|| VerifObj::from_json(text).ok()), inp) {
        ctx.class(&format!("tagged:{}", if res.is_some() { "loaded" } else { "rejected" }));
        if let Some(p) = via_py.as_ref() {
            ctx.asserted(1);
            if p.is_some() != res.is_some() || p.as_ref().map(|o| o.kind()) != res.as_ref().map(|o| o.kind()) {
                ctx.violation(&format!("C20|python-from_json-differs-from-container|{}", kind), json!({"input": inp(), "python-exposed": p.as_ref().map(|o| o.kind()), "container": res.as_ref().map(|o| o.kind())}));
            }
        }
        if let Some(o) = res {
            let bad: Option<String> = match guarded(|| {
                if let Some(d) = o.as_dual() {
                    return dual_shape(d);
                }
                if let Some(d) = o.as_dual2() {
                    return dual2_shape(d);
                }
                if let Some(n) = o.as_named_cal() {
                    return named_shape(n, &mut r.clone());
                }
                if let Some(f) = o.as_fxrates() {
                    return fx_shape(f);
                }
                if let Some(s) = o.as_spline_f64() {
                    return spline_shape(s);
                }
                if let Some(s) = o.as_spline_dual() {
                    return spline_shape(s).or_else(|| s.c().as_ref().and_then(|c| c.iter().filter_map(dual_shape).next()));
                }
                if let Some(s) = o.as_spline_dual2() {
                    return spline_shape(s).or_else(|| s.c().as_ref().and_then(|c| c.iter().filter_map(dual2_shape).next()));
                }
                if let Some(c) = o.as_curve() {
                    return c.nodes().values().filter_map(number_shape).next().or_else(|| caltype_ok(&c.calendar(), &mut r.clone()));
                }
                None
            }) {
                Caught::Ok(b) => b,
                Caught::Panic { loc, msg } => Some(format!("using the loaded object panicked at {}: {}", short_loc(&loc).replace(':', "_"), msg)),
            };
            ctx.asserted(1);
            if let Some(w) = bad {
                let key = w.split(':').next().unwrap_or("").trim().to_string();
                ctx.violation(&format!("C20|json-invariant|tagged:{}|{}", o.kind(), key), json!({"input": inp(), "what": w}));
            }
        }
    }
}

fn json_mutation(ctx: &mut Ctx, r: &mut Rng, idx: u64) {
    let kind = JKINDS[(idx % JKINDS.len() as u64) as usize];
    let (mut plain, mut tagged) = valid_doc(kind, r);
    // the unmutated documents load
    if idx % 50 < JKINDS.len() as u64 {
        let t = serde_json::to_string(&plain).unwrap();
        ctx.crumb(&format!("load valid {} {}", kind, crate::util::clip(&t, 600)));
        load_untagged(ctx, kind, &t, "none", r);
        ctx.class(&format!("valid-document:{}", kind));
    }
    let nmut = 1 + r.usize(3);
    let mut kinds: Vec<&'static str> = vec![];
    let mut rt = r.clone();
    for _ in 0..nmut {
        kinds.push(mutate(&mut plain, r));
        if !tagged.is_null() {
            mutate(&mut tagged, &mut rt);
        }
    }
    let mlabel = kinds.join("+");
    for k in kinds.iter() {
        ctx.class(&format!("mutation:{}", k));
    }
    let textual = r.below(8);
    let render = |v: &Value, r: &mut Rng, label: &mut String| -> String {
        let mut s = String::new();
        let mut dup = if textual == 0 { Some(r.below(6)) } else { None };
        write_json(v, &mut dup, &mut s);
        if textual == 0 {
            label.push_str("+duplicate-field");
        }
        if textual == 1 && s.len() > 2 {
            // truncate the text (on a character boundary)
            let mut cut = r.usize(s.len());
            while !s.is_char_boundary(cut) {
                cut -= 1;
            }
            s.truncate(cut);
            label.push_str("+truncate");
        }
        s
    };
    let mut label = mlabel.clone();
    let text = render(&plain, r, &mut label);
    if textual == 0 {
        ctx.class("mutation:duplicate-field");
    }
    if textual == 1 {
        ctx.class("mutation:truncate");
    }
    ctx.crumb(&format!("load {} [{}] {}", kind, label, crate::util::clip(&text, 700)));
    load_untagged(ctx, kind, &text, &label, r);
    if !tagged.is_null() {
        let mut l2 = mlabel.clone();
        let t2 = render(&tagged, r, &mut l2);
        ctx.crumb(&format!("load tagged {} [{}] {}", kind, l2, crate::util::clip(&t2, 700)));
        load_tagged(ctx, kind, &t2, &l2, r);
    }
    ctx.distinct(hash_u64s(&[crate::util::hash_str(kind), crate::util::hash_str(&label), crate::util::hash_str(&text)]));
    if idx < 24 {
        ctx.sample(&format!("json:{}", kind), || json!({"kind": kind, "mutation": label, "text": crate::util::clip(&text, 400)}));
    }
}

impl Prop for C20 {
    fn id(&self) -> &'static str {
        "C20"
    }
    fn phases(&self, tier: Tier) -> Vec<PhaseSpec> {
        vec![
            ph("constructors with boundary and random arguments", tier.pick(20_000, 1_000_000)),
            ph("date arithmetic: all 256 day counts, add_months grid", tier.pick(10, 100)),
            ph("spline solving / evaluation, index_value, get_roll", tier.pick(10_000, 500_000)),
            ph("JSON mutation of valid documents of every kind", tier.pick(60_000, 5_000_000)),
        ]
    }
    fn workers(&self, tier: Tier) -> usize {
        tier.pick(12, 16)
    }
    fn required_classes(&self, _tier: Tier) -> Vec<String> {
        let mut v = vec![];
        for c in ["Dual::try_new", "Dual2::try_new", "Ccy::try_new", "FXPair::try_new", "FXRates::try_new", "NamedCal::try_new"] {
            v.push(format!("{}:ok", c));
            v.push(format!("{}:err", c));
        }
        for c in ["FXRates::update:ok", "FXRates::update:err", "update-pair:quoted", "update-pair:inverted-quote", "update-pair:member-currencies", "update-pair:foreign-currency", "update-pair:empty-list"] {
            v.push(c.to_string());
        }
        v.push("py:vars_from:wrong-lengths".into());
        v.push("py:vars_from:consistent-lengths".into());
        v.push("sweep:all-256-day-counts".into());
        v.push("sweep:add_months-grid".into());
        for s in ["spread", "all-repeated", "out-of-domain", "end-points-only", "random"] {
            v.push(format!("csolve:{}:err", s));
        }
        v.push("csolve:spread:ok".into());
        v.push("csolve:spline-without-coefficients".into());
        v.push("csolve:spline-with-one-coefficient".into());
        v.push("index_value:err-without-base".into());
        for c in ["mapped_value:f64:ok", "mapped_value:Dual:ok", "mapped_value:Dual2:ok", "mapped_value:f64:err", "typed-evaluator:order-mismatch", "bus_date_range:ok", "bus_date_range:err", "curve:order-switch-sequence"] {
            v.push(c.to_string());
        }
        for k in JKINDS {
            v.push(format!("json:{}:loaded", k));
            v.push(format!("json:{}:rejected", k));
            v.push(format!("valid-document:{}", k));
        }
        for m in ["delete", "change-type", "shrink-array", "grow-array", "swap-values", "replace-with-hostile", "targeted-consistency-field", "reshape-array-consistently", "duplicate-field", "truncate"] {
            v.push(format!("mutation:{}", m));
        }
        v.push("tagged:loaded".into());
        v.push("tagged:rejected".into());
        v.push("tagged-via-python:loaded".into());
        v.push("tagged-via-python:rejected".into());
        v.push("tagged-via-python:rejected:non-ascii-text".into());
        v
    }
    fn min_evaluations(&self, tier: Tier) -> u64 {
        tier.pick(300_000, 10_000_000)
    }
    fn rule(&self) -> String {
        "(a) Dual/Dual2::try_new(_from), Ccy / FXPair / FXRate / FXRates::try_new, NamedCal::try_new, get_calendar_by_name with boundary and random arguments (length mismatches, duplicate names, empty lists, 0-8 character and multi-byte currency codes, random quote multigraphs incl. zero / negative rates, calendar strings over names , | spaces garbage); every Ok is checked against the type's shape invariants and against an independent validity oracle. (b) add_bus_days, lag, add_days for ALL 256 day counts x both flags, roll and add_months for offsets landing in 1970-2200 x roll days 1-31 x every RollDay / Modifier, on the calendar zoo. (c) csolve with arbitrary site / data lengths, repeated, end-point-only and out-of-domain sites, left_n / right_n up to k+2, both allow_lsq, evaluation before csolve, index_value without base, get_roll(Unspecified); the typed spline evaluators ppdnev_single_dual / _dual2 on all three spline types (an order-mismatched abscissa must give Err) and mapped_value for f64 / Dual / Dual2 abscissae; bus_date_range / cal_date_range for any two dates in either order; Curve::set_ad_order sequences with index_value after each. (a') on every accepted market: FXRates::update with quoted, inverted, member-currency-cross and foreign pairs, zero / negative / hostile / dual values, empty and duplicated lists, and FXRates::set_ad_order switches, shape invariants re-checked after every step. (d) valid JSON documents of every kind mutated structurally (delete / duplicate a field, change a type, shrink / grow an array, swap values, hostile replacements, targeted edits of consistency fields, truncation) and loaded through the per-type entry points, the tagged container and the Python-exposed from_json function itself (which must agree with the container on accept / reject and kind). Monitor: catch_unwind around every call + invariant checker on every Ok; worker processes with breadcrumbs observe aborts. distinct_nontrivial = distinct (kind, mutation, text) / generated inputs.".into()
    }
    fn assumptions(&self) -> Vec<String> {
        vec![
            "shape invariants asserted: Dual vars/dual lengths; Dual2 also dual2 n x n; Ccy 3 lower-case bytes; FXPair distinct currencies; FXRates currencies = quotes + 1 and all n^2 rates present; NamedCal behaves as the union its name denotes; PPSpline n = len(t) - k, t non-decreasing, c absent or of length n".into(),
            "Cal::new with week-mask entries > 6 is outside the documented range and is not called".into(),
        ]
    }
    fn run_case(&mut self, ctx: &mut Ctx, phase: usize, idx: u64, rng: &mut Rng) {
        match phase {
            0 => {
                constructors(ctx, rng);
                ctx.distinct(hash_u64s(&[0xc0, idx]));
            }
            1 => {
                let y0 = 1975 + rng.range_i(0, 210);
                let z0 = days_from_civil(y0, 1, 1);
                let z1 = days_from_civil(y0 + 2, 12, 31);
                let spec = gen_calspec(rng, z0, z1);
                let starts: Vec<i64> = (0..ctx.tier.pick(6, 12)).map(|_| z0 + rng.range_i(0, z1 - z0)).collect();
                ctx.crumb(&format!("date arithmetic on {}", spec.describe()));
                match build_cal(&spec) {
                    Some(any) => {
                        if any.is_wrapped() {
                            ctx.class("calendar:inside-CalType-container");
                        }
                        with_cal!(&any, c => date_arithmetic(ctx, c, &spec, &starts, rng));
                    }
                    None => ctx.harness_error("calendar build".into()),
                }
                ctx.distinct(hash_u64s(&[0xda, idx]));
                ctx.sample("date-arithmetic", || json!({"calendar": spec.describe(), "starts": starts.len(), "day_counts": "-128..=127"}));
            }
            2 => {
                spline_calls(ctx, rng);
                ctx.distinct(hash_u64s(&[0x5b, idx]));
            }
            _ => json_mutation(ctx, rng, idx),
        }
    }
}
