//! Curve generators and closed-form interpolation oracles (evaluated in R-AD so that the same
//! formulas give values for C11 and derivatives for C12).

use crate::refad::{Noise, RNum};
use crate::rng::Rng;
use chrono::{DateTime, NaiveDateTime};
use serde_json::{json, Value};

pub const RULES: [&str; 5] = ["linear", "log_linear", "linear_zero_rate", "flat_forward", "flat_backward"];

pub fn ts_to_ndt(ts: i64) -> NaiveDateTime {
    DateTime::from_timestamp(ts, 0).expect("harness: valid timestamp").naive_utc()
}

/// "the interval used for a date is the one whose right end is the first node on or after it,
/// clamped to the first and last intervals" - by linear scan
pub fn interval_index(ts: &[i64], x: i64) -> usize {
    let n = ts.len();
    let mut j = n; // first node >= x
    for (k, t) in ts.iter().enumerate() {
        if *t >= x {
            j = k;
            break;
        }
    }
    if j == 0 {
        0
    } else if j >= n {
        n - 2
    } else {
        j - 1
    }
}

pub fn interval_index_f64(ts: &[f64], x: f64) -> usize {
    let n = ts.len();
    let mut j = n;
    for (k, t) in ts.iter().enumerate() {
        if *t >= x {
            j = k;
            break;
        }
    }
    if j == 0 {
        0
    } else if j >= n {
        n - 2
    } else {
        j - 1
    }
}

/// closed form of each rule on the sorted node list (times in seconds, node values as R-AD numbers)
pub fn closed_form(rule: &str, ts: &[i64], vals: &[RNum], x: i64, nz: &mut Noise) -> RNum {
    let i = interval_index(ts, x);
    let (t1, t2) = (ts[i] as f64, ts[i + 1] as f64);
    let (y1, y2) = (&vals[i], &vals[i + 1]);
    let xf = x as f64;
    let lin = |a: &RNum, b: &RNum, w: f64, nz: &mut Noise| -> RNum {
        // a + (b - a) * w
        let d = RNum::sub(b, a, nz);
        let s = RNum::mul(&d, &RNum::constant(w), nz);
        RNum::add(a, &s, nz)
    };
    match rule {
        "linear" => lin(y1, y2, (xf - t1) / (t2 - t1), nz),
        "log_linear" => {
            let (l1, l2) = (RNum::ln(y1, nz), RNum::ln(y2, nz));
            let l = lin(&l1, &l2, (xf - t1) / (t2 - t1), nz);
            RNum::exp(&l, nz)
        }
        "linear_zero_rate" => {
            // continuously compounded zero rate measured from the first node, whose own value is presumed 1
            let t0 = ts[0] as f64;
            let (a1, a2, a) = (t1 - t0, t2 - t0, xf - t0);
            let r2 = RNum::mul(&RNum::ln(y2, nz), &RNum::constant(-1.0 / a2), nz);
            let r = if a1 == 0.0 {
                r2
            } else {
                let r1 = RNum::mul(&RNum::ln(y1, nz), &RNum::constant(-1.0 / a1), nz);
                lin(&r1, &r2, (a - a1) / (a2 - a1), nz)
            };
            let e = RNum::mul(&r, &RNum::constant(-a), nz);
            RNum::exp(&e, nz)
        }
        "flat_forward" => {
            // left node's value up to but excluding the right node
            if x >= ts[i + 1] {
                y2.clone()
            } else {
                y1.clone()
            }
        }
        "flat_backward" => {
            // right node's value after the left node
            if x <= ts[i] {
                y1.clone()
            } else {
                y2.clone()
            }
        }
        _ => panic!("harness: unknown rule"),
    }
}

#[derive(Clone, Debug)]
pub struct CurveSpec {
    pub rule: &'static str,
    /// sorted, distinct
    pub ts: Vec<i64>,
    pub vals: Vec<f64>,
    /// permutation giving the supply order
    pub supply: Vec<usize>,
    pub id: String,
    pub index_base: Option<f64>,
    pub spacing: &'static str,
    pub values_kind: &'static str,
}

impl CurveSpec {
    pub fn describe(&self) -> Value {
        json!({"rule": self.rule, "id": self.id, "index_base": self.index_base, "spacing": self.spacing, "values": self.values_kind,
               "nodes_in_supply_order": self.supply.iter().map(|i| json!([ts_to_ndt(self.ts[*i]).to_string(), self.vals[*i]])).collect::<Vec<_>>()})
    }
    pub fn n(&self) -> usize {
        self.ts.len()
    }
}

const DAY: i64 = 86400;

pub fn gen_curve(r: &mut Rng, rule: &'static str, max_nodes: usize) -> CurveSpec {
    let n = 2 + r.usize(max_nodes - 1);
    // start somewhere in 1971..2150
    let t0 = r.range_i(400 * DAY, 65000 * DAY) + if r.chance(0.3) { r.range_i(0, DAY - 1) } else { 0 };
    let (spacing, mut ts): (&'static str, Vec<i64>) = match r.below(6) {
        0 => ("seconds", {
            let mut v = vec![t0];
            for _ in 1..n {
                let last = *v.last().unwrap();
                v.push(last + 1 + r.range_i(0, 3));
            }
            v
        }),
        1 => ("days", {
            let mut v = vec![t0 - t0 % DAY];
            for _ in 1..n {
                let last = *v.last().unwrap();
                v.push(last + DAY * (1 + r.range_i(0, 2)));
            }
            v
        }),
        2 => ("mixed 1s..10y", {
            let mut v = vec![t0];
            for _ in 1..n {
                let last = *v.last().unwrap();
                let step = match r.below(4) {
                    0 => 1 + r.range_i(0, 59),
                    1 => DAY * (1 + r.range_i(0, 29)),
                    2 => DAY * (30 + r.range_i(0, 700)),
                    _ => DAY * 365 * (1 + r.range_i(0, 9)),
                };
                v.push(last + step);
            }
            v
        }),
        _ => ("months-years", {
            let mut v = vec![t0 - t0 % DAY];
            for _ in 1..n {
                let last = *v.last().unwrap();
                v.push(last + DAY * (20 + r.range_i(0, 1500)));
            }
            v
        }),
    };
    // keep inside chrono's comfortable range
    let cap = 95000 * DAY;
    if *ts.last().unwrap() > cap {
        let shift = *ts.last().unwrap() - cap;
        for t in ts.iter_mut() {
            *t -= shift;
        }
    }
    let (values_kind, vals): (&'static str, Vec<f64>) = match r.below(4) {
        0 => ("discount-factors", {
            // decreasing from 1.0
            let mut v = vec![1.0];
            for k in 1..n {
                let yrs = (ts[k] - ts[0]) as f64 / (365.0 * DAY as f64);
                let rate = r.uniform(-0.01, 0.08);
                v.push((-(rate) * yrs.max(1e-6)).exp() * r.uniform(0.98, 1.0));
            }
            v
        }),
        1 => ("wide 1e-6..1e6", (0..n).map(|_| r.log_uniform(1e-6, 1e6)).collect()),
        2 => ("near-one", (0..n).map(|_| r.uniform(0.9, 1.1)).collect()),
        _ => ("arbitrary positive", (0..n).map(|_| r.log_uniform(0.01, 100.0)).collect()),
    };
    let mut supply: Vec<usize> = (0..n).collect();
    if r.chance(0.8) {
        r.shuffle(&mut supply);
    }
    let id = ["v", "crv", "x_", "eur", "n1_"][r.usize(5)].to_string();
    let index_base = if r.bool() { Some(r.log_uniform(1.0, 500.0)) } else { None };
    CurveSpec { rule, ts, vals, supply, id, index_base, spacing, values_kind }
}

/// query timestamps: every node, +-1 s and +-1 day around every node, midpoints, far before / after
pub fn queries(c: &CurveSpec, r: &mut Rng) -> Vec<(i64, &'static str)> {
    let mut q: Vec<(i64, &'static str)> = vec![];
    let n = c.n();
    for k in 0..n {
        q.push((c.ts[k], "at-node"));
        q.push((c.ts[k] - 1, if k == 0 { "before-first" } else { "just-before-node" }));
        q.push((c.ts[k] + 1, if k == n - 1 { "after-last" } else { "just-after-node" }));
        q.push((c.ts[k] - DAY, "day-before-node"));
        q.push((c.ts[k] + DAY, "day-after-node"));
        if k + 1 < n {
            q.push(((c.ts[k] + c.ts[k + 1]) / 2, "midpoint"));
            if c.ts[k + 1] - c.ts[k] > 2 {
                q.push((c.ts[k] + 1 + r.range_i(0, c.ts[k + 1] - c.ts[k] - 2), "interior"));
            }
        }
    }
    let span = c.ts[n - 1] - c.ts[0];
    q.push((c.ts[0] - span.max(DAY) - r.range_i(0, 400 * DAY), "far-before"));
    q.push((c.ts[n - 1] + span.max(DAY) + r.range_i(0, 400 * DAY), "far-after"));
    // keep within chrono's range and classify precisely
    q.retain(|(t, _)| *t > -20000 * DAY && *t < 150000 * DAY);
    q.iter()
        .map(|(t, _)| {
            let cls = if *t < c.ts[0] {
                "before-first-node"
            } else if *t > c.ts[n - 1] {
                "after-last-node"
            } else if c.ts.contains(t) {
                if *t == c.ts[0] {
                    "at-first-node"
                } else if *t == c.ts[n - 1] {
                    "at-last-node"
                } else {
                    "at-interior-node"
                }
            } else {
                "between-nodes"
            };
            (*t, cls)
        })
        .collect()
}
