//! FX market generators and the R-TREE reference (BFS path products) shared by C09 and C10.

use crate::rng::Rng;
use chrono::NaiveDateTime;
use rateslib::dual::{Dual, Dual2, Number};
use rateslib::fx::rates::{Ccy, FXRate, FXRates};
use serde_json::{json, Value};

pub const CCYS: [&str; 14] = ["usd", "eur", "gbp", "jpy", "chf", "cad", "aud", "nzd", "sek", "nok", "dkk", "sgd", "hkd", "mxn"];

#[derive(Clone, Debug)]
pub enum QuoteVal {
    F(f64),
    /// a quote that is already a dual number with its own variables
    D { v: f64, vars: Vec<String>, coef: Vec<f64> },
    /// second-order quote (accepted, converted down by the default first-order build)
    D2 { v: f64, vars: Vec<String>, coef: Vec<f64> },
}

impl QuoteVal {
    pub fn value(&self) -> f64 {
        match self {
            QuoteVal::F(v) => *v,
            QuoteVal::D { v, .. } => *v,
            QuoteVal::D2 { v, .. } => *v,
        }
    }
    pub fn number(&self) -> Number {
        match self {
            QuoteVal::F(v) => Number::F64(*v),
            QuoteVal::D { v, vars, coef } => Number::Dual(Dual::try_new(*v, vars.clone(), coef.clone()).unwrap()),
            QuoteVal::D2 { v, vars, coef } => Number::Dual2(Dual2::try_new(*v, vars.clone(), coef.clone(), vec![]).unwrap()),
        }
    }
}

#[derive(Clone, Debug)]
pub struct Quote {
    /// indices into the currency list of the market
    pub lhs: usize,
    pub rhs: usize,
    pub val: QuoteVal,
    pub settlement: Option<i64>,
}

#[derive(Clone, Debug)]
pub struct Market {
    pub ccys: Vec<String>,
    pub quotes: Vec<Quote>,
    pub base: Option<usize>,
}

impl Market {
    pub fn n(&self) -> usize {
        self.ccys.len()
    }
    pub fn pair_name(&self, q: &Quote) -> String {
        format!("{}{}", self.ccys[q.lhs], self.ccys[q.rhs])
    }
    pub fn describe(&self) -> Value {
        json!({
            "currencies": self.ccys,
            "base": self.base.map(|b| self.ccys[b].clone()),
            "quotes": self.quotes.iter().map(|q| json!({
                "pair": self.pair_name(q),
                "rate": match &q.val { QuoteVal::F(v) => json!(v), QuoteVal::D{v,vars,coef} => json!({"Dual": {"real": v, "vars": vars, "dual": coef}}), QuoteVal::D2{v,vars,coef} => json!({"Dual2": {"real": v, "vars": vars, "dual": coef}}) },
                "settlement": q.settlement.map(crate::calmodel::fmt_z),
            })).collect::<Vec<_>>(),
        })
    }
    pub fn fx_rates(&self, upper: bool) -> Result<Vec<FXRate>, String> {
        let mut v = vec![];
        for q in self.quotes.iter() {
            let (l, r) = (self.ccys[q.lhs].clone(), self.ccys[q.rhs].clone());
            let (l, r) = if upper { (l.to_uppercase(), r.to_uppercase()) } else { (l, r) };
            match FXRate::try_new(&l, &r, q.val.number(), q.settlement.map(crate::calmodel::to_ndt)) {
                Ok(x) => v.push(x),
                Err(_) => return Err(format!("FXRate::try_new({}, {}) returned Err", l, r)),
            }
        }
        Ok(v)
    }
    pub fn base_ccy(&self) -> Option<Ccy> {
        self.base.map(|b| Ccy::try_new(&self.ccys[b]).unwrap())
    }
    /// Ok(market) / Err(()) of the real constructor (panics are left to the caller's guard)
    pub fn build(&self) -> Result<Result<FXRates, ()>, String> {
        let rates = self.fx_rates(false)?;
        Ok(FXRates::try_new(rates, self.base_ccy()).map_err(|_| ()))
    }
    /// is the quote set a tree spanning all currencies (incl. the base) with consistent settlement?
    pub fn is_valid(&self) -> bool {
        if self.quotes.is_empty() {
            return false;
        }
        let n = self.n();
        let mut used = vec![false; n];
        let mut parent: Vec<usize> = (0..n).collect();
        fn find(p: &mut Vec<usize>, x: usize) -> usize {
            let mut r = x;
            while p[r] != r {
                r = p[r];
            }
            let mut c = x;
            while p[c] != r {
                let nx = p[c];
                p[c] = r;
                c = nx;
            }
            r
        }
        let mut acyclic = true;
        for q in self.quotes.iter() {
            if q.lhs == q.rhs {
                return false;
            }
            used[q.lhs] = true;
            used[q.rhs] = true;
            let (a, b) = (find(&mut parent, q.lhs), find(&mut parent, q.rhs));
            if a == b {
                acyclic = false;
            } else {
                parent[a] = b;
            }
        }
        if let Some(b) = self.base {
            used[b] = true;
        }
        let nodes: Vec<usize> = (0..n).filter(|i| used[*i]).collect();
        let root = find(&mut parent, nodes[0]);
        let connected = nodes.iter().all(|i| find(&mut parent, *i) == root);
        let s0 = self.quotes[0].settlement;
        let settle_ok = self.quotes.iter().all(|q| q.settlement == s0);
        acyclic && connected && self.quotes.len() + 1 == nodes.len() && settle_ok
    }
    /// BFS path from a to b as (quote index, +1 travelled in quoted direction / -1 against)
    pub fn path(&self, a: usize, b: usize) -> Option<Vec<(usize, i32)>> {
        if a == b {
            return Some(vec![]);
        }
        let n = self.n();
        let mut prev: Vec<Option<(usize, usize, i32)>> = vec![None; n];
        let mut seen = vec![false; n];
        let mut queue = std::collections::VecDeque::new();
        seen[a] = true;
        queue.push_back(a);
        while let Some(u) = queue.pop_front() {
            for (qi, q) in self.quotes.iter().enumerate() {
                let (v, s) = if q.lhs == u {
                    (q.rhs, 1)
                } else if q.rhs == u {
                    (q.lhs, -1)
                } else {
                    continue;
                };
                if !seen[v] {
                    seen[v] = true;
                    prev[v] = Some((u, qi, s));
                    queue.push_back(v);
                }
            }
        }
        if !seen[b] {
            return None;
        }
        let mut p = vec![];
        let mut c = b;
        while c != a {
            let (u, qi, s) = prev[c].unwrap();
            p.push((qi, s));
            c = u;
        }
        p.reverse();
        Some(p)
    }
    /// cross a->b as the product of quotes (inverted where travelled backwards) along the path
    pub fn cross(&self, a: usize, b: usize) -> Option<(f64, Vec<(usize, i32)>)> {
        let p = self.path(a, b)?;
        let mut x = 1.0;
        for (qi, s) in p.iter() {
            let q = self.quotes[*qi].val.value();
            if *s > 0 {
                x *= q;
            } else {
                x /= q;
            }
        }
        Some((x, p))
    }
    pub fn diameter_and_maxdeg(&self) -> (usize, usize) {
        let n = self.n();
        let mut deg = vec![0usize; n];
        for q in self.quotes.iter() {
            deg[q.lhs] += 1;
            deg[q.rhs] += 1;
        }
        let mut diam = 0;
        for a in 0..n {
            for b in 0..n {
                if let Some(p) = self.path(a, b) {
                    diam = diam.max(p.len());
                }
            }
        }
        (diam, deg.into_iter().max().unwrap_or(0))
    }
}

/// decode a Pruefer sequence into the edge list of a labelled tree on n vertices
pub fn prufer_edges(n: usize, seq: &[usize]) -> Vec<(usize, usize)> {
    if n == 2 {
        return vec![(0, 1)];
    }
    let mut degree = vec![1usize; n];
    for s in seq {
        degree[*s] += 1;
    }
    let mut edges = vec![];
    for s in seq {
        let leaf = (0..n).find(|i| degree[*i] == 1).unwrap();
        edges.push((leaf, *s));
        degree[leaf] -= 1;
        degree[*s] -= 1;
    }
    let rest: Vec<usize> = (0..n).filter(|i| degree[*i] == 1).collect();
    edges.push((rest[0], rest[1]));
    edges
}

pub fn gen_rate(r: &mut Rng) -> f64 {
    match r.below(8) {
        0 => r.log_uniform(1e-4, 1e-2),
        1 => r.log_uniform(1e2, 1e4),
        _ => r.log_uniform(0.05, 200.0),
    }
}

pub fn gen_quote_val(r: &mut Rng, dual_prob: f64, k: usize) -> QuoteVal {
    let v = gen_rate(r);
    gen_quote_val_at(r, dual_prob, k, v)
}

/// as gen_quote_val but with a given real value (to replace a quote by one of equal value and other derivative content)
pub fn gen_quote_val_at(r: &mut Rng, dual_prob: f64, k: usize, v: f64) -> QuoteVal {
    if r.chance(dual_prob) {
        let nv = 1 + r.usize(2);
        // own variable names; some deliberately shared between quotes
        let vars: Vec<String> = (0..nv).map(|j| if r.chance(0.3) { "shared_var".to_string() } else { format!("own{}_{}", k, j) }).collect();
        let mut uniq: Vec<String> = vec![];
        for x in vars {
            if !uniq.contains(&x) {
                uniq.push(x);
            }
        }
        let coef: Vec<f64> = (0..uniq.len()).map(|_| r.real()).collect();
        if r.chance(0.2) {
            QuoteVal::D2 { v, vars: uniq, coef }
        } else {
            QuoteVal::D { v, vars: uniq, coef }
        }
    } else {
        QuoteVal::F(v)
    }
}

/// a market from an edge list: random orientation, shuffled quote order, random base
pub fn market_from_edges(r: &mut Rng, n: usize, edges: &[(usize, usize)], dual_prob: f64, orient_bits: Option<u64>, order: Option<&[usize]>, base: Option<Option<usize>>) -> Market {
    let mut names: Vec<String> = CCYS.iter().map(|s| s.to_string()).collect();
    r.shuffle(&mut names);
    names.truncate(n);
    let settlement = if r.chance(0.3) { Some(crate::calmodel::days_from_civil(2024, 1, 1) + r.range_i(0, 3000)) } else { None };
    let mut quotes: Vec<Quote> = edges
        .iter()
        .enumerate()
        .map(|(k, (a, b))| {
            let flip = match orient_bits {
                Some(bits) => (bits >> k) & 1 == 1,
                None => r.bool(),
            };
            let (l, rr) = if flip { (*b, *a) } else { (*a, *b) };
            Quote { lhs: l, rhs: rr, val: gen_quote_val(r, dual_prob, k), settlement }
        })
        .collect();
    match order {
        Some(o) => quotes = o.iter().map(|i| quotes[*i].clone()).collect(),
        None => r.shuffle(&mut quotes),
    }
    let base = match base {
        Some(b) => b,
        None => {
            if r.chance(0.3) {
                None
            } else {
                Some(r.usize(n))
            }
        }
    };
    Market { ccys: names, quotes, base }
}

pub fn random_tree_edges(r: &mut Rng, n: usize) -> (Vec<(usize, usize)>, &'static str) {
    match r.below(6) {
        0 => ((0..n - 1).map(|i| (i, i + 1)).collect(), "chain"),
        1 => ((1..n).map(|i| (0, i)).collect(), "star"),
        2 => {
            // caterpillar: a spine with legs
            let spine = (n / 2).max(1);
            let mut e: Vec<(usize, usize)> = (0..spine - 1).map(|i| (i, i + 1)).collect();
            for v in spine..n {
                e.push((r.usize(spine), v));
            }
            (e, "caterpillar")
        }
        3 => {
            // broom: a handle ending in a star
            let handle = (n / 2).max(1);
            let mut e: Vec<(usize, usize)> = (0..handle - 1).map(|i| (i, i + 1)).collect();
            for v in handle..n {
                e.push((handle - 1, v));
            }
            (e, "broom")
        }
        _ => {
            let seq: Vec<usize> = (0..n.saturating_sub(2)).map(|_| r.usize(n)).collect();
            (prufer_edges(n, &seq), "pruefer")
        }
    }
}

pub fn permutations(n: usize) -> Vec<Vec<usize>> {
    fn rec(cur: &mut Vec<usize>, used: &mut Vec<bool>, n: usize, out: &mut Vec<Vec<usize>>) {
        if cur.len() == n {
            out.push(cur.clone());
            return;
        }
        for i in 0..n {
            if !used[i] {
                used[i] = true;
                cur.push(i);
                rec(cur, used, n, out);
                cur.pop();
                used[i] = false;
            }
        }
    }
    let mut out = vec![];
    rec(&mut vec![], &mut vec![false; n], n, &mut out);
    out
}

pub fn num_value(n: &Number) -> f64 {
    match n {
        Number::F64(f) => *f,
        Number::Dual(d) => d.real(),
        Number::Dual2(d) => d.real(),
    }
}

pub fn ndt_opt(z: Option<i64>) -> Option<NaiveDateTime> {
    z.map(crate::calmodel::to_ndt)
}
