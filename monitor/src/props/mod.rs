//! Registry of the per-property monitors.

use crate::sup::Prop;

pub mod adtree;
pub mod c01;
pub mod c02;
pub mod c03;
pub mod c04;
pub mod c05;
pub mod c06;
pub mod c07;
pub mod c08;
pub mod c09;
pub mod c10;
pub mod c11;
pub mod c12;
pub mod c13;
pub mod c14;
pub mod c15;
pub mod c16;
pub mod objgen;
pub mod pylayer;
pub mod curvegen;
pub mod fxgen;
pub mod c17;
pub mod c18;
pub mod c19;
pub mod c20;

pub fn make(id: &str) -> Option<Box<dyn Prop>> {
    match id {
        "C01" => Some(Box::new(c01::C01::new())),
        "C02" => Some(Box::new(c02::C02::new())),
        "C03" => Some(Box::new(c03::C03::new())),
        "C04" => Some(Box::new(c04::C04::new())),
        "C05" => Some(Box::new(c05::C05::new())),
        "C06" => Some(Box::new(c06::C06::new())),
        "C07" => Some(Box::new(c07::C07::new())),
        "C08" => Some(Box::new(c08::C08::new())),
        "C09" => Some(Box::new(c09::C09::new())),
        "C10" => Some(Box::new(c10::C10::new())),
        "C11" => Some(Box::new(c11::C11::new())),
        "C12" => Some(Box::new(c12::C12::new())),
        "C13" => Some(Box::new(c13::C13::new())),
        "C14" => Some(Box::new(c14::C14::new())),
        "C15" => Some(Box::new(c15::C15::new())),
        "C16" => Some(Box::new(c16::C16::new())),
        "C17" => Some(Box::new(c17::C17::new())),
        "C18" => Some(Box::new(c18::C18::new())),
        "C19" => Some(Box::new(c19::C19::new())),
        "C20" => Some(Box::new(c20::C20::new())),
        _ => None,
    }
}

/// Self-tests of the trusted oracles (run by setup.sh; a failure means nothing may be claimed).
pub fn selftest() -> i32 {
    let mut bad = 0;
    let mut run = |name: &str, r: Result<(), String>| match r {
        Ok(()) => println!("selftest {}: ok", name),
        Err(e) => {
            println!("selftest {}: FAILED: {}", name, e);
            bad += 1;
        }
    };
    run("calmodel", crate::calmodel::selftest());
    run("rules", crate::rules::selftest());
    run("refad", crate::refad::selftest());
    run("polyspline", crate::polyspline::selftest());
    run("probe-budget", probe_selftest());
    if bad == 0 {
        0
    } else {
        2
    }
}

/// the probing proxy turns a non-terminating calendar search into an observable event
fn probe_selftest() -> Result<(), String> {
    use crate::calmodel::{to_ndt, Probe, PROBE_BUDGET_MARKER};
    use crate::sup::{guarded, install_panic_hook, Caught};
    use rateslib::calendars::{DateRoll, Modifier};
    struct Never;
    impl DateRoll for Never {
        fn is_weekday(&self, _d: &chrono::NaiveDateTime) -> bool {
            false
        }
        fn is_holiday(&self, _d: &chrono::NaiveDateTime) -> bool {
            false
        }
        fn is_settlement(&self, _d: &chrono::NaiveDateTime) -> bool {
            true
        }
    }
    install_panic_hook();
    let never = Never;
    let p = Probe::new(&never, 5_000);
    match guarded(|| p.roll(&to_ndt(20000), &Modifier::F, false)) {
        Caught::Panic { msg, .. } if msg == PROBE_BUDGET_MARKER => {}
        Caught::Panic { msg, .. } => return Err(format!("unexpected panic {}", msg)),
        Caught::Ok(d) => return Err(format!("a calendar without business days rolled to {}", d)),
    }
    if p.probes.get() < 5_000 {
        return Err("probe counter did not advance".into());
    }
    Ok(())
}
