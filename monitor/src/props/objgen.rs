//! Generators of every serialisable object kind with hostile contents (C16, C20).

use super::curvegen::{gen_curve, ts_to_ndt, CurveSpec, RULES};
use super::fxgen::{market_from_edges, random_tree_edges, Market};
use crate::calmodel::*;
use crate::rng::Rng;
use chrono::{NaiveDate, NaiveDateTime};
use indexmap::IndexMap;
use rateslib::calendars::{Cal, CalType, Convention, Modifier, NamedCal, UnionCal};
use rateslib::dual::{ADOrder, Dual, Dual2, Number};
use rateslib::fx::rates::FXRates;
use rateslib::splines::PPSpline;
use rateslib::verif::VerifCurve;

/// hostile finite doubles: random bit patterns, 17-significant-digit values, sub-normals, +-0,
/// huge / tiny exponents, neighbours of powers of ten
pub fn hostile_f64(r: &mut Rng) -> f64 {
    match r.below(12) {
        0 => r.finite_bits(),
        1 => r.finite_bits(),
        2 => f64::from_bits(r.below(1 << 52)), // sub-normal
        3 => {
            if r.bool() {
                0.0
            } else {
                -0.0
            }
        }
        4 => r.sign() * r.unit() * 10f64.powi(r.range_i(-300, 300) as i32),
        5 => {
            // neighbours of a power of ten
            let p = 10f64.powi(r.range_i(-30, 30) as i32);
            let b = p.to_bits() as i64 + r.range_i(-3, 3);
            f64::from_bits(b as u64)
        }
        6 => r.sign() * (r.next() % 100_000_000_000_000_000u64) as f64 / 1e16, // 17 significant digits
        7 => [f64::MAX, f64::MIN, f64::MIN_POSITIVE, f64::EPSILON, 1.0 / 3.0, 0.1, 2.0f64.powi(-1074), 5e-324, 1.7976931348623157e308][r.usize(9)],
        8 => r.real(),
        9 => (r.range_i(-1000, 1000) as f64) / 8.0,
        _ => r.sign() * r.log_uniform(1e-12, 1e12),
    }
}

pub fn hostile_name(r: &mut Rng, k: usize) -> String {
    match r.below(10) {
        0 => format!("q\"uote{}", k),
        1 => format!("back\\slash{}", k),
        2 => format!("ctl\u{1}\n\t{}", k),
        3 => format!("\u{00e9}\u{4e2d}\u{1F600}{}", k),
        4 => {
            if k == 0 {
                String::new()
            } else {
                format!("{}", k)
            }
        }
        5 => format!(" sp ace {} ", k),
        6 => format!("{}{}", "long".repeat(20), k),
        7 => format!("fx_eurusd{}", k),
        _ => format!("v{}", k),
    }
}

pub fn gen_names(r: &mut Rng, n: usize) -> Vec<String> {
    // a third of the variable lists are drawn from one small pool in a random order, so that the numbers held
    // by one object (curve nodes, spline coefficients) and numbers loaded one after the other often carry the
    // SAME names in DIFFERENT orders
    if n >= 1 && n <= 3 && r.chance(0.35) {
        let mut pool: Vec<String> = ["u", "v", "w"].iter().map(|s| s.to_string()).collect();
        r.shuffle(&mut pool);
        pool.truncate(n);
        return pool;
    }
    let mut v: Vec<String> = vec![];
    let mut k = 0;
    while v.len() < n {
        let s = hostile_name(r, k);
        if !v.contains(&s) {
            v.push(s);
        }
        k += 1;
    }
    v
}

pub fn gen_dual(r: &mut Rng) -> Dual {
    let n = r.usize(5);
    let names = gen_names(r, n);
    let g: Vec<f64> = (0..n).map(|_| hostile_f64(r)).collect();
    Dual::try_new(hostile_f64(r), names, g).unwrap()
}

pub fn gen_dual2(r: &mut Rng) -> Dual2 {
    let n = r.usize(4);
    let names = gen_names(r, n);
    let g: Vec<f64> = (0..n).map(|_| hostile_f64(r)).collect();
    let mut d2 = vec![0.0; n * n];
    // the constructor takes any n x n block: one in three is NOT symmetric (what arithmetic produces is, but
    // symmetry is not an invariant of the type, and a stored object must come back as it was)
    let symmetric = !r.chance(0.34);
    for i in 0..n {
        for j in i..n {
            let x = hostile_f64(r);
            d2[i * n + j] = x;
            d2[j * n + i] = if symmetric { x } else { hostile_f64(r) };
        }
    }
    Dual2::try_new(hostile_f64(r), names, g, d2).unwrap()
}

pub fn gen_datetime(r: &mut Rng) -> NaiveDateTime {
    let z = r.range_i(Z_1970, z_2200_end());
    let (y, m, d) = civil_from_days(z);
    let date = NaiveDate::from_ymd_opt(y as i32, m as u32, d as u32).unwrap();
    if r.chance(0.7) {
        date.and_hms_opt(0, 0, 0).unwrap()
    } else if r.bool() {
        date.and_hms_opt(r.below(24) as u32, r.below(60) as u32, r.below(60) as u32).unwrap()
    } else {
        date.and_hms_nano_opt(r.below(24) as u32, r.below(60) as u32, r.below(60) as u32, r.below(1_000_000_000) as u32).unwrap()
    }
}

pub fn gen_cal(r: &mut Rng) -> Cal {
    let n = r.usize(40);
    let hol: Vec<NaiveDateTime> = (0..n).map(|_| gen_datetime(r)).collect();
    Cal::new(hol, gen_week_mask(r))
}

pub fn gen_union(r: &mut Rng) -> UnionCal {
    let nm = 1 + r.usize(3);
    let members: Vec<Cal> = (0..nm).map(|_| if r.chance(0.5) { gen_cal(r) } else { rateslib::calendars::get_calendar_by_name(BUILTIN[r.usize(14)]).unwrap() }).collect();
    let settle = match r.below(3) {
        0 => None,
        1 => Some(vec![]),
        _ => Some((0..1 + r.usize(2)).map(|_| gen_cal(r)).collect()),
    };
    UnionCal::new(members, settle)
}

pub fn gen_named(r: &mut Rng) -> NamedCal {
    let s = gen_named_string(r);
    let s = if r.chance(0.3) { s.to_uppercase() } else { s };
    NamedCal::try_new(&s).unwrap()
}

/// A named calendar made by the Python-facing constructor from a free spelling of a valid name: mixed case and,
/// for the padded styles, white space around members and separators. Returns the object (from the clean
/// name through the core constructor when the Python-facing one refuses the spelling), the spelling and
/// the labels of what was tried.
pub fn gen_named_spelled(r: &mut Rng) -> (NamedCal, String, Vec<String>) {
    let clean = gen_named_string(r);
    let style = r.below(4);
    let ws = |r: &mut Rng| match r.below(4) {
        0 => " ",
        1 => "  ",
        2 => "\t",
        _ => "",
    };
    let mut s = String::new();
    if style >= 2 {
        s.push_str(ws(r));
    }
    for ch in clean.chars() {
        let c = if r.chance(0.3) { ch.to_ascii_uppercase() } else { ch };
        if style >= 1 && (ch == ',' || ch == '|') {
            s.push_str(ws(r));
            s.push(c);
            s.push_str(ws(r));
        } else {
            s.push(c);
        }
    }
    if style >= 2 {
        s.push_str(ws(r));
    }
    let padded = s.chars().any(|c| c.is_whitespace());
    let mut labels = vec![format!("namedcal:python-constructor:{}-spelling", if padded { "padded" } else { "plain" })];
    match NamedCal::verif_py_new(s.clone()) {
        Ok(c) => {
            labels.push(format!("namedcal:python-constructor:{}-spelling:accepted", if padded { "padded" } else { "plain" }));
            (c, s, labels)
        }
        Err(()) => {
            labels.push(format!("namedcal:python-constructor:{}-spelling:refused", if padded { "padded" } else { "plain" }));
            (NamedCal::try_new(&clean).unwrap(), s, labels)
        }
    }
}

pub fn gen_caltype(r: &mut Rng) -> CalType {
    match r.below(3) {
        0 => CalType::Cal(gen_cal(r)),
        1 => CalType::UnionCal(gen_union(r)),
        _ => CalType::NamedCal(gen_named(r)),
    }
}

pub fn gen_market(r: &mut Rng) -> Market {
    let n = 2 + r.usize(6);
    let (edges, _) = random_tree_edges(r, n);
    let mut m = market_from_edges(r, n, &edges, 0.3, None, None, None);
    // hostile but valid positive rates
    for q in m.quotes.iter_mut() {
        if let super::fxgen::QuoteVal::F(v) = &mut q.val {
            if r.chance(0.5) {
                let x = hostile_f64(r).abs();
                if x.is_finite() && x > 1e-30 && x < 1e30 {
                    *v = x;
                }
            }
        }
    }
    m
}

/// returns (object, model of the latest quotes, final order, successful updates, second_order_descent)
/// second_order_descent: the matrix now held was computed at second order (it is at order 2, or was
/// cast down from an order-2 matrix without a rebuild); its values may differ in the last bit from a
/// first-order build (see DESIGN 9.3, C16)
pub fn gen_fxrates(r: &mut Rng) -> (FXRates, Market, usize, usize, bool) {
    let (a, b, c, d, e, _) = gen_fxrates_h(r);
    (a, b, c, d, e)
}

/// as gen_fxrates, plus the number of update attempts that had to be refused
pub fn gen_fxrates_h(r: &mut Rng) -> (FXRates, Market, usize, usize, bool, usize) {
    let mut hist = 0usize;
    let mut refused = 0usize;
    // (order, descends from a second-order computation) of the matrix currently held
    let mut st: (usize, bool) = (1, false);
    let step = |st: &mut (usize, bool), to: usize| {
        *st = match (st.0, to) {
            (a, b) if a == b => *st,
            (_, 2) => (2, true),      // rebuilt (from 0) or raised: computed at second order
            (0, 1) => (1, false),     // rebuilt at first order
            (2, b) => (b, true),      // cast down, values kept
            (1, 0) => (0, st.1),      // cast down, values kept
            _ => *st,
        }
    };
    let m = gen_market(r);
    let mut m = m;
    let mut fx = m.build().unwrap().unwrap();
    let _ = rateslib::verif::fx_take_trace();
    // half of the objects have lived a little before being saved: quote updates and order switches
    if r.chance(0.5) {
        for _ in 0..1 + r.usize(3) {
            if r.chance(0.25) {
                // an update that must be refused and must leave the object as it was: a pair the market does not
                // quote (inverted or foreign), or one quote moved to another settlement date than the others
                let q = m.quotes[r.usize(m.quotes.len())].clone();
                let (l, rr, st) = match r.below(3) {
                    0 if m.quotes.len() >= 2 => (m.ccys[q.lhs].clone(), m.ccys[q.rhs].clone(), Some(q.settlement.unwrap_or(20000) + 1 + r.range_i(0, 5))),
                    1 => (m.ccys[q.rhs].clone(), m.ccys[q.lhs].clone(), q.settlement),
                    _ => ("xof".to_string(), m.ccys[q.lhs].clone(), q.settlement),
                };
                if let Ok(x) = rateslib::fx::rates::FXRate::try_new(&l, &rr, rateslib::dual::Number::F64(r.uniform(0.5, 2.0)), st.map(crate::calmodel::to_ndt)) {
                    let _ = fx.update(vec![x]);
                    refused += 1;
                }
            } else if r.chance(0.7) {
                let k = 1 + r.usize(m.quotes.len());
                let mut ids: Vec<usize> = (0..m.quotes.len()).collect();
                r.shuffle(&mut ids);
                ids.truncate(k);
                let mut ups = vec![];
                let mut vals = vec![];
                for i in ids.iter() {
                    let q = &m.quotes[*i];
                    let x = hostile_f64(r).abs();
                    let x = if x.is_finite() && x > 1e-30 && x < 1e30 { x } else { r.uniform(0.5, 2.0) };
                    let nv = super::fxgen::QuoteVal::F(x);
                    ups.push(rateslib::fx::rates::FXRate::try_new(&m.ccys[q.lhs], &m.ccys[q.rhs], nv.number(), q.settlement.map(crate::calmodel::to_ndt)).unwrap());
                    vals.push((*i, nv));
                }
                if fx.update(ups).is_ok() {
                    for (i, nv) in vals {
                        m.quotes[i].val = nv;
                    }
                    hist += 1;
                    st = (1, false); // an update rebuilds at first order
                }
            } else {
                let o = r.usize(3);
                let _ = fx.set_ad_order([ADOrder::Zero, ADOrder::One, ADOrder::Two][o]);
                step(&mut st, o);
            }
        }
        let _ = rateslib::verif::fx_take_trace();
    }
    let order = r.usize(3);
    let _ = fx.set_ad_order([ADOrder::Zero, ADOrder::One, ADOrder::Two][order]);
    step(&mut st, order);
    (fx, m, order, hist, st.1, refused)
}

pub struct CurveObj {
    pub curve: VerifCurve,
    pub spec: CurveSpec,
    pub order: usize,
    pub rule: String,
}

pub fn gen_curve_obj(r: &mut Rng) -> CurveObj {
    let null = r.chance(0.12);
    let rule: &'static str = RULES[r.usize(5)];
    let mut spec = gen_curve(r, rule, 8);
    // hostile but positive node values
    for v in spec.vals.iter_mut() {
        if r.chance(0.5) {
            let x = hostile_f64(r).abs();
            if x.is_finite() && x > 1e-200 && x < 1e200 {
                *v = x;
            }
        }
    }
    let order = r.usize(3);
    let mut m: IndexMap<NaiveDateTime, Number> = IndexMap::new();
    let shared_names = r.chance(0.4);
    for i in spec.supply.iter() {
        let v = spec.vals[*i];
        // node numbers either carry one variable of their own or two shared names in a per-node order
        let shared = if shared_names { Some(if r.bool() { vec!["p".to_string(), "q".to_string()] } else { vec!["q".to_string(), "p".to_string()] }) } else { None };
        let num = match r.below(4) {
            0 => match &shared {
                Some(nm) => Number::Dual(Dual::try_new(v, nm.clone(), vec![hostile_f64(r), hostile_f64(r)]).unwrap()),
                None => Number::Dual(Dual::try_new(v, vec![format!("own{}", i)], vec![hostile_f64(r)]).unwrap()),
            },
            1 => match &shared {
                Some(nm) => {
                    let x = hostile_f64(r);
                    Number::Dual2(Dual2::try_new(v, nm.clone(), vec![hostile_f64(r), hostile_f64(r)], vec![hostile_f64(r), x, x, hostile_f64(r)]).unwrap())
                }
                None => Number::Dual2(Dual2::try_new(v, vec![format!("own{}", i)], vec![hostile_f64(r)], vec![hostile_f64(r)]).unwrap()),
            },
            _ => Number::F64(v),
        };
        m.insert(ts_to_ndt(spec.ts[*i]), num);
    }
    let cal = gen_caltype(r);
    let rule_name = if null { "null" } else { rule };
    // every day-count convention and every modifier the library knows
    let conv = [
        Convention::One, Convention::OnePlus, Convention::Act365F, Convention::Act365FPlus, Convention::Act360, Convention::ThirtyE360,
        Convention::Thirty360, Convention::Thirty360ISDA, Convention::ActActISDA, Convention::ActActICMA, Convention::Bus252,
    ][r.usize(11)];
    let md = [Modifier::Act, Modifier::F, Modifier::ModF, Modifier::P, Modifier::ModP][r.usize(5)];
    let ib = if r.bool() { Some(hostile_f64(r)) } else { None };
    spec.index_base = ib;
    let id = hostile_name(r, 3);
    spec.id = id.clone();
    let mut curve = VerifCurve::new(m, rule_name, [ADOrder::Zero, ADOrder::One, ADOrder::Two][order], &id, conv, md, cal, ib).expect("curve construction");
    // some curves have lived before being saved: a few derivative-order switches
    let mut order = order;
    if r.chance(0.4) {
        for _ in 0..1 + r.usize(3) {
            order = r.usize(3);
            curve.set_ad_order([ADOrder::Zero, ADOrder::One, ADOrder::Two][order]);
        }
    }
    CurveObj { curve, spec, order, rule: rule_name.to_string() }
}

pub enum SplineObj {
    F(PPSpline<f64>),
    D(PPSpline<Dual>),
    D2(PPSpline<Dual2>),
}

pub fn gen_spline(r: &mut Rng) -> SplineObj {
    let k = 1 + r.usize(5);
    let (mut t, _) = super::c14::gen_knots(r, k, 5);
    if r.chance(0.3) {
        // hostile knot values (still non-decreasing)
        let mut v: Vec<f64> = (0..t.len()).map(|_| hostile_f64(r)).filter(|x| x.is_finite()).collect();
        while v.len() < t.len() {
            v.push(hostile_f64(r));
        }
        v.sort_by(|a, b| a.partial_cmp(b).unwrap());
        t = v;
    }
    let n = t.len() - k;
    let solved = r.chance(0.7);
    match r.below(3) {
        0 => SplineObj::F(PPSpline::new(k, t, if solved { Some((0..n).map(|_| hostile_f64(r)).collect()) } else { None })),
        1 => SplineObj::D(PPSpline::new(k, t, if solved { Some((0..n).map(|_| gen_dual(r)).collect()) } else { None })),
        _ => SplineObj::D2(PPSpline::new(k, t, if solved { Some((0..n).map(|_| gen_dual2(r)).collect()) } else { None })),
    }
}
