//! The Python-facing layer - the `#[pymethods]` of rust/**/*_py.rs, which is what a Python user actually
//! calls (`x - y` is `__sub__` / `__rsub__`, `fxr.fx_array` is `fx_array_py`, `cal.roll(..)` is `roll_py`) -
//! reached through the `verif_py_*` hooks. The oracle is the core operation each method stands for: the layer
//! must hand back exactly (bit for bit) what the core gives, refuse what the core refuses, and never abort.

use crate::rng::Rng;
use crate::sup::{guarded, is_harness_location, short_loc, Caught, Ctx};
use crate::util::fj;
use num_traits::{Pow, Signed};
use rateslib::dual::{Dual, Dual2, Gradient1, Gradient2, MathFuncs, Number, Vars};
use serde_json::{json, Value};

const NAMES: [&str; 4] = ["x", "y", "z", "w"];

fn bits(a: f64, b: f64) -> bool {
    a.to_bits() == b.to_bits() || (a.is_nan() && b.is_nan())
}

/// equal as numbers: value, the same variable names (in any order - C03: the layout is not part of the
/// result), and every derivative bit for bit under its name
pub fn same_dual(a: &Dual, b: &Dual) -> bool {
    if !bits(a.real(), b.real()) || a.vars().len() != b.vars().len() || a.dual().len() != a.vars().len() || b.dual().len() != b.vars().len() {
        return false;
    }
    a.vars().iter().enumerate().all(|(i, n)| match b.vars().get_index_of(n) {
        Some(j) => bits(a.dual()[i], b.dual()[j]),
        None => false,
    })
}

pub fn same_dual2(a: &Dual2, b: &Dual2) -> bool {
    let n = a.vars().len();
    if !bits(a.real(), b.real()) || n != b.vars().len() || a.dual().len() != n || b.dual().len() != n || a.dual2().dim() != (n, n) || b.dual2().dim() != (n, n) {
        return false;
    }
    let map: Vec<Option<usize>> = a.vars().iter().map(|x| b.vars().get_index_of(x)).collect();
    if map.iter().any(|m| m.is_none()) {
        return false;
    }
    (0..n).all(|i| {
        let bi = map[i].unwrap();
        bits(a.dual()[i], b.dual()[bi]) && (0..n).all(|j| bits(a.dual2()[[i, j]], b.dual2()[[bi, map[j].unwrap()]]))
    })
}

fn djson(d: &Dual) -> Value {
    json!({"real": fj(d.real()), "vars": d.vars().iter().cloned().collect::<Vec<_>>(), "dual": d.dual().iter().map(|x| fj(*x)).collect::<Vec<_>>()})
}

fn d2json(d: &Dual2) -> Value {
    json!({"real": fj(d.real()), "vars": d.vars().iter().cloned().collect::<Vec<_>>(), "dual": d.dual().iter().map(|x| fj(*x)).collect::<Vec<_>>(), "dual2": d.dual2().iter().map(|x| fj(*x)).collect::<Vec<_>>()})
}

fn gen_names(r: &mut Rng) -> Vec<String> {
    let mut v: Vec<String> = NAMES.iter().map(|s| s.to_string()).collect();
    r.shuffle(&mut v);
    v.truncate(r.usize(4) + if r.chance(0.85) { 1 } else { 0 });
    v.truncate(4);
    v
}

fn gen_value(r: &mut Rng) -> f64 {
    match r.below(12) {
        0 => 0.0,
        1 => 1.0,
        2 => -1.0,
        3 => r.uniform(0.05, 0.95),
        _ => r.real(),
    }
}

pub fn gen_dual(r: &mut Rng, v: f64) -> Dual {
    let names = gen_names(r);
    let g: Vec<f64> = names.iter().map(|_| if r.chance(0.15) { 0.0 } else { r.real() }).collect();
    Dual::try_new(v, names, g).unwrap()
}

pub fn gen_dual2(r: &mut Rng, v: f64) -> Dual2 {
    let names = gen_names(r);
    let n = names.len();
    let g: Vec<f64> = names.iter().map(|_| if r.chance(0.15) { 0.0 } else { r.real() }).collect();
    let mut h = vec![0.0; n * n];
    for i in 0..n {
        for j in i..n {
            let x = if r.chance(0.3) { 0.0 } else { r.real() };
            h[i * n + j] = x;
            h[j * n + i] = x;
        }
    }
    Dual2::try_new(v, names, g, h).unwrap()
}

fn report_panic(ctx: &mut Ctx, pid: &str, what: &str, loc: &str, msg: &str, detail: Value) {
    if is_harness_location(loc) {
        ctx.harness_error(format!("{} {} ({})", loc, msg, what));
    } else {
        ctx.violation(&format!("{}|python-layer|panic|{}|{}", pid, what, short_loc(loc)), json!({"method": what, "input": detail, "location": loc, "message": msg}));
    }
}

macro_rules! dual_layer {
    ($fname:ident, $T:ty, $gen:ident, $same:ident, $js:ident, $tname:expr, $own_variant:ident, $other_variant:ident, $gen_other:ident) => {
        /// one case: a number, one operand of each kind, every operator method of the Python-facing layer
        pub fn $fname(ctx: &mut Ctx, pid: &str, r: &mut Rng) {
            let va = gen_value(r);
            let a: $T = $gen(r, va);
            let vb = loop {
                let v = gen_value(r);
                if v != 0.0 {
                    break v;
                }
            };
            let b: $T = $gen(r, vb);
            let f = vb;
            let foreign = $gen_other(r, vb);
            ctx.crumb(&format!("python layer {} a={} b={}", $tname, $js(&a), $js(&b)));
            // ---- binary operators
            type Core = Box<dyn Fn(&$T, &$T) -> $T>;
            type CoreF = Box<dyn Fn(&$T, f64) -> $T>;
            let table: Vec<(&str, Core, CoreF)> = vec![
                ("__add__", Box::new(|a, o| a + o), Box::new(|a, f| a + f)),
                ("__radd__", Box::new(|a, o| o + a), Box::new(|a, f| f + a)),
                ("__sub__", Box::new(|a, o| a - o), Box::new(|a, f| a - f)),
                ("__rsub__", Box::new(|a, o| o - a), Box::new(|a, f| f - a)),
                ("__mul__", Box::new(|a, o| a * o), Box::new(|a, f| a * f)),
                ("__rmul__", Box::new(|a, o| o * a), Box::new(|a, f| f * a)),
                ("__truediv__", Box::new(|a, o| a / o), Box::new(|a, f| a / f)),
                ("__rtruediv__", Box::new(|a, o| o / a), Box::new(|a, f| f / a)),
            ];
            for (name, core, coref) in table.iter() {
                // same kind
                ctx.eval(3);
                ctx.asserted(3);
                ctx.class(&format!("py:{}:{}", $tname, name));
                let detail = || json!({"type": $tname, "method": name, "self": $js(&a), "other": $js(&b), "float": fj(f)});
                match guarded(|| a.verif_py_binop(name, Number::$own_variant(b.clone()))) {
                    Caught::Ok(Some(Ok(got))) => {
                        let want = core(&a, &b);
                        if !$same(&got, &want) {
                            ctx.violation(&format!("{}|python-layer|{}|{}|same-kind-operand", pid, $tname, name), json!({"input": detail(), "python_layer": $js(&got), "core_operation": $js(&want)}));
                            return;
                        }
                    }
                    Caught::Ok(_) => {
                        ctx.violation(&format!("{}|python-layer|{}|{}|same-kind-operand-refused", pid, $tname, name), detail());
                        return;
                    }
                    Caught::Panic { loc, msg } => {
                        report_panic(ctx, pid, name, &loc, &msg, detail());
                        return;
                    }
                }
                // float operand: the same answer as the core float operator (= promoting the float); the special
                // floats 0, -0 and 1 (Python's sum() starts with 0 + x) included
                for (ff, fcls) in [(f, "float"), (0.0, "float-zero"), (-0.0, "float-negative-zero"), (1.0, "float-one")] {
                    ctx.class(&format!("py:{}:{}:{}", $tname, name, fcls));
                    match guarded(|| a.verif_py_binop(name, Number::F64(ff))) {
                        Caught::Ok(Some(Ok(got))) => {
                            let want = coref(&a, ff);
                            if !$same(&got, &want) {
                                ctx.violation(&format!("{}|python-layer|{}|{}|{}-operand", pid, $tname, name, fcls), json!({"input": detail(), "float_operand": fj(ff), "python_layer": $js(&got), "core_operation": $js(&want)}));
                                return;
                            }
                        }
                        Caught::Ok(_) => {
                            ctx.violation(&format!("{}|python-layer|{}|{}|float-operand-refused", pid, $tname, name), detail());
                            return;
                        }
                        Caught::Panic { loc, msg } => {
                            report_panic(ctx, pid, name, &loc, &msg, detail());
                            return;
                        }
                    }
                }
                // the other derivative order is refused, not computed
                match guarded(|| a.verif_py_binop(name, Number::$other_variant(foreign.clone()))) {
                    Caught::Ok(Some(Err(()))) => {}
                    Caught::Ok(_) => {
                        ctx.violation(&format!("{}|python-layer|{}|{}|other-order-computed", pid, $tname, name), detail());
                        return;
                    }
                    Caught::Panic { loc, msg } => {
                        report_panic(ctx, pid, name, &loc, &msg, detail());
                        return;
                    }
                }
            }
            // ---- power: a float exponent only
            {
                let p = *r.choose(&[2.0, -1.0, 0.5, 3.0, 0.0, 1.0, 1.7, -2.0]);
                ctx.eval(2);
                ctx.asserted(2);
                ctx.class(&format!("py:{}:__pow__", $tname));
                match guarded(|| (a.verif_py_binop("__pow__", Number::F64(p)), a.verif_py_binop("__pow__", Number::$own_variant(b.clone())))) {
                    Caught::Ok((Some(Ok(got)), Some(Err(())))) => {
                        let want = a.clone().pow(p);
                        if !$same(&got, &want) {
                            ctx.violation(&format!("{}|python-layer|{}|__pow__", pid, $tname), json!({"self": $js(&a), "power": p, "python_layer": $js(&got), "core_operation": $js(&want)}));
                            return;
                        }
                    }
                    Caught::Ok(_) => {
                        ctx.violation(&format!("{}|python-layer|{}|__pow__|wrong-acceptance", pid, $tname), json!({"self": $js(&a), "power": p}));
                        return;
                    }
                    Caught::Panic { loc, msg } => {
                        report_panic(ctx, pid, "__pow__", &loc, &msg, json!({"self": $js(&a), "power": p}));
                        return;
                    }
                }
            }
            // ---- comparisons
            {
                let same_val: $T = $gen(r, va);
                let promoted = |x: f64| -> $T { <$T>::new(x, vec![]) };
                for (o, oname) in [(&b, "other-value"), (&same_val, "equal-value")] {
                    let fo = o.real();
                    let cases: Vec<(&str, bool, bool)> = vec![
                        ("__eq__", &a == o, a == promoted(fo)),
                        ("__lt__", &a < o, a < fo),
                        ("__le__", &a <= o, a <= fo),
                        ("__gt__", &a > o, a > fo),
                        ("__ge__", &a >= o, a >= fo),
                    ];
                    for (name, want_d, want_f) in cases {
                        ctx.eval(3);
                        ctx.asserted(3);
                        ctx.class(&format!("py:{}:{}:{}", $tname, name, oname));
                        let detail = || json!({"type": $tname, "method": name, "self": $js(&a), "other": $js(o)});
                        match guarded(|| (a.verif_py_cmp(name, Number::$own_variant(o.clone())), a.verif_py_cmp(name, Number::F64(fo)), a.verif_py_cmp(name, Number::$other_variant(foreign.clone())))) {
                            Caught::Ok((Some(Ok(gd)), Some(Ok(gf)), Some(Err(())))) => {
                                if gd != want_d || gf != want_f {
                                    ctx.violation(&format!("{}|python-layer|{}|{}", pid, $tname, name), json!({"input": detail(), "python_layer (number, float)": [gd, gf], "core_comparison (number, float)": [want_d, want_f]}));
                                    return;
                                }
                            }
                            Caught::Ok(_) => {
                                ctx.violation(&format!("{}|python-layer|{}|{}|wrong-acceptance", pid, $tname, name), detail());
                                return;
                            }
                            Caught::Panic { loc, msg } => {
                                report_panic(ctx, pid, name, &loc, &msg, detail());
                                return;
                            }
                        }
                    }
                }
            }
            // ---- unary methods (arguments kept inside each function's domain)
            {
                let (vp, vu) = (r.log_uniform(0.05, 20.0), r.uniform(0.02, 0.98));
                let pos: $T = $gen(r, vp);
                let unit: $T = $gen(r, vu);
                let un: Vec<(&str, &$T, $T)> = vec![
                    ("__neg__", &a, -&a),
                    ("__abs__", &a, Signed::abs(&a)),
                    ("__exp__", &unit, MathFuncs::exp(&unit)),
                    ("__log__", &pos, MathFuncs::log(&pos)),
                    ("__norm_cdf__", &a, MathFuncs::norm_cdf(&a)),
                    ("__norm_inv_cdf__", &unit, MathFuncs::inv_norm_cdf(&unit)),
                ];
                for (name, x, want) in un.iter() {
                    ctx.eval(1);
                    ctx.asserted(1);
                    ctx.class(&format!("py:{}:{}", $tname, name));
                    match guarded(|| x.verif_py_unary(name)) {
                        Caught::Ok(Some(got)) if $same(&got, want) => {}
                        Caught::Ok(got) => {
                            ctx.violation(&format!("{}|python-layer|{}|{}", pid, $tname, name), json!({"self": $js(x), "python_layer": got.as_ref().map(|g| $js(g)), "core_operation": $js(want)}));
                            return;
                        }
                        Caught::Panic { loc, msg } => {
                            report_panic(ctx, pid, name, &loc, &msg, json!({"self": $js(x)}));
                            return;
                        }
                    }
                }
                ctx.asserted(1);
                if !bits(a.verif_py_float(), a.real()) {
                    ctx.violation(&format!("{}|python-layer|{}|__float__", pid, $tname), json!({"self": $js(&a), "python_layer": fj(a.verif_py_float())}));
                }
            }
        }
    };
}

dual_layer!(dual_layer, Dual, gen_dual, same_dual, djson, "Dual", Dual, Dual2, gen_dual2);
dual_layer!(dual2_layer, Dual2, gen_dual2, same_dual2, d2json, "Dual2", Dual2, Dual, gen_dual);

/// conversions and the shared-list constructor of the layer
pub fn dual_conversions(ctx: &mut Ctx, pid: &str, r: &mut Rng) {
    let (v1, v2) = (gen_value(r), gen_value(r));
    let a = gen_dual(r, v1);
    let c = gen_dual2(r, v2);
    ctx.eval(4);
    ctx.asserted(4);
    ctx.class("py:conversions");
    let up = a.verif_py_to_dual2();
    let down = c.verif_py_to_dual();
    if !same_dual2(&up, &Dual2::from(a.clone())) || !same_dual(&down, &Dual::from(c.clone())) {
        ctx.violation(&format!("{}|python-layer|to_dual2-or-to_dual", pid), json!({"dual": djson(&a), "to_dual2": d2json(&up), "dual2": d2json(&c), "to_dual": djson(&down)}));
        return;
    }
    // vars_from: names drawn from the other number's list - a subset or all of them, in ANY order, with explicit
    // derivative arrays of the right or of a wrong length: exactly what the core try_new_from gives
    // (same number by name, same storage sharing, same refusals), and never an abort
    let mut sub: Vec<String> = a.vars().iter().filter(|_| r.chance(0.8)).cloned().collect();
    r.shuffle(&mut sub);
    let glen = match r.below(5) {
        0 => 0,
        1 => sub.len() + 1,
        2 => sub.len().saturating_sub(1),
        _ => sub.len(),
    };
    let g: Vec<f64> = (0..glen).map(|_| r.real()).collect();
    let mut sub2: Vec<String> = c.vars().iter().filter(|_| r.chance(0.8)).cloned().collect();
    r.shuffle(&mut sub2);
    let n2 = sub2.len();
    let g2len = match r.below(5) {
        0 => 0,
        1 => n2 + 1,
        _ => n2,
    };
    let g2: Vec<f64> = (0..g2len).map(|_| r.real()).collect();
    let h2: Vec<f64> = match r.below(4) {
        0 => vec![],
        1 => vec![0.5; n2 * n2 + 1],
        _ => {
            let mut h = vec![0.0; n2 * n2];
            for i in 0..n2 {
                for j in i..n2 {
                    let x = r.real();
                    h[i * n2 + j] = x;
                    h[j * n2 + i] = x;
                }
            }
            h
        }
    };
    ctx.class(if glen == sub.len() || glen == 0 { "py:vars_from:consistent-lengths" } else { "py:vars_from:wrong-lengths" });
    let res = guarded(|| {
        (
            Dual::verif_py_vars_from(&a, 1.25, sub.clone(), g.clone()),
            Dual::try_new_from(&a, 1.25, sub.clone(), g.clone()).map_err(|_| ()),
            Dual2::verif_py_vars_from(&c, 1.25, sub2.clone(), g2.clone(), h2.clone()),
            Dual2::try_new_from(&c, 1.25, sub2.clone(), g2.clone(), h2.clone()).map_err(|_| ()),
        )
    });
    let detail = || json!({"other": djson(&a), "vars": sub, "dual_len": glen, "other2": d2json(&c), "vars2": sub2, "dual_len2": g2len, "dual2_len": h2.len()});
    match res {
        Caught::Ok((got, want, got2, want2)) => {
            let ok = match (&got, &want) {
                (Ok(x), Ok(y)) => same_dual(x, y) && x.ptr_eq(&a) == y.ptr_eq(&a),
                (Err(()), Err(())) => true,
                _ => false,
            };
            let ok2 = match (&got2, &want2) {
                (Ok(x), Ok(y)) => same_dual2(x, y) && x.ptr_eq(&c) == y.ptr_eq(&c),
                (Err(()), Err(())) => true,
                _ => false,
            };
            if !ok || !ok2 {
                ctx.violation(
                    &format!("{}|python-layer|vars_from|{}", pid, if !ok { "Dual" } else { "Dual2" }),
                    json!({"input": detail(), "python_layer": [got.as_ref().map(djson).ok(), got2.as_ref().map(d2json).ok()], "core try_new_from": [want.as_ref().map(djson).ok(), want2.as_ref().map(d2json).ok()]}),
                );
            }
        }
        Caught::Panic { loc, msg } => report_panic(ctx, pid, "vars_from", &loc, &msg, detail()),
    }
}
