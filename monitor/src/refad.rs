//! R-AD: reference forward-mode automatic differentiation on name-keyed maps.
//!
//! A number is {v, g: name -> df/dname, h: (name,name) -> d2f/dname dname}. Derivatives are keyed
//! by *name* (no shared layout, no ndarray), the Hessian is the full second partial (not half) and
//! symmetric by construction (keys are ordered pairs a <= b). Rules are the textbook ones.
//!
//! Tolerance without guesswork: every elementary result can be multiplied by (1 + delta*xi),
//! xi uniform in [-1,1] ("stochastic rounding noise", delta = 2^-36). The spread of several noisy runs
//! around the exact run is an empirical bound on ~1e5 x the rounding error any step-wise accurate
//! implementation can show at that point; monitors accept |real - ref| <= K * spread + tiny.

use crate::rng::Rng;
use std::collections::{BTreeMap, BTreeSet};

pub const DELTA: f64 = 1.4551915228366852e-11; // 2^-36

pub struct Noise {
    pub rng: Rng,
    pub delta: f64,
    /// evaluate a/b as a * b^-1 instead of by the quotient rule: a step-wise accurate implementation
    /// may use either, and the two have different conditioning when terms cancel (x/x)
    pub alt_div: bool,
}

impl Noise {
    pub fn exact() -> Self {
        Noise { rng: Rng::new(0), delta: 0.0, alt_div: false }
    }
    pub fn noisy(seed: u64) -> Self {
        Noise { rng: Rng::new(seed), delta: DELTA, alt_div: seed & 1 == 1 }
    }
    #[inline]
    pub fn n(&mut self, x: f64) -> f64 {
        if self.delta == 0.0 {
            x
        } else {
            // continuous relative perturbation in [-delta, delta]: with +-1 signs two perturbations
            // cancel exactly half of the time and the spread would under-estimate the conditioning
            x * (1.0 + self.delta * (2.0 * self.rng.unit() - 1.0))
        }
    }
}

pub type Key2 = (String, String);

pub fn key2(a: &str, b: &str) -> Key2 {
    if a <= b {
        (a.to_string(), b.to_string())
    } else {
        (b.to_string(), a.to_string())
    }
}

#[derive(Clone, Debug, Default)]
pub struct RNum {
    pub v: f64,
    pub g: BTreeMap<String, f64>,
    pub h: BTreeMap<Key2, f64>,
}

pub fn phi(x: f64) -> f64 {
    (-0.5 * x * x).exp() / (2.0 * std::f64::consts::PI).sqrt()
}

pub fn norm_cdf(x: f64) -> f64 {
    use statrs::distribution::{ContinuousCDF, Normal};
    Normal::new(0.0, 1.0).unwrap().cdf(x)
}

pub fn inv_norm_cdf(x: f64) -> f64 {
    use statrs::distribution::{ContinuousCDF, Normal};
    // statrs panics outside [0, 1]; a noisy run of an ill-conditioned tree can step outside, which
    // the conditioning screen then discards
    if !(x > 0.0 && x < 1.0) {
        return f64::NAN;
    }
    Normal::new(0.0, 1.0).unwrap().inverse_cdf(x)
}

impl RNum {
    pub fn constant(v: f64) -> Self {
        RNum { v, g: BTreeMap::new(), h: BTreeMap::new() }
    }
    /// a variable `name` with value v (unit first derivative)
    pub fn var(v: f64, name: &str) -> Self {
        let mut g = BTreeMap::new();
        g.insert(name.to_string(), 1.0);
        RNum { v, g, h: BTreeMap::new() }
    }
    /// from explicit first derivatives and a (symmetric) full Hessian
    pub fn from_parts(v: f64, names: &[String], g: &[f64], h_full: Option<&[Vec<f64>]>) -> Self {
        let mut gm = BTreeMap::new();
        for (n, x) in names.iter().zip(g.iter()) {
            gm.insert(n.clone(), *x);
        }
        let mut hm = BTreeMap::new();
        if let Some(h) = h_full {
            for i in 0..names.len() {
                for j in i..names.len() {
                    hm.insert(key2(&names[i], &names[j]), h[i][j]);
                }
            }
        }
        RNum { v, g: gm, h: hm }
    }
    pub fn names(&self) -> BTreeSet<String> {
        let mut s: BTreeSet<String> = self.g.keys().cloned().collect();
        for (a, b) in self.h.keys() {
            s.insert(a.clone());
            s.insert(b.clone());
        }
        s
    }
    pub fn gd(&self, n: &str) -> f64 {
        self.g.get(n).copied().unwrap_or(0.0)
    }
    pub fn hd(&self, a: &str, b: &str) -> f64 {
        self.h.get(&key2(a, b)).copied().unwrap_or(0.0)
    }
    /// drop second order
    pub fn first_order(&self) -> RNum {
        RNum { v: self.v, g: self.g.clone(), h: BTreeMap::new() }
    }

    fn union_names(a: &RNum, b: &RNum) -> Vec<String> {
        let mut s = a.names();
        s.extend(b.names());
        s.into_iter().collect()
    }

    pub fn add(a: &RNum, b: &RNum, nz: &mut Noise) -> RNum {
        let names = Self::union_names(a, b);
        let mut r = RNum::constant(nz.n(a.v + b.v));
        for x in &names {
            let t = a.gd(x) + b.gd(x);
            if a.g.contains_key(x) || b.g.contains_key(x) {
                r.g.insert(x.clone(), nz.n(t));
            }
        }
        for k in a.h.keys().chain(b.h.keys()) {
            if !r.h.contains_key(k) {
                let t = a.h.get(k).copied().unwrap_or(0.0) + b.h.get(k).copied().unwrap_or(0.0);
                r.h.insert(k.clone(), nz.n(t));
            }
        }
        r
    }

    pub fn neg(a: &RNum) -> RNum {
        RNum {
            v: -a.v,
            g: a.g.iter().map(|(k, x)| (k.clone(), -x)).collect(),
            h: a.h.iter().map(|(k, x)| (k.clone(), -x)).collect(),
        }
    }

    pub fn sub(a: &RNum, b: &RNum, nz: &mut Noise) -> RNum {
        Self::add(a, &Self::neg(b), nz)
    }

    pub fn mul(a: &RNum, b: &RNum, nz: &mut Noise) -> RNum {
        let names = Self::union_names(a, b);
        let mut r = RNum::constant(nz.n(a.v * b.v));
        for x in &names {
            let t = nz.n(a.gd(x) * b.v) + nz.n(b.gd(x) * a.v);
            r.g.insert(x.clone(), nz.n(t));
        }
        for (i, x) in names.iter().enumerate() {
            for y in names.iter().skip(i) {
                let t = nz.n(a.hd(x, y) * b.v) + nz.n(b.hd(x, y) * a.v) + nz.n(a.gd(x) * b.gd(y)) + nz.n(a.gd(y) * b.gd(x));
                if t != 0.0 || a.h.contains_key(&key2(x, y)) || b.h.contains_key(&key2(x, y)) {
                    r.h.insert(key2(x, y), nz.n(t));
                }
            }
        }
        r
    }

    /// quotient rule, written directly (not as a * b^-1)
    pub fn div(a: &RNum, b: &RNum, nz: &mut Noise) -> RNum {
        if nz.alt_div {
            let inv = Self::powf(b, -1.0, nz);
            return Self::mul(a, &inv, nz);
        }
        let names = Self::union_names(a, b);
        let q = nz.n(a.v / b.v);
        let mut r = RNum::constant(q);
        for x in &names {
            let qb = nz.n(q * b.gd(x));
            let t = nz.n(a.gd(x) - qb) / b.v;
            r.g.insert(x.clone(), nz.n(t));
        }
        for (i, x) in names.iter().enumerate() {
            for y in names.iter().skip(i) {
                let num = a.hd(x, y) - nz.n(r.gd(x) * b.gd(y)) - nz.n(r.gd(y) * b.gd(x)) - nz.n(q * b.hd(x, y));
                let t = nz.n(num) / b.v;
                if t != 0.0 {
                    r.h.insert(key2(x, y), nz.n(t));
                }
            }
        }
        r
    }

    /// chain rule for a scalar function with value f, first derivative d1 and second derivative d2 at a.v
    pub fn chain(a: &RNum, f: f64, d1: f64, d2: f64, nz: &mut Noise) -> RNum {
        let names: Vec<String> = a.names().into_iter().collect();
        let mut r = RNum::constant(nz.n(f));
        let d1 = nz.n(d1);
        let d2 = nz.n(d2);
        for x in &names {
            r.g.insert(x.clone(), nz.n(d1 * a.gd(x)));
        }
        for (i, x) in names.iter().enumerate() {
            for y in names.iter().skip(i) {
                let gg = nz.n(a.gd(x) * a.gd(y));
                let t = nz.n(d1 * a.hd(x, y)) + nz.n(d2 * gg);
                if t != 0.0 {
                    r.h.insert(key2(x, y), nz.n(t));
                }
            }
        }
        r
    }

    pub fn powf(a: &RNum, p: f64, nz: &mut Noise) -> RNum {
        let f = a.v.powf(p);
        // the coefficients p and p(p-1) vanish identically for p = 0 and p in {0, 1}: the terms are
        // zero whatever the base, including a base of exactly 0 where 0 * 0^-1 would be NaN
        let d1 = if p == 0.0 { 0.0 } else { p * a.v.powf(p - 1.0) };
        let d2 = if p == 0.0 || p == 1.0 { 0.0 } else { p * (p - 1.0) * a.v.powf(p - 2.0) };
        Self::chain(a, f, d1, d2, nz)
    }
    pub fn exp(a: &RNum, nz: &mut Noise) -> RNum {
        let f = a.v.exp();
        Self::chain(a, f, f, f, nz)
    }
    pub fn ln(a: &RNum, nz: &mut Noise) -> RNum {
        Self::chain(a, a.v.ln(), 1.0 / a.v, -1.0 / (a.v * a.v), nz)
    }
    pub fn norm_cdf(a: &RNum, nz: &mut Noise) -> RNum {
        let p = phi(a.v);
        Self::chain(a, norm_cdf(a.v), p, -a.v * p, nz)
    }
    pub fn inv_norm_cdf(a: &RNum, nz: &mut Noise) -> RNum {
        let y = inv_norm_cdf(a.v);
        let p = phi(y);
        Self::chain(a, y, 1.0 / p, y / (p * p), nz)
    }
    pub fn abs(a: &RNum) -> RNum {
        if a.v < 0.0 {
            Self::neg(a)
        } else {
            a.clone()
        }
    }
    /// a % b = a - b * trunc(a/b), away from the jump
    pub fn rem(a: &RNum, b: &RNum, nz: &mut Noise) -> RNum {
        let d = (a.v / b.v).trunc();
        // the statement defines the remainder as a - b*trunc(a/b); the float `%` is the exactly
        // rounded value of that and lies within the noise band of this evaluation
        Self::sub(a, &Self::mul(&RNum::constant(d), b, nz), nz)
    }
}

// ---------------------------------------------------------------------------------------------
// comparison with the noise band

/// Result of evaluating the same computation exactly and `runs` times with noise.
pub struct Banded {
    pub exact: RNum,
    /// per-component max |noisy - exact|
    pub sv: f64,
    pub sg: BTreeMap<String, f64>,
    pub sh: BTreeMap<Key2, f64>,
}

impl Banded {
    pub fn new(exact: RNum) -> Self {
        Banded { exact, sv: 0.0, sg: BTreeMap::new(), sh: BTreeMap::new() }
    }
    pub fn absorb(&mut self, noisy: &RNum) {
        self.sv = self.sv.max((noisy.v - self.exact.v).abs());
        let names: BTreeSet<String> = self.exact.g.keys().chain(noisy.g.keys()).cloned().collect();
        for n in names {
            let d = (noisy.gd(&n) - self.exact.gd(&n)).abs();
            let e = self.sg.entry(n).or_insert(0.0);
            if d > *e || d.is_nan() {
                *e = d;
            }
        }
        let keys: BTreeSet<Key2> = self.exact.h.keys().chain(noisy.h.keys()).cloned().collect();
        for k in keys {
            let d = (noisy.h.get(&k).copied().unwrap_or(0.0) - self.exact.h.get(&k).copied().unwrap_or(0.0)).abs();
            let e = self.sh.entry(k).or_insert(0.0);
            if d > *e || d.is_nan() {
                *e = d;
            }
        }
    }
    pub fn spread_g(&self, n: &str) -> f64 {
        self.sg.get(n).copied().unwrap_or(0.0)
    }
    pub fn spread_h(&self, a: &str, b: &str) -> f64 {
        self.sh.get(&key2(a, b)).copied().unwrap_or(0.0)
    }
    /// largest magnitude among value, gradient and (if `second`) Hessian entries
    pub fn norm_inf(&self, second: bool) -> f64 {
        let mut m = self.exact.v.abs();
        for x in self.exact.g.values() {
            m = m.max(x.abs());
        }
        if second {
            for x in self.exact.h.values() {
                m = m.max(x.abs());
            }
        }
        m
    }
    pub fn total_spread(&self, second: bool) -> f64 {
        let mut s = self.sv;
        for x in self.sg.values() {
            s += x;
        }
        if second {
            for x in self.sh.values() {
                s += x;
            }
        }
        s
    }
    /// ill-conditioned: the noise moves the result by more than 1e-7 of its size, or not finite
    pub fn ill_conditioned(&self, second: bool) -> bool {
        let t = self.total_spread(second);
        let n = self.norm_inf(second);
        !(t.is_finite() && n.is_finite()) || t > 1e-7 * n.max(1e-300)
    }
}

pub const BAND_K: f64 = 16.0;
pub const BAND_REL: f64 = 64.0 * f64::EPSILON;

/// |real - ref| within K * spread + 64 eps |ref| (+ floor relative to the overall scale)
pub fn within(real: f64, reference: f64, spread: f64, scale: f64) -> bool {
    if real == reference {
        return true;
    }
    if !(real.is_finite() && reference.is_finite()) {
        return real.is_nan() && reference.is_nan();
    }
    let diff = (real - reference).abs();
    let excess = diff - BAND_REL * reference.abs();
    if spread > 0.0 && excess > 0.0 {
        // calibration: how much of the band do correct results use (reported as evidence)
        MAX_BAND_USE.with(|m| {
            if excess / spread > m.get() {
                m.set(excess / spread)
            }
        });
    }
    diff <= BAND_K * spread + BAND_REL * reference.abs() + 1e-15 * f64::EPSILON.sqrt() * scale
}

thread_local! {
    pub static MAX_BAND_USE: std::cell::Cell<f64> = const { std::cell::Cell::new(0.0) };
}

/// largest observed |real-ref| / spread (beyond the 64 eps relative part) on this thread
pub fn max_band_use() -> f64 {
    MAX_BAND_USE.with(|m| m.get())
}

// ---------------------------------------------------------------------------------------------
// self-test of the rules against finite differences of the value function

#[derive(Clone, Debug)]
enum T {
    X(usize),
    C(f64),
    Add(Box<T>, Box<T>),
    Sub(Box<T>, Box<T>),
    Mul(Box<T>, Box<T>),
    Div(Box<T>, Box<T>),
    Pow(Box<T>, f64),
    Exp(Box<T>),
    Ln(Box<T>),
    Ncdf(Box<T>),
    Icdf(Box<T>),
    Abs(Box<T>),
    Neg(Box<T>),
    Rem(Box<T>, Box<T>),
}

fn ev(t: &T, x: &[f64], nz: &mut Noise) -> RNum {
    match t {
        T::X(i) => RNum::var(x[*i], &format!("x{}", i)),
        T::C(c) => RNum::constant(*c),
        T::Add(a, b) => RNum::add(&ev(a, x, nz), &ev(b, x, nz), nz),
        T::Sub(a, b) => RNum::sub(&ev(a, x, nz), &ev(b, x, nz), nz),
        T::Mul(a, b) => RNum::mul(&ev(a, x, nz), &ev(b, x, nz), nz),
        T::Div(a, b) => RNum::div(&ev(a, x, nz), &ev(b, x, nz), nz),
        T::Pow(a, p) => RNum::powf(&ev(a, x, nz), *p, nz),
        T::Exp(a) => RNum::exp(&ev(a, x, nz), nz),
        T::Ln(a) => RNum::ln(&ev(a, x, nz), nz),
        T::Ncdf(a) => RNum::norm_cdf(&ev(a, x, nz), nz),
        T::Icdf(a) => RNum::inv_norm_cdf(&ev(a, x, nz), nz),
        T::Abs(a) => RNum::abs(&ev(a, x, nz)),
        T::Neg(a) => RNum::neg(&ev(a, x, nz)),
        T::Rem(a, b) => RNum::rem(&ev(a, x, nz), &ev(b, x, nz), nz),
    }
}

fn fval(t: &T, x: &[f64]) -> f64 {
    ev(t, x, &mut Noise::exact()).v
}

/// Richardson-extrapolated central differences
fn fd1(t: &T, x: &[f64], i: usize, h: f64) -> f64 {
    let d = |h: f64| {
        let mut a = x.to_vec();
        let mut b = x.to_vec();
        a[i] += h;
        b[i] -= h;
        (fval(t, &a) - fval(t, &b)) / (2.0 * h)
    };
    (4.0 * d(h / 2.0) - d(h)) / 3.0
}

fn fd2(t: &T, x: &[f64], i: usize, j: usize, h: f64) -> f64 {
    let d = |h: f64| {
        if i == j {
            let mut a = x.to_vec();
            let mut b = x.to_vec();
            a[i] += h;
            b[i] -= h;
            (fval(t, &a) - 2.0 * fval(t, x) + fval(t, &b)) / (h * h)
        } else {
            let f = |si: f64, sj: f64| {
                let mut a = x.to_vec();
                a[i] += si * h;
                a[j] += sj * h;
                fval(t, &a)
            };
            (f(1.0, 1.0) - f(1.0, -1.0) - f(-1.0, 1.0) + f(-1.0, -1.0)) / (4.0 * h * h)
        }
    };
    (4.0 * d(h / 2.0) - d(h)) / 3.0
}

pub fn selftest() -> Result<(), String> {
    let b = |t: T| Box::new(t);
    let x = [0.7, 1.3, 2.1];
    // smooth compositions exercising every rule at a well-separated point
    let trees: Vec<(&str, T)> = vec![
        ("mul/add", T::Add(b(T::Mul(b(T::X(0)), b(T::X(1)))), b(T::X(2)))),
        ("div", T::Div(b(T::Mul(b(T::X(0)), b(T::X(2)))), b(T::Add(b(T::X(1)), b(T::X(0)))))),
        ("pow", T::Pow(b(T::Add(b(T::X(0)), b(T::Mul(b(T::X(1)), b(T::X(2)))))), 1.7)),
        ("pow-neg", T::Pow(b(T::Add(b(T::X(0)), b(T::X(1)))), -2.0)),
        ("exp", T::Exp(b(T::Sub(b(T::Mul(b(T::X(0)), b(T::X(1)))), b(T::X(2)))))),
        ("ln", T::Ln(b(T::Add(b(T::Mul(b(T::X(0)), b(T::X(0)))), b(T::X(2)))))),
        ("ncdf", T::Ncdf(b(T::Sub(b(T::Mul(b(T::X(0)), b(T::X(1)))), b(T::C(0.4)))))),
        ("icdf", T::Icdf(b(T::Div(b(T::X(0)), b(T::Add(b(T::X(1)), b(T::X(2)))))))),
        ("abs-neg", T::Abs(b(T::Sub(b(T::X(0)), b(T::Mul(b(T::X(1)), b(T::X(2)))))))),
        ("neg", T::Neg(b(T::Mul(b(T::X(0)), b(T::Exp(b(T::X(1)))))))),
        ("rem", T::Rem(b(T::Mul(b(T::X(2)), b(T::X(2)))), b(T::Add(b(T::X(0)), b(T::X(1)))))),
        ("mix", T::Div(b(T::Exp(b(T::Mul(b(T::X(0)), b(T::Ln(b(T::X(2)))))))), b(T::Pow(b(T::Add(b(T::X(1)), b(T::C(2.0)))), 0.5)))),
    ];
    for (name, t) in trees.iter() {
        let r = ev(t, &x, &mut Noise::exact());
        for i in 0..3 {
            let n = format!("x{}", i);
            let fd = fd1(t, &x, i, 1e-3);
            let ad = r.gd(&n);
            if (fd - ad).abs() > 1e-7 * (1.0 + ad.abs()) {
                return Err(format!("refad selftest {}: d/dx{} AD {} vs FD {}", name, i, ad, fd));
            }
            for j in i..3 {
                let m = format!("x{}", j);
                let fd = fd2(t, &x, i, j, 2e-3);
                let ad = r.hd(&n, &m);
                if (fd - ad).abs() > 2e-5 * (1.0 + ad.abs()) {
                    return Err(format!("refad selftest {}: d2/dx{}dx{} AD {} vs FD {}", name, i, j, ad, fd));
                }
            }
        }
        // noisy runs stay within a sane distance of the exact run
        let mut bd = Banded::new(r.clone());
        for s in 0..8 {
            bd.absorb(&ev(t, &x, &mut Noise::noisy(1000 + s)));
        }
        if bd.ill_conditioned(true) {
            return Err(format!("refad selftest {}: unexpectedly ill-conditioned", name));
        }
        if bd.total_spread(true) == 0.0 {
            return Err(format!("refad selftest {}: noise had no effect", name));
        }
    }
    // random trees: AD vs FD
    let mut rng = Rng::new(12345);
    let mut checked = 0;
    for _ in 0..400 {
        let t = rand_tree(&mut rng, 3);
        let xs = [rng.uniform(0.5, 2.0), rng.uniform(0.5, 2.0), rng.uniform(0.5, 2.0)];
        let r = ev(&t, &xs, &mut Noise::exact());
        if !r.v.is_finite() || r.v.abs() > 1e4 {
            continue;
        }
        let mut ok = true;
        for i in 0..3 {
            let fd = fd1(&t, &xs, i, 1e-4);
            let ad = r.gd(&format!("x{}", i));
            if !fd.is_finite() {
                ok = false;
                break;
            }
            let scale = 1.0 + ad.abs() + r.g.values().fold(0.0f64, |m, x| m.max(x.abs()));
            if (fd - ad).abs() > 1e-5 * scale {
                return Err(format!("refad random selftest: {:?} at {:?}: d/dx{} AD {} vs FD {}", t, xs, i, ad, fd));
            }
        }
        if ok {
            checked += 1;
        }
    }
    if checked < 100 {
        return Err(format!("refad random selftest: only {} trees checked", checked));
    }
    Ok(())
}

fn rand_tree(r: &mut Rng, depth: usize) -> T {
    if depth == 0 || r.chance(0.2) {
        return if r.chance(0.8) { T::X(r.usize(3)) } else { T::C(r.uniform(0.5, 2.0)) };
    }
    let a = Box::new(rand_tree(r, depth - 1));
    match r.below(8) {
        0 => T::Add(a, Box::new(rand_tree(r, depth - 1))),
        1 => T::Sub(Box::new(T::Add(a, Box::new(T::C(5.0)))), Box::new(rand_tree(r, depth - 1))),
        2 => T::Mul(a, Box::new(rand_tree(r, depth - 1))),
        3 => T::Div(a, Box::new(T::Add(Box::new(T::Abs(Box::new(rand_tree(r, depth - 1)))), Box::new(T::C(1.0))))),
        4 => T::Exp(Box::new(T::Div(a, Box::new(T::C(50.0))))),
        5 => T::Ln(Box::new(T::Add(Box::new(T::Mul(a.clone(), a)), Box::new(T::C(1.0))))),
        6 => T::Ncdf(Box::new(T::Div(a, Box::new(T::C(20.0))))),
        _ => T::Pow(Box::new(T::Add(Box::new(T::Mul(a.clone(), a)), Box::new(T::C(0.5)))), r.uniform(-1.5, 2.5)),
    }
}
