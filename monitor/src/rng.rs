//! Deterministic random numbers. Every case draws from its own stream derived from
//! (VERIF_SEED, property, phase, case index), so a case can be regenerated for replay
//! independently of the number of workers.

#[derive(Clone, Debug)]
pub struct Rng {
    s: [u64; 4],
}

pub fn splitmix(x: &mut u64) -> u64 {
    *x = x.wrapping_add(0x9E37_79B9_7F4A_7C15);
    let mut z = *x;
    z = (z ^ (z >> 30)).wrapping_mul(0xBF58_476D_1CE4_E5B9);
    z = (z ^ (z >> 27)).wrapping_mul(0x94D0_49BB_1331_11EB);
    z ^ (z >> 31)
}

pub fn hash_str(s: &str) -> u64 {
    // FNV-1a
    let mut h: u64 = 0xcbf29ce484222325;
    for b in s.as_bytes() {
        h ^= *b as u64;
        h = h.wrapping_mul(0x100000001b3);
    }
    h
}

pub fn mix(a: u64, b: u64) -> u64 {
    let mut x = a ^ b.rotate_left(32) ^ 0x5851_F42D_4C95_7F2D;
    let r = splitmix(&mut x);
    r ^ splitmix(&mut x)
}

impl Rng {
    pub fn new(seed: u64) -> Self {
        let mut x = seed;
        let s = [
            splitmix(&mut x),
            splitmix(&mut x),
            splitmix(&mut x),
            splitmix(&mut x),
        ];
        Rng { s }
    }

    pub fn for_case(seed: u64, prop: &str, phase: usize, idx: u64) -> Self {
        let h = mix(mix(mix(seed, hash_str(prop)), phase as u64 + 1), idx);
        Rng::new(h)
    }

    pub fn next(&mut self) -> u64 {
        // xoshiro256**
        let r = self.s[1].wrapping_mul(5).rotate_left(7).wrapping_mul(9);
        let t = self.s[1] << 17;
        self.s[2] ^= self.s[0];
        self.s[3] ^= self.s[1];
        self.s[1] ^= self.s[2];
        self.s[0] ^= self.s[3];
        self.s[2] ^= t;
        self.s[3] = self.s[3].rotate_left(45);
        r
    }

    /// uniform in [0, n)
    pub fn below(&mut self, n: u64) -> u64 {
        if n == 0 {
            return 0;
        }
        // multiply-shift; bias negligible for n << 2^64
        ((self.next() as u128 * n as u128) >> 64) as u64
    }

    pub fn usize(&mut self, n: usize) -> usize {
        self.below(n as u64) as usize
    }

    /// inclusive range
    pub fn range_i(&mut self, lo: i64, hi: i64) -> i64 {
        lo + self.below((hi - lo + 1) as u64) as i64
    }

    pub fn bool(&mut self) -> bool {
        self.next() >> 63 == 1
    }

    pub fn chance(&mut self, p: f64) -> bool {
        self.unit() < p
    }

    /// uniform in [0,1)
    pub fn unit(&mut self) -> f64 {
        (self.next() >> 11) as f64 / (1u64 << 53) as f64
    }

    pub fn uniform(&mut self, lo: f64, hi: f64) -> f64 {
        lo + (hi - lo) * self.unit()
    }

    pub fn log_uniform(&mut self, lo: f64, hi: f64) -> f64 {
        (self.uniform(lo.ln(), hi.ln())).exp()
    }

    pub fn sign(&mut self) -> f64 {
        if self.bool() {
            1.0
        } else {
            -1.0
        }
    }

    pub fn choose<'a, T>(&mut self, v: &'a [T]) -> &'a T {
        &v[self.usize(v.len())]
    }

    pub fn shuffle<T>(&mut self, v: &mut [T]) {
        for i in (1..v.len()).rev() {
            let j = self.usize(i + 1);
            v.swap(i, j);
        }
    }

    /// A "generic" real number: sign * magnitude spread over several decades.
    pub fn real(&mut self) -> f64 {
        self.sign() * self.log_uniform(1e-2, 1e2)
    }

    /// a random finite f64 bit pattern
    pub fn finite_bits(&mut self) -> f64 {
        loop {
            let f = f64::from_bits(self.next());
            if f.is_finite() {
                return f;
            }
        }
    }
}
