//! R-RULES: holiday rules engine. Rule tables are transcribed by hand from
//! rust/calendars/named/<name>_script.py (the published generators of the static tables) and the
//! `RULES` documentation constants; the engine itself (computus, n-th weekday, observances) is
//! written from the definitions of those pandas constructs, on day numbers (no chrono).

use crate::calmodel::{civil_from_days, days_from_civil, days_in_month, easter, weekday};
use std::collections::BTreeSet;

#[derive(Clone, Copy, Debug, PartialEq)]
pub enum Obs {
    None,
    /// Sun -> Mon
    SunToMon,
    /// Sat -> Fri, Sun -> Mon
    Nearest,
    /// Sat -> Mon, Sun -> Mon
    NextMon,
    /// Sat -> Mon, Sun -> Tue, Mon -> Tue
    NextMonOrTue,
    /// Sun, Mon -> next day (tyo Greenery Day)
    SunMonNext,
    /// Sun, Mon, Tue -> next day (tyo Children's Day)
    SunMonTueNext,
}

#[derive(Clone, Copy, Debug)]
pub enum Base {
    Fixed { m: i64, d: i64 },
    /// pandas `month=m, day=d, offset=DateOffset(weekday=WD(n))`: n>0: n-th `wd` on or after (m,d);
    /// n<0: |n|-th `wd` on or before (m,d)
    Nth { m: i64, d: i64, wd: i64, n: i64 },
    Easter { off: i64 },
}

#[derive(Clone, Copy, Debug)]
pub struct Rule {
    pub name: &'static str,
    pub base: Base,
    pub obs: Obs,
    /// inclusive bounds on the resulting date (pandas start_date / end_date)
    pub start: Option<(i64, i64, i64)>,
    pub end: Option<(i64, i64, i64)>,
    /// one-off rule: only this year
    pub year: Option<i64>,
}

const fn fixed(name: &'static str, m: i64, d: i64, obs: Obs) -> Rule {
    Rule { name, base: Base::Fixed { m, d }, obs, start: None, end: None, year: None }
}
const fn nth(name: &'static str, m: i64, d: i64, wd: i64, n: i64) -> Rule {
    Rule { name, base: Base::Nth { m, d, wd, n }, obs: Obs::None, start: None, end: None, year: None }
}
const fn east(name: &'static str, off: i64) -> Rule {
    Rule { name, base: Base::Easter { off }, obs: Obs::None, start: None, end: None, year: None }
}
const fn once(name: &'static str, y: i64, m: i64, d: i64) -> Rule {
    Rule { name, base: Base::Fixed { m, d }, obs: Obs::None, start: None, end: None, year: Some(y) }
}
const fn from(mut r: Rule, y: i64, m: i64, d: i64) -> Rule {
    r.start = Some((y, m, d));
    r
}
const fn until(mut r: Rule, y: i64, m: i64, d: i64) -> Rule {
    r.end = Some((y, m, d));
    r
}

pub fn observe(z: i64, obs: Obs) -> i64 {
    let wd = weekday(z); // 0 = Mon .. 6 = Sun
    match obs {
        Obs::None => z,
        Obs::SunToMon => {
            if wd == 6 {
                z + 1
            } else {
                z
            }
        }
        Obs::Nearest => {
            if wd == 5 {
                z - 1
            } else if wd == 6 {
                z + 1
            } else {
                z
            }
        }
        Obs::NextMon => {
            if wd == 5 {
                z + 2
            } else if wd == 6 {
                z + 1
            } else {
                z
            }
        }
        Obs::NextMonOrTue => {
            if wd == 5 || wd == 6 {
                z + 2
            } else if wd == 0 {
                z + 1
            } else {
                z
            }
        }
        Obs::SunMonNext => {
            if wd == 6 || wd == 0 {
                z + 1
            } else {
                z
            }
        }
        Obs::SunMonTueNext => {
            if wd == 6 || wd == 0 || wd == 1 {
                z + 1
            } else {
                z
            }
        }
    }
}

fn nth_weekday(y: i64, m: i64, d: i64, wd: i64, n: i64) -> i64 {
    let d = d.min(days_in_month(y, m));
    let z = days_from_civil(y, m, d);
    if n > 0 {
        let fwd = (wd - weekday(z)).rem_euclid(7);
        z + fwd + 7 * (n - 1)
    } else {
        let back = (weekday(z) - wd).rem_euclid(7);
        z - back - 7 * (-n - 1)
    }
}

impl Rule {
    /// the (observed) date of this rule in year `y`, if it has one
    pub fn date_in_year(&self, y: i64) -> Option<i64> {
        if let Some(yy) = self.year {
            if yy != y {
                return None;
            }
        }
        let raw = match self.base {
            Base::Fixed { m, d } => days_from_civil(y, m, d),
            Base::Nth { m, d, wd, n } => nth_weekday(y, m, d, wd, n),
            Base::Easter { off } => easter(y) + off,
        };
        let z = observe(raw, self.obs);
        if let Some((sy, sm, sd)) = self.start {
            if z < days_from_civil(sy, sm, sd) {
                return None;
            }
        }
        if let Some((ey, em, ed)) = self.end {
            if z > days_from_civil(ey, em, ed) {
                return None;
            }
        }
        Some(z)
    }
    pub fn is_fixed_or_easter(&self) -> bool {
        matches!(self.base, Base::Fixed { .. } | Base::Easter { .. })
    }
}

/// all rule dates in [1970-01-01, 2200-12-31] (the range of the published tables)
pub fn holiday_set(rules: &[Rule]) -> BTreeSet<i64> {
    let lo = days_from_civil(1970, 1, 1);
    let hi = days_from_civil(2200, 12, 31);
    let mut s = BTreeSet::new();
    for r in rules {
        for y in 1969..=2201 {
            if let Some(z) = r.date_in_year(y) {
                if z >= lo && z <= hi {
                    s.insert(z);
                }
            }
        }
    }
    s
}

const MON: i64 = 0;
const THU: i64 = 3;
const FRI: i64 = 4;

pub const TGT: &[Rule] = &[
    fixed("New Year's Day", 1, 1, Obs::None),
    east("Good Friday", -2),
    east("Easter Monday", 1),
    fixed("EU Labour Day", 5, 1, Obs::None),
    fixed("Christmas Day", 12, 25, Obs::None),
    fixed("Boxing Day", 12, 26, Obs::None),
];

const fn us_rules(good_friday: bool) -> [Rule; 13] {
    [
        fixed("New Year's Day", 1, 1, Obs::SunToMon),
        from(nth("Martin Luther King Jr.", 1, 1, MON, 3), 1986, 1, 1),
        nth("Presidents Day", 2, 1, MON, 3),
        if good_friday { east("Good Friday", -2) } else { once("(placeholder duplicate of GHW Bush funeral)", 2018, 12, 5) },
        nth("Memorial Day", 5, 31, MON, -1),
        from(fixed("Juneteenth", 6, 19, Obs::SunToMon), 2022, 1, 1),
        fixed("Independence Day", 7, 4, Obs::Nearest),
        nth("Labour Day", 9, 1, MON, 1),
        nth("Columbus Day", 10, 1, MON, 2),
        fixed("Veterans Day", 11, 11, Obs::SunToMon),
        nth("Thanksgiving", 11, 1, THU, 4),
        fixed("Christmas Day", 12, 25, Obs::Nearest),
        once("GHW Bush Funeral", 2018, 12, 5),
    ]
}
pub const NYC: &[Rule] = &us_rules(true);
pub const FED: &[Rule] = &us_rules(false);

pub const LDN: &[Rule] = &[
    fixed("New Year's Day Holiday", 1, 1, Obs::NextMon),
    east("Good Friday", -2),
    east("Easter Monday", 1),
    until(nth("Early May Bank Holiday pre 2020", 5, 1, MON, 1), 2020, 1, 1),
    once("Early May Bank Holiday rearranged 2020", 2020, 5, 8),
    from(nth("Early May Bank Holiday post 2020", 5, 1, MON, 1), 2021, 1, 1),
    until(nth("Spring Bank Holiday pre 2022", 5, 31, MON, -1), 2022, 5, 1),
    from(nth("Spring Bank Holiday post 2022", 5, 31, MON, -1), 2022, 7, 1),
    once("Queen Elizabeth II Jubilee Thu", 2022, 6, 2),
    once("Queen Elizabeth II Jubilee Fri", 2022, 6, 3),
    once("Queen Elizabeth II Funeral", 2022, 9, 19),
    once("King Charles III Coronation", 2023, 5, 8),
    nth("Summer Bank Holiday", 8, 31, MON, -1),
    fixed("Christmas Day Holiday", 12, 25, Obs::NextMon),
    fixed("Boxing Day Holiday", 12, 26, Obs::NextMonOrTue),
];

pub const STK: &[Rule] = &[
    fixed("New Year's Day", 1, 1, Obs::None),
    fixed("Epiphany", 1, 6, Obs::None),
    east("Good Friday", -2),
    east("Easter Monday", 1),
    fixed("EU Labour Day", 5, 1, Obs::None),
    east("Ascension Day", 39),
    fixed("Sweden National Day", 6, 6, Obs::None),
    nth("Swedish Midsummer", 6, 25, FRI, -1),
    fixed("Christmas Eve", 12, 24, Obs::None),
    fixed("Christmas Day", 12, 25, Obs::None),
    fixed("Boxing Day", 12, 26, Obs::None),
    fixed("New Year's Eve", 12, 31, Obs::None),
];

pub const OSL: &[Rule] = &[
    fixed("New Year's Day", 1, 1, Obs::None),
    east("Maundy Thursday", -3),
    east("Good Friday", -2),
    east("Easter Monday", 1),
    fixed("EU Labour Day", 5, 1, Obs::None),
    fixed("Norway Constitution Day", 5, 17, Obs::None),
    east("Ascension Day", 39),
    east("Whit Monday", 50),
    fixed("Christmas Eve", 12, 24, Obs::None),
    fixed("Christmas Day", 12, 25, Obs::None),
    fixed("Boxing Day", 12, 26, Obs::None),
];

pub const ZUR: &[Rule] = &[
    fixed("New Year's Day", 1, 1, Obs::None),
    fixed("Berchtoldstag", 1, 2, Obs::None),
    east("Good Friday", -2),
    east("Easter Monday", 1),
    fixed("EU Labour Day", 5, 1, Obs::None),
    east("Ascension Day", 39),
    east("Whit Monday", 50),
    fixed("Swiss National Day", 8, 1, Obs::None),
    fixed("Christmas Day", 12, 25, Obs::None),
    fixed("Boxing Day", 12, 26, Obs::None),
];

// ---- calendars whose rules are only partly published: documented fixed-date and Easter-linked
// ---- holidays only (one-directional assertion: each weekday occurrence must be a holiday)

pub const TRO_DOC: &[Rule] = &[
    fixed("New Year's Day", 1, 1, Obs::NextMon),
    east("Good Friday", -2),
    fixed("Canada Day", 7, 1, Obs::NextMon),
    fixed("Remembrance", 11, 11, Obs::NextMon),
    from(fixed("National Truth & Reconciliation", 9, 30, Obs::None), 2021, 1, 1),
    fixed("Christmas Day", 12, 25, Obs::NextMon),
    fixed("Boxing Day", 12, 26, Obs::NextMonOrTue),
];

pub const TYO_DOC: &[Rule] = &[
    fixed("New Year's Day", 1, 1, Obs::None),
    fixed("New Year's Bank holiday", 1, 2, Obs::None),
    fixed("New Year's Bank holiday 2", 1, 3, Obs::None),
    fixed("Foundation Day", 2, 11, Obs::SunToMon),
    from(fixed("Emperor Naruhito Birthday", 2, 23, Obs::SunToMon), 2020, 1, 1),
    fixed("Showa Day", 4, 29, Obs::SunToMon),
    fixed("Constitution Day", 5, 3, Obs::SunToMon),
    fixed("Greenery Day", 5, 4, Obs::SunMonNext),
    fixed("Children's Day", 5, 5, Obs::SunMonTueNext),
    // Mountain Day (Aug 11, est. 2016) is asserted outside the Olympic-shifted years 2020-21
    until(from(fixed("Mountain Day pre olympics", 8, 11, Obs::SunToMon), 2016, 1, 1), 2019, 12, 31),
    from(fixed("Mountain Day post olympics", 8, 11, Obs::SunToMon), 2022, 1, 1),
    fixed("Culture Day", 11, 3, Obs::SunToMon),
    fixed("Labor Thanksgiving Day", 11, 23, Obs::SunToMon),
    until(fixed("Emperor Akihito Birthday", 12, 23, Obs::SunToMon), 2019, 1, 1),
    fixed("End of Year", 12, 31, Obs::None),
];

pub const SYD_DOC: &[Rule] = &[
    fixed("New Year's Day", 1, 1, Obs::NextMon),
    fixed("Australia Day", 1, 26, Obs::NextMon),
    east("Good Friday", -2),
    east("Easter Monday", 1),
    fixed("Anzac Day", 4, 25, Obs::None),
    fixed("Christmas Day", 12, 25, Obs::NextMon),
    fixed("Boxing Day", 12, 26, Obs::NextMonOrTue),
];

pub const WLG_DOC: &[Rule] = &[
    fixed("New Year's Day", 1, 1, Obs::None),
    fixed("Day After New Year's Day", 1, 2, Obs::None),
    fixed("Waitangi Day", 2, 6, Obs::NextMon),
    east("Good Friday", -2),
    east("Easter Monday", 1),
    fixed("Anzac Day", 4, 25, Obs::None),
    fixed("Christmas Day", 12, 25, Obs::NextMon),
    fixed("Boxing Day", 12, 26, Obs::NextMonOrTue),
];

pub const MUM_DOC: &[Rule] = &[
    fixed("Republic Day", 1, 26, Obs::None),
    east("Good Friday", -2),
    fixed("Ambedkar Jayanti", 4, 14, Obs::None),
    fixed("May Day", 5, 1, Obs::None),
    fixed("Independence Day", 8, 15, Obs::None),
    fixed("Gandhi Jayanti", 10, 2, Obs::None),
    fixed("Christmas Day", 12, 25, Obs::None),
];

pub fn complete_rules(name: &str) -> Option<&'static [Rule]> {
    match name {
        "tgt" => Some(TGT),
        "nyc" => Some(NYC),
        "fed" => Some(FED),
        "ldn" => Some(LDN),
        "stk" => Some(STK),
        "osl" => Some(OSL),
        "zur" => Some(ZUR),
        _ => None,
    }
}

pub fn documented_rules(name: &str) -> Option<&'static [Rule]> {
    match name {
        "tro" => Some(TRO_DOC),
        "tyo" => Some(TYO_DOC),
        "syd" => Some(SYD_DOC),
        "wlg" => Some(WLG_DOC),
        "mum" => Some(MUM_DOC),
        _ => None,
    }
}

pub fn selftest() -> Result<(), String> {
    let chk = |rules: &[Rule], y: i64, m: i64, d: i64, want: bool, what: &str| -> Result<(), String> {
        let s = holiday_set(rules);
        if s.contains(&days_from_civil(y, m, d)) != want {
            return Err(format!("rules selftest: {} {}-{}-{} expected {}", what, y, m, d, want));
        }
        Ok(())
    };
    // independently known holiday dates
    chk(NYC, 2024, 3, 29, true, "nyc Good Friday 2024")?;
    chk(FED, 2024, 3, 29, false, "fed has no Good Friday")?;
    chk(NYC, 2024, 11, 28, true, "Thanksgiving 2024")?;
    chk(NYC, 2023, 1, 2, true, "New Year observed Monday 2023")?;
    chk(NYC, 2021, 12, 31, false, "no Friday observance of Saturday New Year")?;
    chk(NYC, 2021, 12, 24, true, "Christmas observed Friday 2021")?;
    chk(NYC, 2022, 6, 20, true, "Juneteenth observed 2022")?;
    chk(NYC, 2021, 6, 18, false, "Juneteenth not before 2022")?;
    chk(NYC, 1985, 1, 21, false, "MLK not before 1986")?;
    chk(NYC, 1986, 1, 20, true, "MLK 1986")?;
    chk(NYC, 2024, 5, 27, true, "Memorial day 2024")?;
    chk(NYC, 2024, 10, 14, true, "Columbus 2024")?;
    chk(LDN, 2020, 5, 8, true, "VE day 2020")?;
    chk(LDN, 2020, 5, 4, false, "no early May Monday 2020")?;
    chk(LDN, 2022, 5, 30, false, "spring bank holiday moved 2022")?;
    chk(LDN, 2022, 6, 2, true, "jubilee")?;
    chk(LDN, 2024, 8, 26, true, "summer bank holiday 2024")?;
    chk(LDN, 2021, 12, 27, true, "Christmas substitute 2021")?;
    chk(LDN, 2021, 12, 28, true, "Boxing substitute 2021")?;
    chk(LDN, 2022, 12, 27, true, "Christmas Sunday 2022 -> Boxing Tuesday")?;
    chk(LDN, 2022, 12, 26, true, "Christmas Sunday 2022 -> Monday")?;
    chk(STK, 2024, 6, 21, true, "midsummer eve 2024")?;
    chk(STK, 2024, 5, 9, true, "ascension 2024")?;
    chk(OSL, 2024, 5, 20, true, "whit monday 2024")?;
    chk(OSL, 2024, 3, 28, true, "maundy thursday 2024")?;
    chk(ZUR, 2024, 8, 1, true, "swiss national day")?;
    chk(TGT, 2024, 4, 1, true, "easter monday 2024")?;
    chk(TGT, 2024, 5, 20, false, "tgt no whit monday")?;
    if nth_weekday(2024, 11, 1, THU, 4) != days_from_civil(2024, 11, 28) {
        return Err("nth_weekday".into());
    }
    let (y, m, d) = civil_from_days(nth_weekday(2024, 5, 31, MON, -1));
    if (y, m, d) != (2024, 5, 27) {
        return Err("nth_weekday last".into());
    }
    Ok(())
}
