//! Supervisor / worker protocol, evidence writer, known-findings filter, replay.
//!
//! `rvmon Cxx <tier>` is a supervisor: it spawns worker processes of itself, each owning the
//! cases `idx % nworkers == worker` of every phase. A worker writes a breadcrumb (the case key)
//! before it calls into rateslib, runs the case under `catch_unwind`, hands the observation to the
//! property's monitor and accumulates coverage. The supervisor merges what the workers observed,
//! filters violations against known_findings.json, writes evidence/<id>.json and sets the exit code
//! (0 held / 1 violation / 2 inconclusive).

use crate::rng::Rng;
use serde_json::{json, Map, Value};
use std::collections::{BTreeMap, HashSet};
use std::io::Write;
use std::os::unix::fs::FileExt;
use std::path::PathBuf;
use std::time::{Duration, Instant};

#[derive(Clone, Copy, PartialEq, Eq, Debug)]
pub enum Tier {
    Quick,
    Thorough,
}

impl Tier {
    pub fn name(&self) -> &'static str {
        match self {
            Tier::Quick => "quick",
            Tier::Thorough => "thorough",
        }
    }
    pub fn pick<T>(&self, q: T, t: T) -> T {
        match self {
            Tier::Quick => q,
            Tier::Thorough => t,
        }
    }
}

pub struct PhaseSpec {
    pub name: &'static str,
    pub count: u64,
}

pub fn ph(name: &'static str, count: u64) -> PhaseSpec {
    PhaseSpec { name, count }
}

pub trait Prop {
    fn id(&self) -> &'static str;
    fn phases(&self, tier: Tier) -> Vec<PhaseSpec>;
    fn run_case(&mut self, ctx: &mut Ctx, phase: usize, idx: u64, rng: &mut Rng);
    /// histogram keys that must have been observed (aggregate over workers) for the run to count
    fn required_classes(&self, _tier: Tier) -> Vec<String> {
        vec![]
    }
    fn min_evaluations(&self, _tier: Tier) -> u64 {
        1
    }
    fn rule(&self) -> String;
    fn assumptions(&self) -> Vec<String> {
        vec![]
    }
    fn exhaustive(&self, _tier: Tier) -> bool {
        false
    }
    fn workers(&self, tier: Tier) -> usize {
        tier.pick(8, 16)
    }
    /// called once per worker after all its cases
    fn finish(&mut self, _ctx: &mut Ctx) {}
}

#[derive(Clone, Debug)]
pub struct Violation {
    pub sig: String,
    pub phase: usize,
    pub idx: u64,
    pub detail: Value,
}

const MAX_FP: usize = 3_000_000;
const MAX_SAMPLES_PER_WORKER: usize = 6;

pub struct Ctx {
    pub tier: Tier,
    pub seed: u64,
    pub worker: usize,
    pub nworkers: usize,
    pub replay: bool,
    pub evaluations: u64,
    pub assertions: u64,
    pub hist: BTreeMap<String, u64>,
    pub skipped: BTreeMap<String, u64>,
    pub fps: HashSet<u64>,
    pub fp_capped: bool,
    pub samples: Vec<Value>,
    sample_classes: HashSet<String>,
    pub violations: Vec<Violation>,
    viol_sig_counts: BTreeMap<String, u64>,
    pub harness_errors: Vec<String>,
    cur_phase: usize,
    cur_idx: u64,
    crumb: Option<std::fs::File>,
    last_crumb: String,
    pub extra: BTreeMap<String, Value>,
}

impl Ctx {
    fn new(tier: Tier, seed: u64, worker: usize, nworkers: usize, replay: bool) -> Self {
        Ctx {
            tier,
            seed,
            worker,
            nworkers,
            replay,
            evaluations: 0,
            assertions: 0,
            hist: BTreeMap::new(),
            skipped: BTreeMap::new(),
            fps: HashSet::new(),
            fp_capped: false,
            samples: vec![],
            sample_classes: HashSet::new(),
            violations: vec![],
            viol_sig_counts: BTreeMap::new(),
            harness_errors: vec![],
            cur_phase: 0,
            cur_idx: 0,
            crumb: None,
            last_crumb: String::new(),
            extra: BTreeMap::new(),
        }
    }

    /// record the "call event": what is about to be executed, before calling into rateslib
    pub fn crumb(&mut self, text: &str) {
        if text != "case start" {
            self.last_crumb = crate::util::clip(text, 2000).to_string();
        }
        if let Some(f) = &self.crumb {
            let mut buf = [b' '; 1024];
            let s = format!("phase={} idx={} {}", self.cur_phase, self.cur_idx, text);
            let b = s.as_bytes();
            let n = b.len().min(1023);
            buf[..n].copy_from_slice(&b[..n]);
            buf[1023] = b'\n';
            let _ = f.write_all_at(&buf, 0);
        }
    }

    /// `n` rateslib results were judged by the monitor
    pub fn eval(&mut self, n: u64) {
        self.evaluations += n;
    }
    /// `n` individual oracle comparisons were made
    pub fn asserted(&mut self, n: u64) {
        self.assertions += n;
    }
    pub fn class(&mut self, key: &str) {
        *self.hist.entry(key.to_string()).or_insert(0) += 1;
    }
    pub fn class_n(&mut self, key: &str, n: u64) {
        *self.hist.entry(key.to_string()).or_insert(0) += n;
    }
    pub fn skip(&mut self, reason: &str) {
        *self.skipped.entry(reason.to_string()).or_insert(0) += 1;
    }
    /// fingerprint of a non-trivial case (structure, not raw floats)
    pub fn distinct(&mut self, fp: u64) {
        if self.fps.len() < MAX_FP {
            self.fps.insert(fp);
        } else {
            self.fp_capped = true;
        }
    }
    /// keep the first concrete case of a class as a written-out sample
    pub fn sample(&mut self, class: &str, f: impl FnOnce() -> Value) {
        if self.samples.len() < MAX_SAMPLES_PER_WORKER && !self.sample_classes.contains(class) {
            self.sample_classes.insert(class.to_string());
            self.samples.push(json!({"class": class, "phase": self.cur_phase, "idx": self.cur_idx, "case": f()}));
        }
    }
    pub fn violation(&mut self, sig: &str, detail: Value) {
        let c = self.viol_sig_counts.entry(sig.to_string()).or_insert(0);
        *c += 1;
        if *c <= 3 || self.replay {
            self.violations.push(Violation {
                sig: sig.to_string(),
                phase: self.cur_phase,
                idx: self.cur_idx,
                detail,
            });
        }
    }
    pub fn harness_error(&mut self, msg: String) {
        if self.harness_errors.len() < 10 {
            self.harness_errors.push(msg);
        }
    }
    pub fn n_violations(&self) -> u64 {
        self.viol_sig_counts.values().sum()
    }
}

// ---------------------------------------------------------------------------------------------
// panic capture

thread_local! {
    static LAST_PANIC: std::cell::RefCell<Option<(String, String)>> = const { std::cell::RefCell::new(None) };
}

pub fn install_panic_hook() {
    std::panic::set_hook(Box::new(|info| {
        let loc = info
            .location()
            .map(|l| format!("{}:{}", l.file(), l.line()))
            .unwrap_or_else(|| "?".to_string());
        let msg = if let Some(s) = info.payload().downcast_ref::<&str>() {
            s.to_string()
        } else if let Some(s) = info.payload().downcast_ref::<String>() {
            s.clone()
        } else {
            "<non-string panic payload>".to_string()
        };
        LAST_PANIC.with(|p| *p.borrow_mut() = Some((loc, msg)));
    }));
}

pub fn take_panic() -> (String, String) {
    LAST_PANIC
        .with(|p| p.borrow_mut().take())
        .unwrap_or(("?".to_string(), "?".to_string()))
}

/// Outcome of calling rateslib code that may panic.
pub enum Caught<T> {
    Ok(T),
    Panic { loc: String, msg: String },
}

/// Run `f` (which calls into rateslib) and capture an unwinding panic with its location.
pub fn guarded<T>(f: impl FnOnce() -> T) -> Caught<T> {
    match std::panic::catch_unwind(std::panic::AssertUnwindSafe(f)) {
        Ok(v) => Caught::Ok(v),
        Err(_) => {
            let (loc, msg) = take_panic();
            Caught::Panic { loc, msg }
        }
    }
}

/// A panic location inside the harness's own sources (relative path) is a harness error, never
/// evidence about rateslib.
pub fn is_harness_location(loc: &str) -> bool {
    !loc.starts_with('/')
}

/// strip the repository prefix and line number so that signatures are stable across checkouts
pub fn short_loc(loc: &str) -> String {
    let repo = std::env::var("VERIF_REPO_PATH").unwrap_or_else(|_| "/repo".to_string());
    let mut s = loc.to_string();
    if let Some(rest) = s.strip_prefix(&repo) {
        s = rest.trim_start_matches('/').to_string();
    } else if let Some(p) = s.find("/registry/src/") {
        let rest = &s[p + "/registry/src/".len()..];
        s = match rest.find('/') {
            Some(q) => rest[q + 1..].to_string(),
            None => rest.to_string(),
        };
    }
    match s.rfind(':') {
        Some(p) => s[..p].to_string(),
        None => s,
    }
}

// ---------------------------------------------------------------------------------------------

pub fn verif_home() -> PathBuf {
    if let Ok(h) = std::env::var("VERIF_HOME") {
        return PathBuf::from(h);
    }
    PathBuf::from("/verif")
}

fn run_dir() -> PathBuf {
    let d = verif_home().join(".run");
    let _ = std::fs::create_dir_all(&d);
    d
}

pub fn parse_seed() -> u64 {
    match std::env::var("VERIF_SEED") {
        Ok(s) => match s.trim().parse::<i128>() {
            Ok(v) => v as u64,
            Err(_) => crate::rng::hash_str(&s),
        },
        Err(_) => 0,
    }
}

fn run_cases(prop: &mut dyn Prop, ctx: &mut Ctx) {
    let phases = prop.phases(ctx.tier);
    let id = prop.id();
    for (pi, p) in phases.iter().enumerate() {
        let mut idx = ctx.worker as u64;
        while idx < p.count {
            run_one(prop, ctx, id, pi, idx);
            idx += ctx.nworkers as u64;
        }
    }
    match guarded(|| prop.finish(ctx)) {
        Caught::Ok(()) => {}
        Caught::Panic { loc, msg } => ctx.harness_error(format!("finish panicked at {}: {}", loc, msg)),
    }
}

fn run_one(prop: &mut dyn Prop, ctx: &mut Ctx, id: &str, phase: usize, idx: u64) {
    ctx.cur_phase = phase;
    ctx.cur_idx = idx;
    ctx.crumb("case start");
    let mut rng = Rng::for_case(ctx.seed, id, phase, idx);
    match guarded(|| prop.run_case(ctx, phase, idx, &mut rng)) {
        Caught::Ok(()) => {}
        Caught::Panic { loc, msg } => {
            if is_harness_location(&loc) || loc.starts_with("/rustc/") {
                // a panic located in the standard library that reached the driver (not one of the guarded
                // rateslib calls) cannot be attributed: inconclusive, never a violation
                ctx.harness_error(format!("harness panicked at {} in phase {} idx {}: {}", loc, phase, idx, msg));
            } else {
                // a panic escaped a rateslib call that the monitor did not expect to panic
                ctx.violation(
                    &format!("{}|panic|{}", id, short_loc(&loc)),
                    json!({"what": "a call into rateslib panicked", "location": loc, "message": msg, "last_breadcrumb": ctx.last_crumb}),
                );
            }
        }
    }
}

pub fn worker_main(prop: &mut dyn Prop, tier: Tier, seed: u64, worker: usize, nworkers: usize, runid: &str) -> i32 {
    install_panic_hook();
    let mut ctx = Ctx::new(tier, seed, worker, nworkers, false);
    let crumb_path = run_dir().join(format!("{}-w{}.crumb", runid, worker));
    ctx.crumb = std::fs::OpenOptions::new().create(true).write(true).truncate(true).open(&crumb_path).ok();
    run_cases(prop, &mut ctx);
    // results
    let fp_path = run_dir().join(format!("{}-w{}.fp", runid, worker));
    {
        let mut bytes: Vec<u8> = Vec::with_capacity(ctx.fps.len() * 8);
        for h in ctx.fps.iter() {
            bytes.extend_from_slice(&h.to_le_bytes());
        }
        let _ = std::fs::write(&fp_path, bytes);
    }
    let viols: Vec<Value> = ctx
        .violations
        .iter()
        .map(|v| json!({"sig": v.sig, "phase": v.phase, "idx": v.idx, "detail": v.detail}))
        .collect();
    let out = json!({
        "evaluations": ctx.evaluations,
        "assertions": ctx.assertions,
        "hist": ctx.hist,
        "skipped": ctx.skipped,
        "samples": ctx.samples,
        "violations": viols,
        "viol_counts": ctx.viol_sig_counts,
        "harness_errors": ctx.harness_errors,
        "fp_capped": ctx.fp_capped,
        "extra": ctx.extra,
    });
    let res_path = run_dir().join(format!("{}-w{}.json", runid, worker));
    if std::fs::write(&res_path, serde_json::to_vec(&out).unwrap()).is_err() {
        return 3;
    }
    0
}

struct KnownFinding {
    property: String,
    signature: String,
    status: String,
    what: String,
}

fn load_known() -> Result<Vec<KnownFinding>, String> {
    let p = verif_home().join("known_findings.json");
    let txt = match std::fs::read_to_string(&p) {
        Ok(t) => t,
        Err(_) => return Ok(vec![]),
    };
    let v: Value = serde_json::from_str(&txt).map_err(|e| format!("known_findings.json: {}", e))?;
    let mut out = vec![];
    if let Some(arr) = v.get("findings").and_then(|a| a.as_array()) {
        for f in arr {
            out.push(KnownFinding {
                property: f["property"].as_str().unwrap_or("").to_string(),
                signature: f["signature"].as_str().unwrap_or("").to_string(),
                status: f["status"].as_str().unwrap_or("").to_string(),
                what: f["what"].as_str().unwrap_or("").to_string(),
            });
        }
    }
    Ok(out)
}

pub struct Outcome {
    pub exit: i32,
}

#[allow(clippy::too_many_arguments)]
pub fn supervisor_main(prop: &mut dyn Prop, tier: Tier, seed: u64, make_args: &dyn Fn(usize, usize, &str) -> Vec<String>) -> Outcome {
    let t0 = Instant::now();
    let id = prop.id().to_string();
    let nworkers = match std::env::var("VERIF_WORKERS").ok().and_then(|s| s.parse::<usize>().ok()) {
        Some(n) if n > 0 => n,
        _ => prop.workers(tier),
    };
    let runid = format!("{}-{}-{}", id, std::process::id(), seed);
    let exe = std::env::current_exe().expect("current_exe");
    let watchdog_s: u64 = std::env::var("VERIF_WATCHDOG_S")
        .ok()
        .and_then(|s| s.parse().ok())
        .unwrap_or(tier.pick(1500, 4 * 3600));

    let mut children = vec![];
    for w in 0..nworkers {
        let args = make_args(w, nworkers, &runid);
        match std::process::Command::new(&exe).args(&args).stdin(std::process::Stdio::null()).spawn() {
            Ok(c) => children.push((w, c)),
            Err(e) => {
                println!("INCONCLUSIVE property={} reason=cannot-spawn-worker {}", id, e);
                return Outcome { exit: 2 };
            }
        }
    }
    let mut inconclusive: Vec<String> = vec![];
    let mut aborted: Vec<(usize, String, String)> = vec![]; // worker, status, crumb
    let deadline = t0 + Duration::from_secs(watchdog_s);
    let mut done = vec![false; children.len()];
    loop {
        let mut all = true;
        for (k, (w, c)) in children.iter_mut().enumerate() {
            if done[k] {
                continue;
            }
            match c.try_wait() {
                Ok(Some(st)) => {
                    done[k] = true;
                    if !st.success() {
                        let crumb = std::fs::read_to_string(run_dir().join(format!("{}-w{}.crumb", runid, w)))
                            .unwrap_or_default()
                            .trim()
                            .to_string();
                        aborted.push((*w, format!("{:?}", st), crumb));
                    }
                }
                Ok(None) => all = false,
                Err(e) => {
                    done[k] = true;
                    inconclusive.push(format!("wait failed for worker {}: {}", w, e));
                }
            }
        }
        if all {
            break;
        }
        if Instant::now() > deadline {
            for (k, (_w, c)) in children.iter_mut().enumerate() {
                if !done[k] {
                    let _ = c.kill();
                    let _ = c.wait();
                }
            }
            inconclusive.push(format!("watchdog fired after {} s", watchdog_s));
            break;
        }
        std::thread::sleep(Duration::from_millis(20));
    }

    // merge
    let mut evaluations = 0u64;
    let mut assertions = 0u64;
    let mut hist: BTreeMap<String, u64> = BTreeMap::new();
    let mut skipped: BTreeMap<String, u64> = BTreeMap::new();
    let mut samples: Vec<Value> = vec![];
    let mut sample_classes: HashSet<String> = HashSet::new();
    let mut viols: Vec<(String, Value)> = vec![]; // sig, full record
    let mut viol_counts: BTreeMap<String, u64> = BTreeMap::new();
    let mut fps: HashSet<u64> = HashSet::new();
    let mut fp_capped = false;
    let mut extra: BTreeMap<String, Value> = BTreeMap::new();
    for w in 0..nworkers {
        let res_path = run_dir().join(format!("{}-w{}.json", runid, w));
        let fp_path = run_dir().join(format!("{}-w{}.fp", runid, w));
        let crumb_path = run_dir().join(format!("{}-w{}.crumb", runid, w));
        if let Ok(txt) = std::fs::read(&res_path) {
            if let Ok(v) = serde_json::from_slice::<Value>(&txt) {
                evaluations += v["evaluations"].as_u64().unwrap_or(0);
                assertions += v["assertions"].as_u64().unwrap_or(0);
                if let Some(m) = v["hist"].as_object() {
                    for (k, n) in m {
                        *hist.entry(k.clone()).or_insert(0) += n.as_u64().unwrap_or(0);
                    }
                }
                if let Some(m) = v["skipped"].as_object() {
                    for (k, n) in m {
                        *skipped.entry(k.clone()).or_insert(0) += n.as_u64().unwrap_or(0);
                    }
                }
                if let Some(m) = v["viol_counts"].as_object() {
                    for (k, n) in m {
                        *viol_counts.entry(k.clone()).or_insert(0) += n.as_u64().unwrap_or(0);
                    }
                }
                if let Some(a) = v["samples"].as_array() {
                    for s in a {
                        let c = s["class"].as_str().unwrap_or("").to_string();
                        if samples.len() < 10 && !sample_classes.contains(&c) {
                            sample_classes.insert(c);
                            samples.push(s.clone());
                        }
                    }
                }
                if let Some(a) = v["violations"].as_array() {
                    for s in a {
                        viols.push((s["sig"].as_str().unwrap_or("").to_string(), s.clone()));
                    }
                }
                if let Some(a) = v["harness_errors"].as_array() {
                    for s in a {
                        inconclusive.push(format!("harness error: {}", s.as_str().unwrap_or("?")));
                    }
                }
                if v["fp_capped"].as_bool().unwrap_or(false) {
                    fp_capped = true;
                }
                if let Some(m) = v["extra"].as_object() {
                    for (k, val) in m {
                        // `max_*` extras take the maximum, other numeric extras are summed, others keep the first
                        if k.starts_with("max_") {
                            let a = extra.get(k).and_then(|x| x.as_f64()).unwrap_or(f64::MIN);
                            let b = val.as_f64().unwrap_or(f64::MIN);
                            extra.insert(k.clone(), json!(a.max(b)));
                            continue;
                        }
                        match (extra.get(k).and_then(|x| x.as_u64()), val.as_u64()) {
                            (Some(a), Some(b)) => {
                                extra.insert(k.clone(), json!(a + b));
                            }
                            (None, _) if !extra.contains_key(k) => {
                                extra.insert(k.clone(), val.clone());
                            }
                            _ => {}
                        }
                    }
                }
            } else {
                inconclusive.push(format!("worker {} result unreadable", w));
            }
        } else if !aborted.iter().any(|a| a.0 == w) && inconclusive.is_empty() {
            inconclusive.push(format!("worker {} left no result", w));
        }
        if let Ok(b) = std::fs::read(&fp_path) {
            for ch in b.chunks_exact(8) {
                if fps.len() < 4 * MAX_FP {
                    fps.insert(u64::from_le_bytes(ch.try_into().unwrap()));
                } else {
                    fp_capped = true;
                }
            }
        }
        let _ = std::fs::remove_file(&res_path);
        let _ = std::fs::remove_file(&fp_path);
        let _ = std::fs::remove_file(&crumb_path);
    }
    // a worker that died on a signal / abort: the call it was executing did not return
    for (w, st, crumb) in aborted.iter() {
        let sig = format!("{}|abort|{}", id, crumb_sig(crumb));
        *viol_counts.entry(sig.clone()).or_insert(0) += 1;
        viols.push((
            sig.clone(),
            json!({"sig": sig, "phase": crumb_field(crumb, "phase="), "idx": crumb_field(crumb, "idx="),
                   "detail": {"what": "worker process died while executing a case (abort / signal / stack overflow)",
                              "worker": w, "status": st, "breadcrumb": crumb}}),
        ));
    }

    // floors / required classes
    let mut missing = vec![];
    for c in prop.required_classes(tier) {
        if hist.get(&c).copied().unwrap_or(0) == 0 {
            missing.push(c);
        }
    }
    if !missing.is_empty() {
        inconclusive.push(format!("required coverage classes never observed: {}", missing.join(", ")));
    }
    if evaluations < prop.min_evaluations(tier) {
        inconclusive.push(format!("only {} evaluations (floor {})", evaluations, prop.min_evaluations(tier)));
    }
    let distinct = fps.len() as u64;
    if distinct < 2 {
        inconclusive.push(format!("only {} distinct non-trivial cases", distinct));
    }

    // known findings filter
    let known = match load_known() {
        Ok(k) => k,
        Err(e) => {
            inconclusive.push(e);
            vec![]
        }
    };
    let mut new_sigs: Vec<String> = vec![];
    let mut known_hit: Vec<(String, String, u64)> = vec![];
    for (sig, n) in viol_counts.iter() {
        match known.iter().find(|k| k.property == id && k.signature == *sig && k.status == "known") {
            Some(k) => known_hit.push((sig.clone(), k.what.clone(), *n)),
            None => new_sigs.push(sig.clone()),
        }
    }
    let replay_dir = if std::env::var("VERIF_REPO_PATH").map(|r| r != "/repo").unwrap_or(false) { run_dir().join("replays-scratch") } else { verif_home().join("replays") };
    let _ = std::fs::create_dir_all(&replay_dir);
    let mut viol_lines = vec![];
    for (k, sig) in new_sigs.iter().enumerate() {
        let rec = viols.iter().find(|(s, _)| s == sig).map(|(_, r)| r.clone()).unwrap_or(json!({}));
        let fname = replay_dir.join(format!("{}-{}.json", id, sanitize(sig)));
        let doc = json!({
            "property": id, "tier": tier.name(), "seed": seed as i64,
            "signature": sig, "occurrences": viol_counts[sig],
            "phase": rec["phase"], "idx": rec["idx"], "detail": rec["detail"],
        });
        if k < 40 {
            let _ = std::fs::write(&fname, serde_json::to_vec_pretty(&doc).unwrap());
        }
        viol_lines.push(format!("VIOLATION property={} replay={}", id, fname.display()));
    }

    let wall = t0.elapsed().as_secs_f64();
    // evidence
    let mut cov = Map::new();
    cov.insert("evaluations".into(), json!(evaluations));
    cov.insert("distinct_nontrivial".into(), json!(distinct));
    cov.insert("rule".into(), json!(prop.rule()));
    if samples.is_empty() {
        samples.push(json!({"note": "no sample recorded"}));
    }
    cov.insert("samples".into(), Value::Array(samples));
    cov.insert("assertions".into(), json!(assertions));
    cov.insert("histograms".into(), json!(hist));
    cov.insert("skipped".into(), json!(skipped));
    cov.insert("exhaustive".into(), json!(prop.exhaustive(tier)));
    cov.insert("workers".into(), json!(nworkers));
    cov.insert("distinct_count_capped".into(), json!(fp_capped));
    cov.insert(
        "phases".into(),
        Value::Array(prop.phases(tier).iter().map(|p| json!({"name": p.name, "cases": p.count})).collect()),
    );
    cov.insert(
        "known_findings_observed".into(),
        Value::Array(known_hit.iter().map(|(s, w, n)| json!({"signature": s, "what": w, "occurrences": n})).collect()),
    );
    cov.insert(
        "violation_signatures".into(),
        Value::Array(new_sigs.iter().map(|s| json!({"signature": s, "occurrences": viol_counts[s]})).collect()),
    );
    if !inconclusive.is_empty() {
        cov.insert("inconclusive".into(), json!(inconclusive));
    }
    for (k, v) in extra {
        cov.insert(k, v);
    }
    let ev = json!({
        "property_id": id,
        "tier": tier.name(),
        "seed": seed as i64,
        "level": "exploration",
        "coverage": Value::Object(cov),
        "assumptions": prop.assumptions(),
        "wall_s": wall,
        "violations": new_sigs.len() as i64,
    });
    // runs aimed at a scratch copy of the repository (mutation validation) must not overwrite the
    // evidence of the repository under test
    let repo_under_test = std::env::var("VERIF_REPO_PATH").unwrap_or_else(|_| "/repo".to_string());
    let evdir = if repo_under_test == "/repo" { verif_home().join("evidence") } else { run_dir().join("evidence-scratch") };
    let _ = std::fs::create_dir_all(&evdir);
    let evpath = evdir.join(format!("{}.json", id));
    let tmp = evdir.join(format!("{}.json.{}.tmp", id, std::process::id()));
    if std::fs::write(&tmp, serde_json::to_vec_pretty(&ev).unwrap()).is_ok() {
        let _ = std::fs::rename(&tmp, &evpath);
    }

    // report
    for (sig, what, n) in known_hit.iter() {
        println!("KNOWN-FINDING: property={} {} [signature {} observed {}x]", id, what, sig, n);
    }
    let stdout = std::io::stdout();
    let mut so = stdout.lock();
    for l in viol_lines.iter() {
        let _ = writeln!(so, "{}", l);
    }
    let _ = writeln!(
        so,
        "{} {} seed={} evaluations={} assertions={} distinct_nontrivial={} classes={} skipped={} wall={:.1}s",
        id,
        tier.name(),
        seed as i64,
        evaluations,
        assertions,
        distinct,
        hist.len(),
        skipped.values().sum::<u64>(),
        wall
    );
    if !new_sigs.is_empty() {
        for s in new_sigs.iter().take(20) {
            let _ = writeln!(so, "  violated: {} ({}x)", s, viol_counts[s]);
        }
        return Outcome { exit: 1 };
    }
    if !inconclusive.is_empty() {
        for r in inconclusive.iter() {
            let _ = writeln!(so, "INCONCLUSIVE property={} reason={}", id, r);
        }
        return Outcome { exit: 2 };
    }
    let _ = writeln!(so, "HELD property={} on everything observed", id);
    Outcome { exit: 0 }
}

fn sanitize(s: &str) -> String {
    let mut o: String = s
        .chars()
        .map(|c| if c.is_ascii_alphanumeric() || c == '-' || c == '_' || c == '.' { c } else { '_' })
        .collect();
    if o.len() > 120 {
        let h = crate::rng::hash_str(s);
        o.truncate(100);
        o.push_str(&format!("_{:x}", h));
    }
    o
}

fn crumb_field(crumb: &str, key: &str) -> Value {
    crumb
        .split_whitespace()
        .find_map(|t| t.strip_prefix(key))
        .and_then(|v| v.parse::<u64>().ok())
        .map(|v| json!(v))
        .unwrap_or(Value::Null)
}

fn crumb_sig(crumb: &str) -> String {
    // the free text after the case key, truncated: which call was in flight
    let mut parts = crumb.splitn(3, ' ');
    let _ = parts.next();
    let _ = parts.next();
    let rest = parts.next().unwrap_or("");
    let mut s: String = rest.chars().take(60).collect();
    if s.is_empty() {
        s = "unknown".into();
    }
    s
}

pub fn replay_main(prop: &mut dyn Prop, file: &str) -> i32 {
    install_panic_hook();
    let txt = match std::fs::read_to_string(file) {
        Ok(t) => t,
        Err(e) => {
            println!("INCONCLUSIVE property={} reason=cannot read replay file: {}", prop.id(), e);
            return 2;
        }
    };
    let v: Value = match serde_json::from_str(&txt) {
        Ok(v) => v,
        Err(e) => {
            println!("INCONCLUSIVE property={} reason=replay file is not JSON: {}", prop.id(), e);
            return 2;
        }
    };
    let tier = if v["tier"].as_str() == Some("thorough") { Tier::Thorough } else { Tier::Quick };
    let seed = v["seed"].as_i64().unwrap_or(0) as u64;
    let (phase, idx) = match (v["phase"].as_u64(), v["idx"].as_u64()) {
        (Some(p), Some(i)) => (p as usize, i),
        _ => {
            println!("INCONCLUSIVE property={} reason=replay file has no case key", prop.id());
            return 2;
        }
    };
    let mut ctx = Ctx::new(tier, seed, 0, 1, true);
    let id = prop.id();
    println!("replaying {} tier={} seed={} phase={} idx={}", id, tier.name(), seed as i64, phase, idx);
    println!("recorded signature: {}", v["signature"]);
    run_one(prop, &mut ctx, id, phase, idx);
    if !ctx.harness_errors.is_empty() {
        for e in &ctx.harness_errors {
            println!("harness error: {}", e);
        }
        return 2;
    }
    if ctx.violations.is_empty() {
        println!("case did not reproduce a violation on the current tree ({} evaluations, {} assertions)", ctx.evaluations, ctx.assertions);
        return 0;
    }
    for vv in ctx.violations.iter() {
        println!("reproduced: {}", vv.sig);
        println!("{}", serde_json::to_string_pretty(&vv.detail).unwrap_or_default());
    }
    println!("VIOLATION property={} replay={}", id, file);
    1
}
