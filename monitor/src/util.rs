//! Small helpers shared by the monitors.

use serde_json::{json, Value};

/// distance in units in the last place between two finite doubles (u64::MAX if not comparable)
pub fn ulp_diff(a: f64, b: f64) -> u64 {
    if a == b {
        return 0;
    }
    if !a.is_finite() || !b.is_finite() {
        if a.is_nan() && b.is_nan() {
            return 0;
        }
        return u64::MAX;
    }
    let to_ord = |x: f64| -> i64 {
        let b = x.to_bits() as i64;
        if b < 0 {
            i64::MIN.wrapping_sub(b) // map negative floats to a monotone integer line
        } else {
            b
        }
    };
    let (x, y) = (to_ord(a), to_ord(b));
    (x as i128 - y as i128).unsigned_abs().min(u64::MAX as u128) as u64
}

/// |a-b| <= k ulp of the larger magnitude, or both within `abs_floor`
pub fn close_ulps(a: f64, b: f64, k: u64, abs_floor: f64) -> bool {
    if a == b {
        return true;
    }
    if (a - b).abs() <= abs_floor {
        return true;
    }
    ulp_diff(a, b) <= k
}

pub fn rel_close(a: f64, b: f64, rel: f64, abs: f64) -> bool {
    if a == b {
        return true;
    }
    if !(a.is_finite() && b.is_finite()) {
        return a.is_nan() && b.is_nan();
    }
    (a - b).abs() <= abs + rel * a.abs().max(b.abs())
}

pub fn same_bits(a: f64, b: f64) -> bool {
    a.to_bits() == b.to_bits() || (a == b) && !(a == 0.0) // +0/-0 distinguished, NaN payloads compared by bits
}

/// JSON cannot carry NaN/inf; render floats so that a reader sees the exact value
pub fn fj(x: f64) -> Value {
    if x.is_finite() {
        json!(x)
    } else {
        json!(format!("{}", x))
    }
}

pub fn fjv(xs: &[f64]) -> Value {
    Value::Array(xs.iter().map(|x| fj(*x)).collect())
}

pub fn hash_u64s(xs: &[u64]) -> u64 {
    let mut h = 0x243F_6A88_85A3_08D3u64;
    for x in xs {
        h = crate::rng::mix(h, *x);
    }
    h
}

pub fn hash_str(s: &str) -> u64 {
    crate::rng::hash_str(s)
}

/// at most `n` bytes of `s`, cut on a character boundary
pub fn clip(s: &str, n: usize) -> &str {
    if s.len() <= n {
        return s;
    }
    let mut c = n;
    while c > 0 && !s.is_char_boundary(c) {
        c -= 1;
    }
    &s[..c]
}
