#!/usr/bin/env bash
# setup_cmd: offline build of the monitor against /repo (hooks on) + self-tests of the trusted oracles.
set -e
cd "$(dirname "${BASH_SOURCE[0]}")"
export CARGO_NET_OFFLINE=true
mkdir -p evidence replays .run
# builds (exit 2 from ./check = build failure) and runs the oracle self-tests
./check selftest
