#!/usr/bin/env python3
"""stdin: `llvm-cov export -format=text` JSON.  stdout: per rateslib source file, the functions (demangled
roughly) that were / were not entered, merged over monomorphisations."""
import json, sys, re, collections

d = json.load(sys.stdin)
per = collections.defaultdict(lambda: {})
for f in d["data"][0]["functions"]:
    files = [x for x in f["filenames"] if "/rust/" in x and "/root/" not in x and "/rustc/" not in x]
    if not files:
        continue
    fn = files[0]
    # key a function by file + first region's start line: merges generic instantiations
    line = f["regions"][0][0] if f["regions"] else 0
    key = (fn, line)
    ent = per[fn].setdefault(line, {"count": 0, "name": f["name"]})
    ent["count"] += f["count"]
out = {}
for fn, m in sorted(per.items()):
    short = fn.split("/rust/", 1)[1]
    cov = sorted(l for l, e in m.items() if e["count"] > 0)
    unc = sorted(l for l, e in m.items() if e["count"] == 0)
    out[short] = {"functions": len(m), "entered": len(cov), "not_entered_at_lines": unc}
json.dump(out, sys.stdout, indent=1)
