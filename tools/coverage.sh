#!/usr/bin/env bash
# tools/coverage.sh [Cxx ...] : which rateslib source lines / functions does each property's QUICK workload
# actually execute?  Builds the monitor with -Cinstrument-coverage (nightly, its own target dir), runs each
# quick check, merges the per-process profiles and writes
#   .run/cov/<Cxx>.files.txt   per-file line / function coverage of /repo/rust
#   .run/cov/<Cxx>.uncovered_functions.txt  functions of /repo/rust never entered, by file
# Development-time tool: it answers "what does the workload never drive" - it is not a deciding check.
set -u
HERE="$(cd "$(dirname "$0")/.." && pwd)"
cd "$HERE"
props="${*:-C01 C02 C03 C04 C05 C06 C07 C08 C09 C10 C11 C12 C13 C14 C15 C16 C17 C18 C19 C20}"
export CARGO_NET_OFFLINE=true
T="$HERE/.target-cov"
BIN=$(rustc +nightly --print sysroot)/lib/rustlib/x86_64-unknown-linux-gnu/bin
sed "s#@REPO@#/repo#g" monitor/Cargo.toml.in > monitor/Cargo.toml.covtmp
cmp -s monitor/Cargo.toml.covtmp monitor/Cargo.toml || cp monitor/Cargo.toml.covtmp monitor/Cargo.toml
rm -f monitor/Cargo.toml.covtmp
LLVM_PROFILE_FILE=/dev/null RUSTFLAGS="-Cinstrument-coverage" cargo +nightly build --release --offline --manifest-path monitor/Cargo.toml --target-dir "$T" 2>&1 | tail -3
OUT="$HERE/.run/cov"; mkdir -p "$OUT"
export VERIF_HOME="$HERE/.run/covhome"; mkdir -p "$VERIF_HOME/evidence" "$VERIF_HOME/replays"
cp "$HERE/known_findings.json" "$VERIF_HOME/" 2>/dev/null
export VERIF_REPO_PATH=/repo
for p in $props; do
  rm -f "$OUT"/raw-$p-*.profraw
  LLVM_PROFILE_FILE="$OUT/raw-$p-%p-%m.profraw" "$T/release/rvmon" $p quick > "$OUT/$p.run.txt" 2>&1
  echo "$p quick (coverage build) exit=$?"
  "$BIN/llvm-profdata" merge -sparse "$OUT"/raw-$p-*.profraw -o "$OUT/$p.profdata" && rm -f "$OUT"/raw-$p-*.profraw
  "$BIN/llvm-cov" report "$T/release/rvmon" -instr-profile="$OUT/$p.profdata" --ignore-filename-regex='(/root/|/rustc/|/verif/|rust/verif.rs|_py\.rs|/py/)' 2>/dev/null > "$OUT/$p.files.txt"
  "$BIN/llvm-cov" export "$T/release/rvmon" -instr-profile="$OUT/$p.profdata" --ignore-filename-regex='(/root/|/rustc/|/verif/)' -format=text 2>/dev/null \
    | python3 "$HERE/tools/cov_functions.py" > "$OUT/$p.functions.json"
done
