#!/usr/bin/env python3
"""Regenerate /verif/MANIFEST.json from the table below (run after adding a monitor)."""
import json, os, subprocess, sys
HERE = os.path.dirname(os.path.dirname(os.path.abspath(__file__)))

TRUST = "Trusted base: the harness oracles in monitor/src (self-tested by setup.sh), rustc/cargo, and the embedded CPython used only so that rateslib's own error formatting works. Observes only the executions it generates."

CHECKS = {
 # id: (technique, level text, design ref, level note)
 "C07": ("exhaustive sweep of 14 names x 84371 dates against an independent holiday-rules engine + fixing-file back-tests",
         "Exhaustive runtime comparison over the complete finite domain (every date 1970-2200 of every built-in calendar) with a hand-transcribed rule engine, plus the 9 shipped fixing histories. For the pinned tables the verdict is as strong as the transcription of the published rules.",
         "DESIGN.md 3/C07",
         TRUST + " Rule tables transcribed by hand from rust/calendars/named/*_script.py."),
}

NOT_YET = {}

def main():
    props = [json.loads(l) for l in open(os.path.join(HERE, "properties.jsonl"))]
    hooks_commits = []
    try:
        out = subprocess.run(["git", "-C", "/repo", "log", "--format=%h %s"], capture_output=True, text=True).stdout
        hooks_commits = [l.split()[0] for l in out.splitlines() if "verif hook" in l]
    except Exception:
        pass
    checks = []
    na = []
    for p in props:
        pid = p["id"]
        if pid in CHECKS:
            tech, text, ref, note = CHECKS[pid]
            checks.append({
                "property_id": pid,
                "quick_cmd": f"./check {pid} quick",
                "thorough_cmd": f"./check {pid} thorough",
                "evidence_file": f"/verif/evidence/{pid}.json",
                "replay_cmd_template": f"./check {pid} --replay {{path}}",
                "engine": "rvmon",
                "level_claimed": {"category": "exploration", "text": text, "design_ref": ref},
                "level_note": note,
                "technique": "runtime monitoring: " + tech,
            })
        else:
            na.append({"property_id": pid, "reason": NOT_YET.get(pid, "monitor not built yet in this round (planned: see DESIGN.md section 3); no check is registered, nothing is claimed")})
    m = {
        "version": 1,
        "setup_cmd": "./setup.sh",
        "hooks": {
            "guard": "cargo feature `verif` of crate rateslib (off by default)",
            "enable": "the monitor crate depends on rateslib = { path = \"/repo\", features = [\"verif\"] }; ./check regenerates monitor/Cargo.toml and runs cargo build --release --offline",
            "baseline_off_cmd": "cd /repo && cargo nextest run --workspace --no-fail-fast --offline",
            "source_commits": hooks_commits,
            "add_only": True,
        },
        "engines": [{"name": "rvmon", "path": "/verif/monitor", "serves_properties": sorted(CHECKS.keys()),
                     "kind_free_text": "Rust harness: supervisor + worker processes running the real rateslib code under generated / exhaustive workloads with independent oracles (reference AD, calendar bit-vector model, holiday rules engine, polynomial B-spline oracle), offline history checkers, breadcrumbs and catch_unwind"}],
        "checks": checks,
        "notes": "All checks: exit 0 held / 1 VIOLATION / 2 inconclusive. VERIF_SEED drives every random choice; the tier is the second argument. Known findings: /verif/known_findings.json.",
        "not_applicable": na,
    }
    json.dump(m, open(os.path.join(HERE, "MANIFEST.json"), "w"), indent=1)
    try:
        import jsonschema
        jsonschema.validate(m, json.load(open("/root/.vp/MANIFEST.schema.json")))
        print("MANIFEST.json valid;", len(checks), "checks,", len(na), "not claimed")
    except ImportError:
        print("jsonschema not importable here; written without validation")

if __name__ == "__main__":
    main()
