#!/usr/bin/env python3
"""Regenerate /verif/MANIFEST.json from the table below (run after adding a monitor)."""
import json, os, subprocess, sys
HERE = os.path.dirname(os.path.dirname(os.path.abspath(__file__)))

TRUST = "Trusted base: the harness oracles in monitor/src (self-tested by setup.sh), rustc/cargo, and the embedded CPython used only so that rateslib's own error formatting works. Observes only the executions it generates."

CHECKS = {
 # id: (technique, level text, design ref, level note)
 "C01": ("seeded expression-tree workload on Dual; every node compared with an independent name-keyed reference AD inside a stochastic-rounding noise band",
         "Runtime oracle over 10^4..10^6 generated expression trees covering every (operator x operand form x ownership x variable-list relationship) class, checked at every intermediate node. Held-on-observed, not a proof: reach is depth<=7, <=6 variables.",
         "DESIGN.md 3/C01", TRUST),
 "C02": ("the C01 tree workload on Dual2 with full-Hessian reference AD, plus gradient2 read-back, symmetry, down-conversion and Dual/Dual2 cross-type checks",
         "Runtime oracle over generated trees: value, gradient and every Hessian entry of every node against reference AD within a measured noise band; bit-exact down-conversion.",
         "DESIGN.md 3/C02", TRUST),
 "C03": ("complete enumeration of ordered variable-list pairs x storage modes x operators with a canonical-layout and reference-AD oracle",
         "Exhaustive over the layout space of a 4-name (quick) / 5-name (thorough) pool: every ordered list pair, shared/unshared/zero-padded storage, + - * / % and ==, Dual and Dual2; coefficient values are sampled.",
         "DESIGN.md 3/C03", TRUST),
 "C09": ("complete enumeration of labelled trees (n<=4 quick, n<=5 thorough) x orientations x quote orders x bases, plus random trees to n=12 and derived invalid sets, against BFS path products and a union-find validity oracle",
         "Exhaustive over the finite structure space of small markets, sampled for n up to 12 and for rates; every one of the n^2 rates of every market is judged. The triangulation trace hook shows how many distinct solver paths were driven.",
         "DESIGN.md 3/C09", TRUST),
 "C10": ("closed-form sensitivity oracle for every cross x quote variable at orders 1 and 2; history checker comparing the object after every operation with a fresh build from the model's latest quotes and bit-comparing state across refused updates",
         "Runtime oracle + offline-style history checking at the API boundary over sampled markets and operation sequences of length 1-30.",
         "DESIGN.md 3/C10", TRUST),
 "C11": ("seeded curves x 5 rules x both constructors x at/around/between/beyond-node queries against closed forms on a linear-scan interval oracle; index_left on float lists",
         "Runtime oracle over 10^4..10^6 generated curves (second-resolution timestamps, 1 s .. 10 y spacing, shuffled supply) with conditioning-aware tolerances.",
         "DESIGN.md 3/C11", TRUST),
 "C12": ("history checker over derivative-order switch sequences: a model of (node values as reference-AD numbers, current names) predicts node read-back, values and sensitivities after every switch",
         "Runtime oracle + history model at the API boundary of the Python-facing Curve object; closed forms differentiated by reference AD inside the noise band.",
         "DESIGN.md 3/C12", TRUST),
 "C13": ("seeded well-conditioned systems of every entry type and pivot-forcing sparsity pattern; residual A x - b (normal equations for lsq) evaluated in reference-AD arithmetic for value and every first / second derivative; row-permutation invariance",
         "Runtime oracle over 10^4..10^5 generated systems (n<=8, tall to 12x6); a residual check cannot be fooled by a bug in the solver's own multiplication because the residual is formed by the reference arithmetic.",
         "DESIGN.md 3/C13", TRUST),
 "C14": ("every basis index x derivative order x knot / end-point / neighbouring-float evaluation points on seeded knot vectors against an independent piecewise-polynomial oracle (Cox-de Boor on coefficient vectors + Horner) with magnitude-derived tolerance",
         "Runtime oracle over 10^3..10^4 knot vectors (2.6*10^6 .. 10^8 evaluations) for orders 1..6 incl. repeated interior knots; checks value, all derivatives, non-negativity, support, partition of unity.",
         "DESIGN.md 3/C14", TRUST),
 "C15": ("metamorphic and oracle checks on solved splines: data / end-condition reproduction (also through the independent basis oracle on the returned coefficients), polynomial reproduction, linearity in the data against unit-vector splines, chain rule for Dual / Dual2 abscissae, error paths, 3x3 type table",
         "Runtime oracle over 10^3..10^5 generated (order, knots, site layout, data) combinations, collocation matrices pre-screened for conditioning.",
         "DESIGN.md 3/C15", TRUST),
 "C16": ("seeded hostile objects of every serialisable kind through serde_json, the tagged from_json container and bincode, compared by the type's == and bit-for-bit field / query comparison",
         "Runtime oracle over 10^4..10^5 generated objects with random finite bit patterns, sub-normals, extreme exponents, hostile names and non-midnight timestamps; three serialisation paths each.",
         "DESIGN.md 3/C16", TRUST),
 "C17": ("complete enumeration of stored-list x requested-list pairs with a name-keyed lookup oracle; manifold product rule against reference AD",
         "Exhaustive over (stored list, requested list) on a small pool for gradient1/gradient2/gradient1_manifold (exact comparison), sampled for the product-rule identity.",
         "DESIGN.md 3/C17", TRUST),
 "C18": ("full conversion table and Number operator table, each cell compared bit-for-bit with the operation on the contained types; refusal observed with catch_unwind",
         "Every cell of the (kind x order) conversion table, every From impl and every (operator x kind pairing x ownership) cell of the Number container on sampled values.",
         "DESIGN.md 3/C18", TRUST + " The contained-type operations are judged by C01/C02/C19."),
 "C19": ("seeded boundary/random pairs on Dual, Dual2 and Number against float comparison, exact sign-flip / fold / identity oracles and reference-AD remainder",
         "Runtime oracle over 10^5..10^6 generated pairs including negative values and divisors, equal values, +-0 and NaN (comparisons).",
         "DESIGN.md 3/C19", TRUST),
 "C04": ("calendar zoo x every date x 5 modifiers x both flags against linear scans over a bus/settle bit-vector model; probing proxy calendar with a logical-step budget",
         "Runtime oracle: exhaustive over dates for the 14 built-ins (thorough: every date 1970-2200) and sampled over generated calendars/unions with hostile holiday sets; termination restated as a 10^6-probe bound.",
         "DESIGN.md 3/C04", TRUST + " is_bus_day/is_settlement are taken as given (judged in C06/C07)."),
 "C05": ("all 256 day counts x both flags x business/non-business starts on the calendar zoo against rank/select over the bit-vector model",
         "Runtime oracle sweeping the complete i8 parameter range for add_bus_days (with inverse), lag, add_days and bus_date_range on sampled calendars and start dates.",
         "DESIGN.md 3/C05", TRUST),
 "C06": ("every date 1970-2200 of generated unions / name strings against the conjunction of member predicates; equality near-miss pairs against date-by-date agreement",
         "Runtime oracle, exhaustive over dates, sampled over member selections, name strings and near-miss pairs; all kind pairings and operand orders of ==.",
         "DESIGN.md 3/C06", TRUST),
 "C08": ("add_months(Act) against own civil arithmetic for every start date x offset x roll kind; helper functions for every month; adjusting modifiers against the C04 oracle",
         "Thorough tier enumerates every start date 1970-2200 x 83 offsets x 35 roll kinds (2.4*10^8 calls); quick samples 3*10^5 plus a boundary set.",
         "DESIGN.md 3/C08", TRUST),
 "C20": ("catch_unwind + shape-invariant checker around every fallible entry point under boundary / random arguments, full i8 sweeps of the date arithmetic and structural JSON mutation; worker processes with breadcrumbs observe aborts",
         "Runtime fault-style exploration: 5*10^5 (quick) .. 10^7 (thorough) calls incl. 6*10^4 .. 5*10^6 mutated JSON documents of every kind through per-type and tagged entry points; every Ok is checked against the constructors' invariants and an independent validity oracle.",
         "DESIGN.md 3/C20", TRUST),
 "C07": ("exhaustive sweep of 14 names x 84371 dates against an independent holiday-rules engine + fixing-file back-tests",
         "Exhaustive runtime comparison over the complete finite domain (every date 1970-2200 of every built-in calendar) with a hand-transcribed rule engine, plus the 9 shipped fixing histories. For the pinned tables the verdict is as strong as the transcription of the published rules.",
         "DESIGN.md 3/C07",
         TRUST + " Rule tables transcribed by hand from rust/calendars/named/*_script.py."),
}

NOT_YET = {}

def main():
    props = [json.loads(l) for l in open(os.path.join(HERE, "properties.jsonl"))]
    hooks_commits = []
    try:
        out = subprocess.run(["git", "-C", "/repo", "log", "--format=%h %s"], capture_output=True, text=True).stdout
        hooks_commits = [l.split()[0] for l in out.splitlines() if "verif hook" in l]
    except Exception:
        pass
    checks = []
    na = []
    for p in props:
        pid = p["id"]
        if pid in CHECKS:
            tech, text, ref, note = CHECKS[pid]
            checks.append({
                "property_id": pid,
                "quick_cmd": f"./check {pid} quick",
                "thorough_cmd": f"./check {pid} thorough",
                "evidence_file": f"/verif/evidence/{pid}.json",
                "replay_cmd_template": f"./check {pid} --replay {{path}}",
                "engine": "rvmon",
                "level_claimed": {"category": "exploration", "text": text, "design_ref": ref},
                "level_note": note,
                "technique": "runtime monitoring: " + tech,
            })
        else:
            na.append({"property_id": pid, "reason": NOT_YET.get(pid, "monitor not built yet in this round (planned: see DESIGN.md section 3); no check is registered, nothing is claimed")})
    m = {
        "version": 1,
        "setup_cmd": "./setup.sh",
        "hooks": {
            "guard": "cargo feature `verif` of crate rateslib (off by default)",
            "enable": "the monitor crate depends on rateslib = { path = \"/repo\", features = [\"verif\"] }; ./check regenerates monitor/Cargo.toml and runs cargo build --release --offline",
            "baseline_off_cmd": "cd /repo && cargo nextest run --workspace --no-fail-fast --offline",
            "source_commits": hooks_commits,
            "add_only": True,
        },
        "engines": [{"name": "rvmon", "path": "/verif/monitor", "serves_properties": sorted(CHECKS.keys()),
                     "kind_free_text": "Rust harness: supervisor + worker processes running the real rateslib code under generated / exhaustive workloads with independent oracles (reference AD, calendar bit-vector model, holiday rules engine, polynomial B-spline oracle), offline history checkers, breadcrumbs and catch_unwind"}],
        "checks": checks,
        "notes": "All checks: exit 0 held / 1 VIOLATION / 2 inconclusive. VERIF_SEED drives every random choice; the tier is the second argument. Known findings: /verif/known_findings.json.",
        "not_applicable": na,
    }
    json.dump(m, open(os.path.join(HERE, "MANIFEST.json"), "w"), indent=1)
    try:
        import jsonschema
        jsonschema.validate(m, json.load(open("/root/.vp/MANIFEST.schema.json")))
        print("MANIFEST.json valid;", len(checks), "checks,", len(na), "not claimed")
    except ImportError:
        print("jsonschema not importable here; written without validation")

if __name__ == "__main__":
    main()
