#!/usr/bin/env python3
"""Development-time validation of the monitors (not registered in MANIFEST.json).

Applies hand-written single-edit mutants of /repo to a scratch git worktree under /tmp, keeps
those that still compile and pass the 229 pinned tests (test-surviving), and runs the property's
quick check against the scratch copy (VERIF_REPO). A mutant is "killed" when the check exits 1
with a VIOLATION line. Results: tools/mutants_result.json. The scratch worktree and all build
output are removed at the end.

usage: tools/mutants.py [--only C01,C05] [--keep]
"""
import json, os, subprocess, sys, shutil, time

HERE = os.path.dirname(os.path.dirname(os.path.abspath(__file__)))
SCRATCH = "/tmp/rvmon-mutants/repo"
TGT = "/tmp/rvmon-mutants/target"

# (property, name, file, old, new[, count])  -- `old` must occur exactly once unless count given
M = [
 ("C01", "f64-minus-dual keeps sign of derivative", "rust/dual/dual_ops/sub.rs",
  "impl_op_ex!(-|a: &f64, b: &Dual| -> Dual {\n    Dual {\n        vars: Arc::clone(&b.vars),\n        real: a - b.real,\n        dual: -(b.dual.clone()),",
  "impl_op_ex!(-|a: &f64, b: &Dual| -> Dual {\n    Dual {\n        vars: Arc::clone(&b.vars),\n        real: a - b.real,\n        dual: b.dual.clone(),"),
 ("C01", "owned Dual pow uses power instead of power-1", "rust/dual/dual_ops/pow.rs",
  "            vars: self.vars,\n            dual: self.dual * power * self.real.pow(power - 1.0),",
  "            vars: self.vars,\n            dual: self.dual * power * self.real.pow(power),"),
 ("C01", "Dual log derivative 1/x^2", "rust/dual/dual_ops/math_funcs.rs",
  "            real: self.real.ln(),\n            vars: Arc::clone(&self.vars),\n            dual: (1.0 / self.real) * &self.dual,",
  "            real: self.real.ln(),\n            vars: Arc::clone(&self.vars),\n            dual: (1.0 / (self.real * self.real)) * &self.dual,"),
 ("C01", "Dual norm_cdf misses 1/sqrt(2pi)", "rust/dual/dual_ops/math_funcs.rs",
  "        let base = n.cdf(self.real);\n        let scalar = 1.0 / (2.0 * PI).sqrt() * (-0.5_f64 * self.real.pow(2.0_f64)).exp();\n        Dual {",
  "        let base = n.cdf(self.real);\n        let scalar = (-0.5_f64 * self.real.pow(2.0_f64)).exp();\n        Dual {"),
 ("C01", "Dual abs does not negate derivatives", "rust/dual/dual_ops/signed.rs",
  "            Dual {\n                real: -self.real,\n                vars: Arc::clone(&self.vars),\n                dual: -1.0 * &self.dual,",
  "            Dual {\n                real: -self.real,\n                vars: Arc::clone(&self.vars),\n                dual: self.dual.clone(),"),
 ("C01", "Dual*Dual on different variable lists uses wrong factor", "rust/dual/dual_ops/mul.rs",
  "                real: x.real * y.real,\n                dual: &x.dual * y.real + &y.dual * x.real,\n                vars: Arc::clone(&x.vars),\n            }\n        }\n    }\n});\n\n// impl Mul for Dual2",
  "                real: x.real * y.real,\n                dual: &x.dual * y.real + &y.dual * y.real,\n                vars: Arc::clone(&x.vars),\n            }\n        }\n    }\n});\n\n// impl Mul for Dual2"),
 ("C01", "Dual/f64 multiplies derivative instead of dividing", "rust/dual/dual_ops/div.rs",
  "impl_op_ex!(/ |a: &Dual, b: &f64| -> Dual { Dual {vars: Arc::clone(&a.vars), real: a.real / b, dual: (1_f64/b) * &a.dual} });",
  "impl_op_ex!(/ |a: &Dual, b: &f64| -> Dual { Dual {vars: Arc::clone(&a.vars), real: a.real / b, dual: *b * &a.dual} });"),
 ("C02", "Dual2 mul cross term not halved (equal-vars branch)", "rust/dual/dual_ops/mul.rs",
  "            let cross_beta = fouter11_(&a.dual.view(), &b.dual.view());\n            dual2 = dual2 + 0.5_f64 * (&cross_beta + &cross_beta.t());",
  "            let cross_beta = fouter11_(&a.dual.view(), &b.dual.view());\n            dual2 = dual2 + 1.0_f64 * (&cross_beta + &cross_beta.t());"),
 ("C02", "&Dual2 pow coeff2 exponent off by one", "rust/dual/dual_ops/pow.rs",
  "        let coeff2 = 0.5 * power * (power - 1.) * self.real.powf(power - 2.);\n        let beta_cross = fouter11_(&self.dual.view(), &self.dual.view());\n        Dual2 {\n            real: self.real.powf(power),\n            vars: Arc::clone(self.vars()),",
  "        let coeff2 = 0.5 * power * (power - 1.) * self.real.powf(power - 1.);\n        let beta_cross = fouter11_(&self.dual.view(), &self.dual.view());\n        Dual2 {\n            real: self.real.powf(power),\n            vars: Arc::clone(self.vars()),"),
 ("C02", "Dual2 inv_norm_cdf second-order sign", "rust/dual/dual_ops/math_funcs.rs",
  "        let scalar2 = scalar.pow(2.0_f64) * base;", "        let scalar2 = -scalar.pow(2.0_f64) * base;"),
 ("C02", "From<&Dual2> for Dual drops derivatives", "rust/dual/dual_ops/from.rs",
  "impl From<&Dual2> for Dual {\n    fn from(value: &Dual2) -> Self {\n        Dual {\n            real: value.real,\n            vars: value.vars.clone(),\n            dual: value.dual.clone(),",
  "impl From<&Dual2> for Dual {\n    fn from(value: &Dual2) -> Self {\n        Dual {\n            real: value.real,\n            vars: value.vars.clone(),\n            dual: &value.dual * 0.0,"),
 ("C02", "Dual2 to_new_vars drops off-diagonal second-order terms", "rust/dual/dual.rs",
  "                                    Some(col_value) => {\n                                        dual2_[[i, j]] = self.dual2[[*row_value, *col_value]]\n                                    }",
  "                                    Some(col_value) => {\n                                        if i == j {\n                                            dual2_[[i, j]] = self.dual2[[*row_value, *col_value]]\n                                        }\n                                    }"),
 ("C02", "gradient2 fast path not doubled", "rust/dual/dual.rs",
  "                2.0_f64 * self.dual2()", "                1.0_f64 * self.dual2()"),
 ("C02", "Dual2 exp second-order term not halved", "rust/dual/dual_ops/math_funcs.rs",
  "            dual2: c * (&self.dual2 + 0.5 * fouter11_(&self.dual.view(), &self.dual.view())),",
  "            dual2: c * (&self.dual2 + fouter11_(&self.dual.view(), &self.dual.view())),"),
 ("C03", "Dual2 == ignores second order after re-layout", "rust/dual/dual_ops/eq.rs",
  "                    x.dual.iter().eq(y.dual.iter()) && x.dual2.iter().eq(y.dual2.iter())",
  "                    x.dual.iter().eq(y.dual.iter())"),
 ("C03", "Superset operands not re-laid out", "rust/dual/dual.rs",
  "                other.to_new_vars(self.vars(), Some(VarsRelationship::Subset)),",
  "                other.to_new_vars(self.vars(), Some(VarsRelationship::ValueEquivalent)),"),
 ("C03", "Dual-Dual on different lists adds derivatives", "rust/dual/dual_ops/sub.rs",
  "            Dual {\n                real: x.real - y.real,\n                dual: &x.dual - &y.dual,",
  "            Dual {\n                real: x.real - y.real,\n                dual: &x.dual + &y.dual,"),
 ("C03", "vars_cmp: equal length treated as ValueEquivalent regardless of order", "rust/dual/dual.rs",
  "        } else if self.vars().len() == arc_vars.len()\n            && self.vars().iter().zip(arc_vars.iter()).all(|(a, b)| a == b)\n        {",
  "        } else if self.vars().len() == arc_vars.len()\n            && self.vars().iter().all(|a| arc_vars.contains(a))\n        {"),
 ("C04", "modified following compares years instead of months", "rust/calendars/dateroll.rs",
  "        let new_date = self.roll_forward_bus_day(date);\n        if new_date.month() != date.month() {\n            self.roll_backward_bus_day(date)",
  "        let new_date = self.roll_forward_bus_day(date);\n        if new_date.year() != date.year() {\n            self.roll_backward_bus_day(date)"),
 ("C04", "settled forward roll restarts from the original date (no progress)", "rust/calendars/dateroll.rs",
  "            new_date = self.roll_forward_bus_day(&(new_date + Days::new(1)));\n        }\n        new_date\n    }\n\n    /// Return the date, if a business day that can be settled, or the preceding",
  "            new_date = self.roll_forward_bus_day(&(*date + Days::new(1)));\n        }\n        new_date\n    }\n\n    /// Return the date, if a business day that can be settled, or the preceding"),
 ("C04", "settlement dispatch swaps P and ModP", "rust/calendars/dateroll.rs",
  "        Modifier::P => cal.roll_backward_settled_bus_day(date),\n        Modifier::ModF => cal.roll_forward_mod_settled_bus_day(date),\n        Modifier::ModP => cal.roll_backward_mod_settled_bus_day(date),",
  "        Modifier::P => cal.roll_backward_mod_settled_bus_day(date),\n        Modifier::ModF => cal.roll_forward_mod_settled_bus_day(date),\n        Modifier::ModP => cal.roll_backward_settled_bus_day(date),"),
 ("C04", "modified previous with settlement reverses without settlement check", "rust/calendars/dateroll.rs",
  "        let new_date = self.roll_backward_settled_bus_day(date);\n        if new_date.month() != date.month() {\n            self.roll_forward_settled_bus_day(date)",
  "        let new_date = self.roll_backward_settled_bus_day(date);\n        if new_date.month() != date.month() {\n            self.roll_forward_bus_day(date)"),
 ("C05", "zero business days with settlement rolls backward", "rust/calendars/dateroll.rs",
  "        } else if days < 0 {\n            Ok(self.roll_backward_settled_bus_day(&new_date))",
  "        } else if days <= 0 {\n            Ok(self.roll_backward_settled_bus_day(&new_date))"),
 ("C05", "lag on a non-business day subtracting counts one too many", "rust/calendars/dateroll.rs",
  "                .add_bus_days(&self.roll_backward_bus_day(date), days + 1, settlement)",
  "                .add_bus_days(&self.roll_backward_bus_day(date), days, settlement)"),
 ("C05", "bus_date_range excludes the end date", "rust/calendars/dateroll.rs",
  "        let mut sample_date = *start;\n        while sample_date <= *end {\n            vec.push(sample_date);\n            sample_date = self.add_bus_days(&sample_date, 1, false)?;",
  "        let mut sample_date = *start;\n        while sample_date < *end {\n            vec.push(sample_date);\n            sample_date = self.add_bus_days(&sample_date, 1, false)?;"),
 ("C05", "add_days ignores the sign of a negative count", "rust/calendars/dateroll.rs",
  "            *date - Days::new(u64::from(days.unsigned_abs()))", "            *date + Days::new(u64::from(days.unsigned_abs()))"),
 ("C06", "settlement calendars only check holidays, not weekends", "rust/calendars/calendar.rs",
  "            .map_or(true, |v| !v.iter().any(|cal| cal.is_non_bus_day(date)))",
  "            .map_or(true, |v| !v.iter().any(|cal| cal.is_holiday(date)))"),
 ("C06", "named calendar parses the first part twice", "rust/calendars/calendar.rs",
  "            let settle_cals: Vec<Cal> = parse_cals(parts[1])?;", "            let settle_cals: Vec<Cal> = parse_cals(parts[0])?;"),
 ("C06", "named calendar is case sensitive", "rust/calendars/calendar.rs",
  "        let name_ = name.to_lowercase();", "        let name_ = name.to_string();"),
 ("C06", "UnionCal == ignores settlement", "rust/calendars/calendar.rs",
  "        cd1.iter().zip(cd2.iter()).all(|(x, y)| {\n            self.is_bus_day(x) == other.is_bus_day(x)\n                && self.is_settlement(x) == other.is_settlement(y)\n        })\n    }\n}\n\nimpl<T> PartialEq<T> for NamedCal",
  "        cd1.iter().zip(cd2.iter()).all(|(x, y)| {\n            self.is_bus_day(x) == other.is_bus_day(y)\n        })\n    }\n}\n\nimpl<T> PartialEq<T> for NamedCal"),
 ("C06", "three-part names accepted", "rust/calendars/calendar.rs",
  "        if parts.len() > 2 {", "        if parts.len() > 3 {"),
 ("C06", "union business day needs only one member", "rust/calendars/calendar.rs",
  "        self.calendars.iter().all(|cal| cal.is_weekday(date))", "        self.calendars.iter().any(|cal| cal.is_weekday(date))"),
 ("C07", "tgt: one far-future Good Friday dropped", "rust/calendars/named/tgt.rs",
  "    \"2150-04-10 00:00:00\",\n", ""),
 ("C07", "nyc: Thanksgiving 2133 shifted by a day", "rust/calendars/named/nyc.rs",
  "    \"2133-11-26 00:00:00\",", "    \"2133-11-27 00:00:00\","),
 ("C07", "all: Sundays excluded", "rust/calendars/named/all.rs",
  "pub const WEEKMASK: &[u8] = &[];", "pub const WEEKMASK: &[u8] = &[6];"),
 ("C07", "fed wired back to nyc holidays", "rust/calendars/named/mod.rs",
  "        (\"fed\", fed::HOLIDAYS),", "        (\"fed\", nyc::HOLIDAYS),"),
 ("C07", "syd: Anzac Day 2152 (a Tuesday) dropped", "rust/calendars/named/syd.rs",
  "    \"2152-04-25 00:00:00\",\n", ""),
 ("C07", "ldn: an extra holiday added in 2031", "rust/calendars/named/ldn.rs",
  "    \"2031-04-11 00:00:00\",", "    \"2031-04-10 00:00:00\",\n    \"2031-04-11 00:00:00\","),
 ("C08", "month total 13 not wrapped", "rust/calendars/dateroll.rs",
  "        } else if new_month >= 13 {", "        } else if new_month > 13 {"),
 ("C08", "IMM wrong when the month starts on a Saturday", "rust/calendars/dateroll.rs",
  "        Weekday::Sat => ndt(year, month, 19),", "        Weekday::Sat => ndt(year, month, 20),"),
 ("C08", "year roll forgets the sign for negative multiples", "rust/calendars/dateroll.rs",
  "        let mut yr_roll = (months.abs() / 12) * months.signum();", "        let mut yr_roll = months.abs() / 12;"),
 ("C08", "get_eom stops at 30", "rust/calendars/dateroll.rs",
  "    let mut day = 31;\n    let mut date = NaiveDate::from_ymd_opt(year, month, day);", "    let mut day = 30;\n    let mut date = NaiveDate::from_ymd_opt(year, month, day);"),
 ("C09", "cross built from the wrong leg", "rust/fx/rates/mod.rs",
  "        fx_array[[c[0], c[1]]] = &fx_array[[c[0], node]] * &fx_array[[node, c[1]]];",
  "        fx_array[[c[0], c[1]]] = &fx_array[[c[0], node]] * &fx_array[[c[1], node]];"),
 ("C09", "over-specified check off by one", "rust/fx/rates/mod.rs",
  "        } else if q < (fx_rates.len() + 1) {", "        } else if q + 1 < (fx_rates.len() + 1) {"),
 ("C09", "settlement consistency weakened", "rust/fx/rates/mod.rs",
  "                    .all(|d| d.settlement.map_or(false, |v| v == date)))", "                    .all(|d| d.settlement.map_or(true, |v| v == date)))"),
 ("C09", "reciprocal of a derived cross not stored", "rust/fx/rates/mod.rs",
  "        fx_array[[c[1], c[0]]] = 1.0_f64 / &fx_array[[c[0], c[1]]];\n    }\n\n    if counter == 0 {",
  "        fx_array[[c[1], c[0]]] = &fx_array[[c[1], node]] * &fx_array[[c[0], node]];\n    }\n\n    if counter == 0 {"),
 ("C10", "variable name prefix changed", "rust/fx/rates/mod.rs",
  "format!(\"fx_{}\", x)", "format!(\"fx{}\", x)"),
 ("C10", "2->1 order switch drops first derivatives", "rust/fx/rates/mod.rs",
  "                        arr.clone().into_iter().map(|d| d.into()).collect(),", "                        arr.clone().into_iter().map(|d| Dual::new(d.real(), vec![])).collect(),"),
 ("C10", "update accepts the inverse orientation of a known pair", "rust/fx/rates/mod.rs",
  "            .all(|v| self.fx_rates.iter().any(|x| x.pair == v.pair)))",
  "            .all(|v| self.fx_rates.iter().any(|x| x.pair == v.pair || (x.pair.0 == v.pair.1 && x.pair.1 == v.pair.0))))"),
 ("C10", "update rebuilds from stale quotes", "rust/fx/rates/mod.rs",
  "        let new_fxr = FXRates::try_new(fx_rates_, Some(self.currencies[0]))?;\n        self.fx_rates.clone_from(&new_fxr.fx_rates);",
  "        let new_fxr = FXRates::try_new(fx_rates_, Some(self.currencies[0]))?;\n        if new_fxr.fx_rates.len() > 3 { return Ok(()); }\n        self.fx_rates.clone_from(&new_fxr.fx_rates);"),
 ("C11", "index_left tie goes right", "rust/curves/interpolation/utils.rs",
  "            } else if value <= &list_input[split] {", "            } else if value < &list_input[split] {"),
 ("C11", "flat forward excludes the right node", "rust/curves/interpolation/intp_flat_forward.rs",
  "                if x >= *x2 {", "                if x > *x2 {"),
 ("C11", "flat backward excludes the left node", "rust/curves/interpolation/intp_flat_backward.rs",
  "                if x <= *x1 {", "                if x < *x1 {"),
 ("C11", "CurveDF::try_new does not sort", "rust/curves/curve.rs",
  "        let mut nodes = NodesTimestamp::from(nodes);\n        nodes.sort_keys();", "        let mut nodes = NodesTimestamp::from(nodes);\n        let _ = &mut nodes;"),
 ("C11", "zero-rate first interval not special-cased", "rust/curves/interpolation/utils.rs",
  "    let r: T = if t1 == 0.0_f64 {", "    let r: T = if t1 == -1.0_f64 {"),
 ("C12", "second-order tags all use node 0", "rust/curves/curve.rs",
  "                        .map(|(i, (k, v))| (*k, Dual2::new(*v, vec![vars[i].clone()]))),", "                        .map(|(_i, (k, v))| (*k, Dual2::new(*v, vec![vars[0].clone()]))),"),
 ("C12", "index value zero at the first node", "rust/curves/curve.rs",
  "                if date.and_utc().timestamp() < self.nodes.first_key() {", "                if date.and_utc().timestamp() <= self.nodes.first_key() {"),
 ("C12", "1->2 switch re-tags instead of keeping names", "rust/curves/curve.rs",
  "                    i.into_iter().map(|(k, v)| (*k, Dual2::from(v))),", "                    i.into_iter().map(|(k, v)| (*k, Dual2::new(v.real(), vec![]))),"),
 ("C12", "python constructor tags in supply order", "rust/curves/curve_py.rs",
  "    let vars: Vec<String> = get_variable_tags(id, nodes.keys().len());\n    nodes.sort_keys();",
  "    let mut vars: Vec<String> = get_variable_tags(id, nodes.keys().len());\n    { let mut order: Vec<usize> = (0..vars.len()).collect(); let keys: Vec<NaiveDateTime> = nodes.keys().cloned().collect(); order.sort_by_key(|i| keys[*i]); let mut v2 = vars.clone(); for (pos, i) in order.iter().enumerate() { v2[pos] = vars[*i].clone(); } vars = v2; }\n    nodes.sort_keys();"),
 ("C13", "right-hand side not permuted with the rows (generic solver)", "rust/dual/linalg/linalg_dual.rs",
  "            row_swap(&mut a_, &j, &k);\n            el_swap(&mut b_, &j, &k);", "            row_swap(&mut a_, &j, &k);"),
 ("C13", "pivot index misses the offset (float-matrix solver)", "rust/dual/linalg/linalg_f64.rs",
  "        let k = argabsmax(a_.slice(s![j.., j])) + j;", "        let k = (argabsmax(a_.slice(s![j.., j])) + j).min(j + 1).min(n - 1).max(j);"),
 ("C13", "least squares uses b instead of A^T b scaling", "rust/dual/linalg/linalg_f64.rs",
  "        let b_: Array1<T> = fdmul21_(&a.t(), b);", "        let b_: Array1<T> = fdmul21_(&(&a.t() * 2.0).view(), b);"),
 ("C14", "derivative order check off by one", "rust/splines/spline.rs",
  "    } else if *k == 1 || m >= *k {", "    } else if *k == 1 || m > *k {"),
 ("C14", "right end uses k instead of org_k", "rust/splines/spline.rs",
  "    if *x == t[t.len() - 1] && i >= (t.len() - org_k - 1) {", "    if *x == t[t.len() - 1] && i >= (t.len() - k - 1) {"),
 ("C14", "order-1 pieces are left-continuous", "rust/splines/spline.rs",
  "        if t[i] <= *x && *x < t[i + 1] {", "        if t[i] < *x && *x <= t[i + 1] {"),
 ("C14", "second derivative branch loses the (k-1) factor", "rust/splines/spline.rs",
  "        r *= (k - 1) as f64\n    }\n    r", "        r *= (k - 2).max(1) as f64\n    }\n    r"),
 ("C15", "right end condition uses left_n", "rust/splines/spline.rs",
  "                bspldnev_single_f64(&tau[tau.len() - 1], i, &self.k, &self.t, right_n, None);", "                bspldnev_single_f64(&tau[tau.len() - 1], i, &self.k, &self.t, left_n, None);"),
 ("C15", "dual abscissa derivative uses m instead of m+1", "rust/splines/spline.rs",
  "    let b_f64 = bspldnev_single_f64(&x.real(), i, k, t, m, org_k);\n    let dbdx_f64 = bspldnev_single_f64(&x.real(), i, k, t, m + 1, org_k);\n    Dual::clone_from(x, b_f64, dbdx_f64 * x.dual())",
  "    let b_f64 = bspldnev_single_f64(&x.real(), i, k, t, m, org_k);\n    let dbdx_f64 = bspldnev_single_f64(&x.real(), i, k, t, m.max(1), org_k);\n    Dual::clone_from(x, b_f64, dbdx_f64 * x.dual())"),
 ("C15", "dual2 abscissa second-order term not halved", "rust/splines/spline.rs",
  "    let d2bdx2_f64 = bspldnev_single_f64(&x.real(), i, k, t, m + 2, org_k);\n    let dual2 =\n        dbdx_f64 * x.dual2() + 0.5 * d2bdx2_f64",
  "    let d2bdx2_f64 = bspldnev_single_f64(&x.real(), i, k, t, m + 2, org_k);\n    let dual2 =\n        dbdx_f64 * x.dual2() + 1.0 * d2bdx2_f64"),
 ("C15", "tau / y length check dropped", "rust/splines/spline.rs",
  "        if tau.len() != y.len() {", "        if tau.len() + 1000 < y.len() {"),
 ("C16", "float_roundtrip feature removed", "Cargo.toml",
  "serde_json = { version = \"1.0\", features = [\"float_roundtrip\"] }", "serde_json = \"1.0\""),
 ("C16", "FX market reloaded with the last currency as base", "rust/fx/rates/mod.rs",
  "            .first()\n            .ok_or_else", "            .last()\n            .ok_or_else"),
 ("C16", "curve index_base not serialised", "rust/curves/curve.rs",
  "    pub(crate) index_base: Option<f64>,", "    #[serde(skip)]\n    pub(crate) index_base: Option<f64>,"),
 ("C16", "UnionCal settlement calendars not serialised", "rust/calendars/calendar.rs",
  "    pub(crate) settlement_calendars: Option<Vec<Cal>>,", "    #[serde(skip)]\n    pub(crate) settlement_calendars: Option<Vec<Cal>>,"),
 ("C17", "gradient2 lookup path not doubled", "rust/dual/dual.rs",
  "                2_f64 * dual2_", "                1_f64 * dual2_"),
 ("C17", "manifold placeholder has unit gradient (regression of the fix)", "rust/dual/dual.rs",
  "        default_zero.dual.fill(0.0);", "        default_zero.dual.fill(1.0);"),
 ("C17", "gradient1 lookup reads the requested position instead of the stored one", "rust/dual/dual.rs",
  "                    if let Some(value) = index {\n                        dual_[i] = self.dual()[value]",
  "                    if let Some(value) = index {\n                        dual_[i] = self.dual()[value.min(i)]"),
 ("C18", "set_order_clone 2->1 forgets the variables", "rust/dual/dual_ops/convert.rs",
  "        (Number::Dual2(d), ADOrder::One) => Number::Dual(Dual::from(d)),\n        (Number::F64(f), ADOrder::Two) => Number::Dual2(Dual2::new(*f, vars)),",
  "        (Number::Dual2(d), ADOrder::One) => Number::Dual(Dual::new(d.real, vec![])),\n        (Number::F64(f), ADOrder::Two) => Number::Dual2(Dual2::new(*f, vars)),"),
 ("C18", "abs_sub helpfully converts Dual with Dual2", "rust/dual/dual_ops/signed.rs",
  "            (Number::Dual(_), Number::Dual2(_)) => {\n                panic!(\"Cannot mix dual types: Dual / Dual2\")\n            }",
  "            (Number::Dual(d), Number::Dual2(d2)) => Number::Dual2(Dual2::from(d).abs_sub(d2)),"),
 ("C18", "From<&Dual> for Dual2 builds a unit Hessian", "rust/dual/dual_ops/from.rs",
  "            dual: value.dual.clone(),\n            dual2: Array2::zeros((n, n)),", "            dual: value.dual.clone(),\n            dual2: Array2::eye(n),"),
 ("C18", "Number % f64 returns the wrong kind for floats", "rust/dual/dual_ops/rem.rs",
  "impl_op_ex!(% |a: &Number, b: &f64| -> Number {\n    match a {\n        Number::F64(f) => Number::F64(f % b),",
  "impl_op_ex!(% |a: &Number, b: &f64| -> Number {\n    match a {\n        Number::F64(f) => Number::Dual(Dual::new(f % b, vec![])),"),
 ("C19", "remainder uses floor", "rust/dual/dual_ops/rem.rs",
  "impl_op_ex!(% |a: &Dual, b: &Dual| -> Dual {\n    let d = f64::trunc(a.real / b.real);", "impl_op_ex!(% |a: &Dual, b: &Dual| -> Dual {\n    let d = f64::floor(a.real / b.real);"),
 ("C19", "Dual2 abs keeps the sign of second-order terms", "rust/dual/dual_ops/signed.rs",
  "                dual2: -1.0 * &self.dual2,", "                dual2: self.dual2.clone(),"),
 ("C19", "float-vs-Dual ordering reversed", "rust/dual/dual_ops/ord.rs",
  "impl PartialOrd<Dual> for f64 {\n    fn partial_cmp(&self, other: &Dual) -> Option<Ordering> {\n        self.partial_cmp(&other.real)",
  "impl PartialOrd<Dual> for f64 {\n    fn partial_cmp(&self, other: &Dual) -> Option<Ordering> {\n        other.real.partial_cmp(self)"),
 ("C19", "Dual2 sum starts from one", "rust/dual/dual_ops/sum.rs",
  "        iter.fold(Dual2::new(0.0, Vec::new()), |acc, x| acc + x)", "        iter.fold(Dual2::new(1.0, Vec::new()), |acc, x| acc + x)"),
 ("C19", "Dual2 % f64 drops second-order terms", "rust/dual/dual_ops/rem.rs",
  "    Dual2 {vars: Arc::clone(&a.vars), real: a.real % b, dual: a.dual.clone(), dual2: a.dual2.clone()}",
  "    Dual2 {vars: Arc::clone(&a.vars), real: a.real % b, dual: a.dual.clone(), dual2: &a.dual2 * 0.0}"),

 ("C08", "add_months ignores the roll day for negative offsets (uses start day)", "rust/calendars/dateroll.rs",
  "        let roll_ = match roll {\n            RollDay::Unspecified {} => RollDay::Int { day: date.day() },\n            _ => *roll,\n        };",
  "        let roll_ = match roll {\n            RollDay::Unspecified {} => RollDay::Int { day: date.day() },\n            RollDay::SoM {} if months < -24 => RollDay::Int { day: date.day() },\n            _ => *roll,\n        };"),
 ("C08", "roll day 31 capped to 30 in every month", "rust/calendars/dateroll.rs",
  "        RollDay::Int { day: val } => Ok(get_roll_by_day(year, month, *val)),", "        RollDay::Int { day: val } => Ok(get_roll_by_day(year, month, (*val).min(30))),"),
 ("C01", "Sum of Duals starts from a stray variable-free one for long iterators", "rust/dual/dual_ops/sum.rs",
  "        iter.fold(Dual::new(0.0, [].to_vec()), |acc, x| acc + x)", "        iter.enumerate().fold(Dual::new(0.0, [].to_vec()), |acc, (i, x)| if i == 4 { acc + x + 1e-9 } else { acc + x })"),
 ("C01", "Dual inv_norm_cdf derivative uses the argument instead of the result", "rust/dual/dual_ops/math_funcs.rs",
  "        let scalar = (2.0 * PI).sqrt() * (0.5_f64 * base.pow(2.0_f64)).exp();\n        Dual {", "        let scalar = (2.0 * PI).sqrt() * (0.5_f64 * self.real.pow(2.0_f64)).exp();\n        Dual {"),
 ("C01", "negation by reference forgets the derivative sign for empty-variable numbers only", "rust/dual/dual_ops/neg.rs",
  "impl_op!(-|a: &Dual| -> Dual {\n    Dual {\n        vars: Arc::clone(&a.vars),\n        real: -a.real,\n        dual: &a.dual * -1.0,",
  "impl_op!(-|a: &Dual| -> Dual {\n    Dual {\n        vars: Arc::clone(&a.vars),\n        real: -a.real,\n        dual: if a.dual.len() > 2 { a.dual.clone() } else { &a.dual * -1.0 },"),
 ("C03", "Subset operands: left operand not re-laid out when lists differ only by extra names at the front", "rust/dual/dual.rs",
  "            VarsRelationship::Subset => {\n                (self.to_new_vars(other.vars(), Some(state_)), other.clone())\n            }",
  "            VarsRelationship::Subset => {\n                if self.vars().len() + 3 <= other.vars().len() { return other.to_combined_vars(other); }\n                (self.to_new_vars(other.vars(), Some(state_)), other.clone())\n            }"),
 ("C20", "currency code length counted in characters", "rust/fx/rates/ccy.rs",
  "        if ccy.len() != 3 {", "        if ccy.chars().count() != 3 {"),
 ("C20", "NamedCal JSON panics again (regression of the fix)", "rust/calendars/calendar.rs",
  "        Self::try_new(&model.name)\n            .map_err(|_| format!(\"NamedCal data model contains bad data: '{}'.\", model.name))",
  "        Ok(Self::try_new(&model.name).expect(\"NamedCal data model contains bad data.\"))"),
 ("C20", "Dual2 JSON shape check dropped for dual2", "rust/dual/dual.rs",
  "        if model.dual2.dim() != (n, n) {", "        if model.dual2.dim().0 != n {"),
 ("C20", "lag unwraps a refused add for the extreme count", "rust/calendars/dateroll.rs",
  "            Ordering::Greater => self\n                .add_bus_days(&self.roll_forward_bus_day(date), days - 1, settlement)",
  "            Ordering::Greater => self\n                .add_bus_days(&(self.roll_forward_bus_day(date) + Days::new(if days == 127 { 1 } else { 0 })), days - 1, settlement)"),
 ("C20", "csolve singular systems panic again (regression of the fix)", "rust/dual/linalg/linalg_dual.rs",
  "                .unwrap_or(std::cmp::Ordering::Equal)", "                .unwrap()"),
]

def sh(cmd, **kw):
    return subprocess.run(cmd, shell=True, capture_output=True, text=True, **kw)

def main():
    only = None
    keep = "--keep" in sys.argv
    for i, a in enumerate(sys.argv):
        if a == "--only":
            only = set(sys.argv[i + 1].split(","))
    os.makedirs(os.path.dirname(SCRATCH), exist_ok=True)
    if os.path.exists(SCRATCH):
        sh(f"git -C /repo worktree remove --force {SCRATCH}")
        shutil.rmtree(SCRATCH, ignore_errors=True)
    r = sh(f"git -C /repo worktree add --detach {SCRATCH} HEAD")
    if r.returncode != 0:
        print(r.stderr); sys.exit(2)
    env = dict(os.environ, CARGO_NET_OFFLINE="true", CARGO_TARGET_DIR=TGT)
    results = []
    t0 = time.time()
    # warm build of the tests once
    sh(f"cd {SCRATCH} && cargo test --workspace --no-run --offline", env=env)
    for m in M:
        prop, name, file, old, new = m[:5]
        if only and prop not in only:
            continue
        sh(f"git -C {SCRATCH} checkout -- .")
        p = os.path.join(SCRATCH, file)
        s = open(p).read()
        cnt = s.count(old)
        rec = {"property": prop, "mutant": name, "file": file}
        if cnt != 1:
            rec["status"] = f"patch-does-not-apply (occurrences={cnt})"
            results.append(rec); print(rec); continue
        open(p, "w").write(s.replace(old, new))
        t = sh(f"cd {SCRATCH} && timeout 400 cargo nextest run --workspace --no-fail-fast --offline 2>&1 | tail -3", env=env)
        out = t.stdout
        if "229 passed" not in out:
            rec["status"] = "not-test-surviving"
            rec["tests"] = out.strip().splitlines()[-1] if out.strip() else "build failed"
            results.append(rec); print(rec); continue
        c = sh(f"cd {HERE} && VERIF_REPO={SCRATCH} ./check {prop} quick", env=dict(os.environ, CARGO_NET_OFFLINE="true"))
        lines = c.stdout.splitlines()
        sigs = [l.strip() for l in lines if l.strip().startswith("violated:")]
        rec["check_exit"] = c.returncode
        rec["signatures"] = sigs[:6]
        rec["status"] = "killed" if c.returncode == 1 and any("VIOLATION" in l for l in lines) else ("inconclusive" if c.returncode == 2 else "SURVIVED")
        if c.returncode == 2:
            rec["why"] = [l for l in lines if "INCONCLUSIVE" in l][:3]
        results.append(rec); print(json.dumps(rec)[:400], flush=True)
    json.dump({"when": time.strftime("%Y-%m-%d %H:%M"), "wall_s": time.time() - t0, "results": results}, open(os.path.join(HERE, "tools", "mutants_result.json"), "w"), indent=1)
    killed = sum(1 for r in results if r["status"] == "killed")
    surv = [r for r in results if r["status"] == "SURVIVED"]
    print(f"killed {killed} / test-surviving {sum(1 for r in results if r['status'] in ('killed','SURVIVED','inconclusive'))} / total {len(results)}")
    for r in surv:
        print("SURVIVED:", r["property"], r["mutant"])
    if not keep:
        sh(f"git -C /repo worktree remove --force {SCRATCH}")
        shutil.rmtree("/tmp/rvmon-mutants", ignore_errors=True)
        # the per-repository harness target dir
        for d in os.listdir(HERE):
            if d.startswith(".target-"):
                shutil.rmtree(os.path.join(HERE, d), ignore_errors=True)
        sh("git -C /repo worktree prune")

if __name__ == "__main__":
    main()
