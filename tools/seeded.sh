#!/usr/bin/env bash
# tools/seeded.sh <name> <property> <agent-worktree> [extra check ids...]
# Confirms a seeded change independently (tests pass with it; demo fails with it and passes without),
# stores it under /verif/seeded/<name>/, then applies it to /repo, runs the property's checks and
# undoes it straight afterwards. Development-time tool, not registered in MANIFEST.json.
set -u
name=$1; prop=$2; wt=$3; shift 3; extra="$*"
V=/verif; out=$V/seeded/$name; mkdir -p $out
cp $wt/seed/patch.diff $out/patch.diff
cp $wt/seed/demo.rs $out/demo.rs 2>/dev/null || cp -r $wt/seed/demo* $out/
cp $wt/seed/README.md $out/agent_README.md 2>/dev/null
export CARGO_NET_OFFLINE=true CARGO_TARGET_DIR=$wt/target
cd $wt
# where is the demo? an example or an in-tree test
run_demo() {
  if [ -f $wt/examples/demo.rs ]; then (cd $wt && cargo run --offline --example demo >/dev/null 2>&1); echo $?;
  else (cd $wt && cargo test --offline --lib seed_demo >$wt/seed/demo_out.txt 2>&1); grep -E "^test result" $wt/seed/demo_out.txt | head -1 | grep -q "test result: ok. [1-9]" && echo 0 || echo 1; fi
}
git -C $wt apply -R --check $out/patch.diff 2>/dev/null || { echo "patch is not applied in the worktree as expected"; }
tests_with=$(cd $wt && cargo nextest run --workspace --no-fail-fast --offline 2>&1 | grep -E "tests run:" | tail -1)
demo_with=$(run_demo)
git -C $wt apply -R $out/patch.diff
demo_without=$(run_demo)
git -C $wt apply $out/patch.diff
echo "tests with change: $tests_with"; echo "demo exit with change: $demo_with ; without: $demo_without"
# run our checks against it
cd $V
git -C /repo apply $out/patch.diff || { echo "patch does not apply to /repo"; exit 2; }
res=""
for p in $prop $extra; do
  q=$(./check $p quick 2>&1); qrc=$?
  res="$res\"$p quick\": {\"exit\": $qrc, \"signatures\": $(echo "$q" | grep 'violated:' | head -5 | python3 -c 'import sys,json; print(json.dumps([l.strip() for l in sys.stdin]))')},"
  echo "== $p quick exit=$qrc"; echo "$q" | grep -E "violated|INCONCLUSIVE" | head -5
  if [ $qrc -eq 0 ] && [ "$p" = "$prop" ]; then
    t=$(./check $p thorough 2>&1); trc=$?
    res="$res\"$p thorough\": {\"exit\": $trc, \"signatures\": $(echo "$t" | grep 'violated:' | head -5 | python3 -c 'import sys,json; print(json.dumps([l.strip() for l in sys.stdin]))')},"
    echo "== $p thorough exit=$trc"; echo "$t" | grep -E "violated|INCONCLUSIVE" | head -5
  fi
done
git -C /repo checkout -- .
# restore evidence of the unchanged tree
for p in $prop $extra; do ./check $p quick >/dev/null 2>&1; done
cat > $out/meta.json <<META
{
 "name": "$name",
 "property": "$prop",
 "source": "independent sub-agent given only the property text and a scratch worktree",
 "confirmed": {"pinned_tests_with_change": "$tests_with", "demo_exit_with_change": $demo_with, "demo_exit_without_change": $demo_without},
 "checks_on_repo_with_change": { ${res%,} }
}
META
echo "wrote $out/meta.json"
