#!/usr/bin/env python3
"""tools/seeded_recheck.py <seed-name> <Cxx> [<Cxx> ...]
Re-evaluate a stored seeded change with the current monitors: apply seeded/<name>/patch.diff to /repo, run the
quick check of each listed property, undo, and refresh `checks_on_repo_with_change` in meta.json (the first
evaluation stays recorded under `history`).  Development-time tool; never run while a sweep uses /repo."""
import json, subprocess, sys, os

V = os.path.dirname(os.path.dirname(os.path.abspath(__file__)))
name, props = sys.argv[1], sys.argv[2:]
d = os.path.join(V, "seeded", name)
meta = json.load(open(os.path.join(d, "meta.json")))
subprocess.check_call(["git", "-C", "/repo", "apply", os.path.join(d, "patch.diff")])
res = {}
try:
    for p in props:
        r = subprocess.run([os.path.join(V, "check"), p, "quick"], capture_output=True, text=True)
        sigs = [l.strip() for l in r.stdout.splitlines() if "violated:" in l][:5]
        res[f"{p} quick"] = {"exit": r.returncode, "signatures": sigs}
        print(name, p, "quick exit", r.returncode, sigs[:2])
finally:
    subprocess.check_call(["git", "-C", "/repo", "checkout", "--", "."])
meta["checks_on_repo_with_change"] = res
json.dump(meta, open(os.path.join(d, "meta.json"), "w"), indent=1)
for p in props:  # evidence of the unchanged tree again
    subprocess.run([os.path.join(V, "check"), p, "quick"], capture_output=True)
