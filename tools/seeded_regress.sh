#!/usr/bin/env bash
# tools/seeded_regress.sh : re-apply every stored seeded change to /repo, run the targeted
# property's quick check (must exit 1), undo. Development-time regression of the monitors.
cd /verif
fail=0
for d in seeded/*/; do
  n=$(basename $d); prop=$(python3 -c "import json;print(json.load(open('$d/meta.json'))['property'])")
  git -C /repo apply /verif/$d/patch.diff 2>/dev/null || { echo "$n: patch does not apply"; fail=1; continue; }
  out=$(./check $prop quick 2>&1); rc=$?
  git -C /repo checkout -- .
  if [ $rc -eq 1 ]; then echo "$n: caught by $prop quick ($(echo "$out" | grep -c 'violated:') signatures)"; else echo "$n: NOT caught (exit $rc)"; fail=1; fi
done
# evidence of the unchanged tree again
for p in C01 C02 C03 C04 C05 C06 C07 C08 C09 C10 C11 C12 C13 C14 C15 C16 C17 C18 C19 C20; do ./check $p quick >/dev/null 2>&1; done
exit $fail
