#!/usr/bin/env bash
# tools/seeded_regress_par.sh [workers] : the regression of tools/seeded_regress.sh, spread over scratch copies of
# /repo (one per worker, each with its own target directory via VERIF_REPO), so that /repo itself is not touched.
# Every stored seeded change is applied to a copy, the targeted property's quick check must exit 1, the change is
# undone. Development-time tool; removes its copies and their build output at the end.
cd "$(dirname "$0")/.."
W=${1:-4}
BASE=/tmp/rvmon-regress
rm -rf $BASE; mkdir -p $BASE
ls -d seeded/*/ | sed 's#seeded/##; s#/##' > $BASE/all.txt
worker() {
  w=$1; copy=$BASE/repo$w; mkdir -p $copy
  (cd /repo && git archive HEAD | tar -x -C $copy) && (cd $copy && git init -q . && git add -A >/dev/null 2>&1 && git -c user.email=x@x -c user.name=x commit -qm base >/dev/null 2>&1)
  awk -v w=$w -v n=$W 'NR % n == w' $BASE/all.txt | while read n; do
    prop=$(python3 -c "import json;print(json.load(open('seeded/$n/meta.json'))['property'])")
    if ! git -C $copy apply $PWD/seeded/$n/patch.diff 2>/dev/null; then echo "$n: patch does not apply"; continue; fi
    out=$(VERIF_REPO=$copy ./check $prop quick 2>&1); rc=$?
    git -C $copy checkout -q -- . ; git -C $copy clean -fdq
    if [ $rc -eq 1 ]; then echo "$n: caught by $prop quick ($(echo "$out" | grep -c 'violated:') signatures)"; else echo "$n: NOT caught (exit $rc)"; echo "$out" | tail -5 | sed 's/^/    /'; fi
  done > $BASE/out$w.txt 2>&1
}
for w in $(seq 0 $((W-1))); do worker $w & done
wait
cat $BASE/out*.txt | sort
for w in $(seq 0 $((W-1))); do rm -rf "$(pwd)/.target-$(echo -n "$BASE/repo$w" | md5sum | cut -c1-8)"; done
rm -rf $BASE
