#!/usr/bin/env python3
"""Print the markdown table of seeded changes (from seeded/*/meta.json) for DESIGN.md."""
import json, glob, os
rows=[]
for f in sorted(glob.glob(os.path.join(os.path.dirname(os.path.dirname(os.path.abspath(__file__))),'seeded','*','meta.json'))):
    m=json.load(open(f))
    checks=m.get('checks_on_repo_with_change') or m.get('checks_on_scratch_worktree_with_change',{})
    caught=[k for k,v in checks.items() if v.get('exit')==1]
    missed=[k for k,v in checks.items() if v.get('exit')==0]
    first=''
    for k in caught:
        sg=checks[k].get('signatures') or []
        if sg:
            first=sg[0].replace('violated: ','').split(' (')[0]; break
    rows.append((m['name'], m['property'], ', '.join(caught) or '-', ', '.join(missed) or '-', first))
print('| seeded change | property | caught by | silent (by design or not targeted) | first signature |')
print('|---|---|---|---|---|')
for r in rows: print('| '+' | '.join(r)+' |')
