#!/usr/bin/env bash
# tools/seeded_wt.sh <name> <property> <agent-worktree>
# Like tools/seeded.sh, but never touches /repo: the checks are aimed at the agent's own scratch worktree
# (VERIF_REPO), so several seeded changes can be evaluated at the same time. Confirms independently that the
# pinned tests pass with the change and that the demonstration fails with it and passes without it, stores the
# change under /verif/seeded/<name>/, runs the targeted property's quick (and, if silent, thorough) check.
# Development-time tool, not registered in MANIFEST.json. The committed evidence file is restored afterwards.
set -u
name=$1; prop=$2; wt=$3
V=/verif; out=$V/seeded/$name; mkdir -p $out
cp $wt/seed/patch.diff $out/patch.diff
cp $wt/seed/demo.rs $out/demo.rs 2>/dev/null || cp -r $wt/seed/demo* $out/
cp $wt/seed/README.md $out/agent_README.md 2>/dev/null
export CARGO_NET_OFFLINE=true CARGO_TARGET_DIR=$wt/target
run_demo() {
  if [ -f $wt/examples/demo.rs ]; then (cd $wt && cargo run --offline --example demo >/dev/null 2>&1); echo $?;
  else (cd $wt && cargo test --offline --lib seed_demo >$wt/seed/demo_out.txt 2>&1); grep -E "^test result" $wt/seed/demo_out.txt | head -1 | grep -q "test result: ok. [1-9]" && echo 0 || echo 1; fi
}
git -C $wt apply -R --check $out/patch.diff 2>/dev/null || echo "patch is not applied in the worktree as expected"
tests_with=$(cd $wt && cargo nextest run --workspace --no-fail-fast --offline 2>&1 | grep -E "tests run:" | tail -1)
demo_with=$(run_demo)
git -C $wt apply -R $out/patch.diff
demo_without=$(run_demo)
git -C $wt apply $out/patch.diff
echo "tests with change: $tests_with"; echo "demo exit with change: $demo_with ; without: $demo_without"
unset CARGO_TARGET_DIR
cd $V
res=""
q=$(VERIF_REPO=$wt ./check $prop quick 2>&1); qrc=$?
res="\"$prop quick\": {\"exit\": $qrc, \"signatures\": $(echo "$q" | grep 'violated:' | head -5 | python3 -c 'import sys,json; print(json.dumps([l.strip() for l in sys.stdin]))')}"
echo "== $prop quick exit=$qrc"; echo "$q" | grep -E "violated|INCONCLUSIVE" | head -5
if [ $qrc -eq 0 ]; then
  t=$(VERIF_REPO=$wt ./check $prop thorough 2>&1); trc=$?
  res="$res, \"$prop thorough\": {\"exit\": $trc, \"signatures\": $(echo "$t" | grep 'violated:' | head -5 | python3 -c 'import sys,json; print(json.dumps([l.strip() for l in sys.stdin]))')}"
  echo "== $prop thorough exit=$trc"; echo "$t" | grep -E "violated|INCONCLUSIVE" | head -5
fi
git -C $V checkout -- evidence/$prop.json 2>/dev/null
rm -rf "$V/.target-$(echo -n "$wt" | md5sum | cut -c1-8)"
cat > $out/meta.json <<META
{
 "name": "$name",
 "property": "$prop",
 "source": "independent sub-agent given only the property text and a scratch worktree (steer v: constant / table entry / default / lookup key / one rare enum variant)",
 "confirmed": {"pinned_tests_with_change": "$tests_with", "demo_exit_with_change": $demo_with, "demo_exit_without_change": $demo_without},
 "checks_on_scratch_worktree_with_change": { $res }
}
META
echo "wrote $out/meta.json"
