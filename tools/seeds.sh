#!/usr/bin/env bash
# tools/seeds.sh <tier> <first-seed> <last-seed> <Cxx>... : run checks over a range of seeds, report any non-HELD outcome
tier=$1; a=$2; b=$3; shift 3
cd "$(dirname "$0")/.."
for p in "$@"; do
  bad=0
  for s in $(seq $a $b); do
    out=$(VERIF_SEED=$s ./check $p $tier 2>&1); rc=$?
    if [ $rc -ne 0 ]; then bad=$((bad+1)); echo "== $p seed=$s rc=$rc"; echo "$out" | grep -E "VIOLATION|INCONCLUSIVE|violated" | head -5; fi
  done
  echo "$p $tier seeds $a..$b: $bad non-zero exits"
done
